#[path = "common.rs"]
mod common;
#[allow(unused, non_snake_case, clippy::all)]
pub mod g2x {
   use ascent::*;
   use ascent::aggregators::*;
   use ascent::lattice::{Dual, set::Set};
   use crate::common::*;
   ascent! {
      pub struct Prog;
      relation r0(i64, i64);
      relation r1(i64, Option<i64>);
      relation r2(i64);
      relation r3(i64, i64, i64);
      relation r4(i64);
      relation r5(i64, i64);
      relation r6(i64, i64, i64);
      r4(2) <-- r3(v100, v101, v0) if (v100.clone() == 0) if (v101.clone() == 0), r1(v1, v102) if (v1.clone() != v1.clone()), r3(v103, v104, v2) if (v103.clone() == 2) if (v104.clone() == 1), r2(v105) if (v105.clone() == 1);
      r4(2) <-- r3(v106, v107, v0) if (v106.clone() == 0) if (v107.clone() == 0), r2(v3), r1(v4, v108) if let Some(v5) = v108.clone(), r2(v109) if (v109.clone() == 1);
      r4(2) <-- r3(v110, v111, v0) if (v110.clone() == 0) if (v111.clone() == 0), r2(v3), r0(v5, v4), agg () = not() in r0(v3.clone(), _), r2(v112) if (v112.clone() == 1);
      r4(2) <-- r3(v113, v114, v0) if (v113.clone() == 0) if (v114.clone() == 0), r2(v3), r0(v4, v5), r0(v6, v115) if (v115.clone() == (v5.clone() + v4.clone())) if (v4.clone() <= v5.clone()), r2(v116) if (v116.clone() == 1);
      r4(2) <-- r3(v117, v118, v0) if (v117.clone() == 0) if (v118.clone() == 0), r0(v7, v119) if (v119.clone() == v7.clone()), r2(v120) if (v120.clone() == 1);
      r5((v0.clone() + 1), 0) <-- r0(v0, v121) if (v121.clone() == (v0.clone() + 1)), r4(v122) if (v122.clone() == v0.clone()), r3(v123, v124, v125) if (v123.clone() == v0.clone()) if (v125.clone() == 1), if (v0.clone() < 5);
      r6(v0, v0, v1) <-- r6(v0, v126, v1) if (v126.clone() == v0.clone()) if (v0.clone() < v1.clone()), r3(v127, v128, v2) if (v127.clone() == v0.clone()) if (v128.clone() == v0.clone()), r5(v4, v3) if (v4.clone() == 4), r1(v129, v130) if (v129.clone() == (v0.clone() + 2)) if let Some(v11) = v130.clone();
      r6(v0, v0, v1) <-- r6(v0, v131, v1) if (v131.clone() == v0.clone()) if (v0.clone() < v1.clone()), r3(v132, v133, v2) if (v132.clone() == v0.clone()) if (v133.clone() == v0.clone()), r6(v4, v3, v5), r1(v134, v135) if (v134.clone() == (v0.clone() + 2)) if let Some(v11) = v135.clone();
      r6(v0, v0, v1) <-- r6(v0, v136, v1) if (v136.clone() == v0.clone()) if (v0.clone() < v1.clone()), r3(v137, v138, v2) if (v137.clone() == v0.clone()) if (v138.clone() == v0.clone()), r3(v3, v4, v139) if (v139.clone() == v2.clone()) if (v3.clone() != 5) let v6 = std::cmp::min((v4.clone() + 1), 6), r1(v140, v141) if (v140.clone() == (v0.clone() + 2)) if let Some(v11) = v141.clone();
      r6(v0, v0, v1) <-- r6(v0, v142, v1) if (v142.clone() == v0.clone()) if (v0.clone() < v1.clone()), let v7 = std::cmp::min(std::cmp::min(v0.clone(), 1), 6), agg () = not() in r0(std::cmp::max(v1.clone(), 0), _), r1(v143, v144) if (v143.clone() == (v0.clone() + 2)) if let Some(v11) = v144.clone();
      r6(v0, v0, v1) <-- r6(v0, v145, v1) if (v145.clone() == v0.clone()) if (v0.clone() < v1.clone()), let v7 = std::cmp::min(std::cmp::min(v0.clone(), 1), 6), r6(v146, v147, v8) if (v146.clone() == 2) if (v147.clone() == v0.clone()), r1(v148, v149) if (v148.clone() == (v0.clone() + 2)) if let Some(v11) = v149.clone();
      r6(v0, v0, v1) <-- r6(v0, v150, v1) if (v150.clone() == v0.clone()) if (v0.clone() < v1.clone()), let v7 = std::cmp::min(std::cmp::min(v0.clone(), 1), 6), r6(v151, v9, v10) if (v151.clone() == (v0.clone() + v1.clone())), r1(v152, v153) if (v152.clone() == (v0.clone() + 2)) if let Some(v11) = v153.clone();
      r6(v0, 1, v0) <-- r3(v154, v0, v155) if (v154.clone() == 3) if (v155.clone() == v0.clone());
      r4(v0) <-- r3(v154, v0, v155) if (v154.clone() == 3) if (v155.clone() == v0.clone());
      r5(v0, 3) <-- r1(v0, v156) if (v156.clone() == None::<i64>) if (v0.clone() == 2), agg () = not() in r3(0, _, std::cmp::min(v0.clone(), 3)), r2(v157) if (v157.clone() == std::cmp::max(v0.clone(), 3)) if (v0.clone() <= 5);
      r5(v0, v1) <-- agg () = not() in r0(3, 2), r1(v0, v158) if let Some(v1) = v158.clone();
      r6((v1.clone() + 1), (v1.clone() + 1), v1) <-- r0(v0, v1), if (v1.clone() < 5), if (v1.clone() < 5);
      r6(3, 3, 0);
      r6(1, 0, 3);
   }
   pub struct Inst { p: Prog, pool: Option<ascent::rayon::ThreadPool> }
   pub fn make(pool: Option<usize>) -> Box<dyn Driver> {
      let pool = pool.map(|n| ascent::rayon::ThreadPoolBuilder::new().num_threads(n).build().unwrap());
      let p = match &pool { Some(pl) => pl.install(|| Default::default()), None => Default::default() };
      Box::new(Inst { p, pool })
   }
   impl Driver for Inst {
      fn load(&mut self, rel: usize, rows: &[Sexp], append: bool) -> Option<()> {
         match rel {
         0 => { let v: Vec<(i64,i64,)> = parse_rows(rows)?; if append { self.p.r0.extend(v) } else { self.p.r0 = v } },
         1 => { let v: Vec<(i64,Option<i64>,)> = parse_rows(rows)?; if append { self.p.r1.extend(v) } else { self.p.r1 = v } },
         2 => { let v: Vec<(i64,)> = parse_rows(rows)?; if append { self.p.r2.extend(v) } else { self.p.r2 = v } },
         3 => { let v: Vec<(i64,i64,i64,)> = parse_rows(rows)?; if append { self.p.r3.extend(v) } else { self.p.r3 = v } },
         4 => { let v: Vec<(i64,)> = parse_rows(rows)?; if append { self.p.r4.extend(v) } else { self.p.r4 = v } },
         5 => { let v: Vec<(i64,i64,)> = parse_rows(rows)?; if append { self.p.r5.extend(v) } else { self.p.r5 = v } },
         6 => { let v: Vec<(i64,i64,i64,)> = parse_rows(rows)?; if append { self.p.r6.extend(v) } else { self.p.r6 = v } },
            _ => return None,
         }
         Some(())
      }
      fn run(&mut self) { match &self.pool { Some(pl) => { let p = &mut self.p; pl.install(|| p.run()) }, None => self.p.run() } }
      fn run_here(&mut self) { self.p.run() }
      fn run_timeout(&mut self, k: usize) -> Option<bool> { let _ = k; None }
      fn dump(&self) -> String { vec![dump_rel(0, self.p.r0.iter().map(Row::render).collect()), dump_rel(1, self.p.r1.iter().map(Row::render).collect()), dump_rel(2, self.p.r2.iter().map(Row::render).collect()), dump_rel(3, self.p.r3.iter().map(Row::render).collect()), dump_rel(4, self.p.r4.iter().map(Row::render).collect()), dump_rel(5, self.p.r5.iter().map(Row::render).collect()), dump_rel(6, self.p.r6.iter().map(Row::render).collect())].join(" | ") }
      fn iters(&self) -> String { format!("iters {}", self.p.scc_iters.iter().map(|x| x.to_string()).collect::<Vec<_>>().join(" ")) }
   }
}

#[allow(unused, non_snake_case, clippy::all)]
pub mod g6x {
   use ascent::*;
   use ascent::aggregators::*;
   use ascent::lattice::{Dual, set::Set};
   use crate::common::*;
   ascent! {
      pub struct Prog;
      relation r0(i64, i64);
      relation r1(i64, Option<i64>);
      relation r2(i64);
      relation r3(i64, i64, i64);
      relation r4(i64, Option<i64>);
      relation r5(i64, i64, i64);
      relation r6(i64, i64);
      relation r7(i64, i64);
      r4(v0, Some(v6.clone())) <-- r1(v0, v100) if let Some(v1) = v100.clone(), r3(v101, v6, v102) if (v101.clone() == v0.clone()) if (v102.clone() == 1), r2(v103) if (v103.clone() == v6.clone()) if (v0.clone() < 5);
      r4(v0, Some(v6.clone())) <-- r3(v104, v1, v0), r3(v105, v6, v106) if (v105.clone() == v0.clone()) if (v106.clone() == 1), r2(v107) if (v107.clone() == v6.clone()) if (v0.clone() < 5);
      r4(v0, Some(v6.clone())) <-- r0(v1, v0), r3(v2, v108, v109) if (v108.clone() == v2.clone()) if (v109.clone() == std::cmp::min(v2.clone(), 3)), r3(v110, v6, v111) if (v110.clone() == v0.clone()) if (v111.clone() == 1), r2(v112) if (v112.clone() == v6.clone()) if (v0.clone() < 5);
      r4(v0, Some(v6.clone())) <-- r1(v0, v3), r1(v113, v4) if (v113.clone() == v0.clone()), r3(v114, v6, v115) if (v114.clone() == v0.clone()) if (v115.clone() == 1), r2(v116) if (v116.clone() == v6.clone()) if (v0.clone() < 5);
      r4(v0, Some(v6.clone())) <-- r1(v0, v3), agg () = not() in r1(_, v3.clone()), r3(v117, v6, v118) if (v117.clone() == v0.clone()) if (v118.clone() == 1), r2(v119) if (v119.clone() == v6.clone()) if (v0.clone() < 5);
      r4(v0, Some(v6.clone())) <-- r1(v0, v120) if let Some(v5) = v120.clone(), r3(v121, v6, v122) if (v121.clone() == v0.clone()) if (v122.clone() == 1), r2(v123) if (v123.clone() == v6.clone()) if (v0.clone() < 5);
      r5(3, v0, v3) <-- r5(v0, v1, v2) if (v0.clone() <= v2.clone()), r5(v124, v125, v3) if (v124.clone() == v1.clone()) if (v125.clone() == 3) if (v3.clone() <= v2.clone()), r7(v126, v4) if (v126.clone() == v3.clone());
      r6(v0, v0) <-- if let Some(v0) = Some(3);
      r7(v0, v1) <-- r7(v0, v1), r6(v2, v127) if (v127.clone() == v1.clone()), r0(v128, v129) if (v129.clone() == v2.clone());
      r6(0, (v0.clone() + 1)) <-- r5(v0, v130, v1) if (v130.clone() == v0.clone()), r7(v131, v132) if (v131.clone() == 3) if (v132.clone() == v0.clone()), if (v0.clone() < 5);
      r7(v2, (v1.clone() + 1)) <-- r2(v0), r5(v1, v2, v133) if (v133.clone() == v2.clone()) if (v0.clone() == v2.clone()) let v3 = std::cmp::min(std::cmp::min(v0.clone(), 3), 6), r0(v134, v4) if (v134.clone() == 1), r7(v6, v135) if (v135.clone() == 1), if (v1.clone() < 5);
      r7(v2, (v1.clone() + 1)) <-- r2(v0), r3(v2, v1, v136) if (v136.clone() == v2.clone()), if let Some(v5) = Some(v0.clone()), r7(v6, v137) if (v137.clone() == 1), if (v1.clone() < 5);
      r7(v3, v0) <-- r2(v0), r7(v138, v1), r4(v3, v139) if (v139.clone() == Some((v0.clone() + 0)));
      r7(v3, v0) <-- r3(v140, v2, v0) if (v140.clone() == 0), r4(v3, v141) if (v141.clone() == Some((v0.clone() + 0)));
      r4(2, Some(3));
      r7(2, 1);
   }
   pub struct Inst { p: Prog, pool: Option<ascent::rayon::ThreadPool> }
   pub fn make(pool: Option<usize>) -> Box<dyn Driver> {
      let pool = pool.map(|n| ascent::rayon::ThreadPoolBuilder::new().num_threads(n).build().unwrap());
      let p = match &pool { Some(pl) => pl.install(|| Default::default()), None => Default::default() };
      Box::new(Inst { p, pool })
   }
   impl Driver for Inst {
      fn load(&mut self, rel: usize, rows: &[Sexp], append: bool) -> Option<()> {
         match rel {
         0 => { let v: Vec<(i64,i64,)> = parse_rows(rows)?; if append { self.p.r0.extend(v) } else { self.p.r0 = v } },
         1 => { let v: Vec<(i64,Option<i64>,)> = parse_rows(rows)?; if append { self.p.r1.extend(v) } else { self.p.r1 = v } },
         2 => { let v: Vec<(i64,)> = parse_rows(rows)?; if append { self.p.r2.extend(v) } else { self.p.r2 = v } },
         3 => { let v: Vec<(i64,i64,i64,)> = parse_rows(rows)?; if append { self.p.r3.extend(v) } else { self.p.r3 = v } },
         4 => { let v: Vec<(i64,Option<i64>,)> = parse_rows(rows)?; if append { self.p.r4.extend(v) } else { self.p.r4 = v } },
         5 => { let v: Vec<(i64,i64,i64,)> = parse_rows(rows)?; if append { self.p.r5.extend(v) } else { self.p.r5 = v } },
         6 => { let v: Vec<(i64,i64,)> = parse_rows(rows)?; if append { self.p.r6.extend(v) } else { self.p.r6 = v } },
         7 => { let v: Vec<(i64,i64,)> = parse_rows(rows)?; if append { self.p.r7.extend(v) } else { self.p.r7 = v } },
            _ => return None,
         }
         Some(())
      }
      fn run(&mut self) { match &self.pool { Some(pl) => { let p = &mut self.p; pl.install(|| p.run()) }, None => self.p.run() } }
      fn run_here(&mut self) { self.p.run() }
      fn run_timeout(&mut self, k: usize) -> Option<bool> { let _ = k; None }
      fn dump(&self) -> String { vec![dump_rel(0, self.p.r0.iter().map(Row::render).collect()), dump_rel(1, self.p.r1.iter().map(Row::render).collect()), dump_rel(2, self.p.r2.iter().map(Row::render).collect()), dump_rel(3, self.p.r3.iter().map(Row::render).collect()), dump_rel(4, self.p.r4.iter().map(Row::render).collect()), dump_rel(5, self.p.r5.iter().map(Row::render).collect()), dump_rel(6, self.p.r6.iter().map(Row::render).collect()), dump_rel(7, self.p.r7.iter().map(Row::render).collect())].join(" | ") }
      fn iters(&self) -> String { format!("iters {}", self.p.scc_iters.iter().map(|x| x.to_string()).collect::<Vec<_>>().join(" ")) }
   }
}

#[allow(unused, non_snake_case, clippy::all)]
pub mod g10x {
   use ascent::*;
   use ascent::aggregators::*;
   use ascent::lattice::{Dual, set::Set};
   use crate::common::*;
   ascent! {
      pub struct Prog;
      relation r0(i64, i64);
      relation r1(i64, Option<i64>);
      relation r2(i64);
      relation r3(i64, i64, i64);
      relation r4(i64, i64);
      relation r5(i64);
      relation r6(i64, i64);
      relation r7(i64);
      r5(v1) <-- r2(v0), r4(v100, v101) if (v100.clone() == v0.clone()) if (v101.clone() == (v0.clone() + 1)) if (v0.clone() < 1) let v1 = std::cmp::min((v0.clone() + 2), 6);
      r6(v0, 2) <-- r2(v0), r5(v102) if (v102.clone() == 3);
      r7(v0) <-- r6(v1, v0);
      r7(v0) <-- r3(v1, v0, v2), agg () = not() in r5(v1.clone());
      r7(v0) <-- r3(v1, v0, v2) if (v1.clone() < 3) let v3 = std::cmp::min(std::cmp::max(v1.clone(), 0), 6), r5(v103) if (v103.clone() == v1.clone()) if (v2.clone() <= 3) let v4 = std::cmp::min(std::cmp::max(v1.clone(), 0), 6);
      r7(v0) <-- r1(v104, v105) if (v104.clone() == 1) if let Some(v0) = v105.clone(), r3(v106, v1, v107) if (v106.clone() == v0.clone()) if (v107.clone() == std::cmp::max(v0.clone(), 0)), r7(v2);
      r7(v0) <-- r1(v108, v109) if (v108.clone() == 1) if let Some(v0) = v109.clone(), r3(v110, v1, v3) if (v110.clone() == v0.clone());
      r7(v0) <-- r1(v111, v112) if (v111.clone() == 1) if let Some(v0) = v112.clone(), r1(v1, v4), r0(v5, v6), r6(v7, v113);
      r7(v0) <-- r1(v114, v115) if (v114.clone() == 1) if let Some(v0) = v115.clone(), r1(v1, v4) if (v0.clone() <= 5), r6(v7, v116);
      r7(v0) <-- agg () = not() in r3(_, 0, 3), r3(v117, v118, v0) if (v118.clone() == 0);
      r7(0);
   }
   pub struct Inst { p: Prog, pool: Option<ascent::rayon::ThreadPool> }
   pub fn make(pool: Option<usize>) -> Box<dyn Driver> {
      let pool = pool.map(|n| ascent::rayon::ThreadPoolBuilder::new().num_threads(n).build().unwrap());
      let p = match &pool { Some(pl) => pl.install(|| Default::default()), None => Default::default() };
      Box::new(Inst { p, pool })
   }
   impl Driver for Inst {
      fn load(&mut self, rel: usize, rows: &[Sexp], append: bool) -> Option<()> {
         match rel {
         0 => { let v: Vec<(i64,i64,)> = parse_rows(rows)?; if append { self.p.r0.extend(v) } else { self.p.r0 = v } },
         1 => { let v: Vec<(i64,Option<i64>,)> = parse_rows(rows)?; if append { self.p.r1.extend(v) } else { self.p.r1 = v } },
         2 => { let v: Vec<(i64,)> = parse_rows(rows)?; if append { self.p.r2.extend(v) } else { self.p.r2 = v } },
         3 => { let v: Vec<(i64,i64,i64,)> = parse_rows(rows)?; if append { self.p.r3.extend(v) } else { self.p.r3 = v } },
         4 => { let v: Vec<(i64,i64,)> = parse_rows(rows)?; if append { self.p.r4.extend(v) } else { self.p.r4 = v } },
         5 => { let v: Vec<(i64,)> = parse_rows(rows)?; if append { self.p.r5.extend(v) } else { self.p.r5 = v } },
         6 => { let v: Vec<(i64,i64,)> = parse_rows(rows)?; if append { self.p.r6.extend(v) } else { self.p.r6 = v } },
         7 => { let v: Vec<(i64,)> = parse_rows(rows)?; if append { self.p.r7.extend(v) } else { self.p.r7 = v } },
            _ => return None,
         }
         Some(())
      }
      fn run(&mut self) { match &self.pool { Some(pl) => { let p = &mut self.p; pl.install(|| p.run()) }, None => self.p.run() } }
      fn run_here(&mut self) { self.p.run() }
      fn run_timeout(&mut self, k: usize) -> Option<bool> { let _ = k; None }
      fn dump(&self) -> String { vec![dump_rel(0, self.p.r0.iter().map(Row::render).collect()), dump_rel(1, self.p.r1.iter().map(Row::render).collect()), dump_rel(2, self.p.r2.iter().map(Row::render).collect()), dump_rel(3, self.p.r3.iter().map(Row::render).collect()), dump_rel(4, self.p.r4.iter().map(Row::render).collect()), dump_rel(5, self.p.r5.iter().map(Row::render).collect()), dump_rel(6, self.p.r6.iter().map(Row::render).collect()), dump_rel(7, self.p.r7.iter().map(Row::render).collect())].join(" | ") }
      fn iters(&self) -> String { format!("iters {}", self.p.scc_iters.iter().map(|x| x.to_string()).collect::<Vec<_>>().join(" ")) }
   }
}

#[allow(unused, non_snake_case, clippy::all)]
pub mod n0x {
   use ascent::*;
   use ascent::aggregators::*;
   use ascent::lattice::{Dual, set::Set};
   use crate::common::*;
   ascent! {
      pub struct Prog;
      relation r0(i64, i64);
      relation r1(i64);
      lattice r2(i64, i64);
      relation r3(i64);
      relation r4(i64);
      relation r5(i64, i64);
      r2(v0, v1) <-- r0(v0, v1);
      r3(v0) <-- r0(v0, v100), r2(v101, v102) if (v101.clone() == v0.clone()) if (v102.clone() == 5);
      r4(v0) <-- r0(v0, v1), r2(v103, v104) if (v103.clone() == v0.clone()) if (v104.clone() == v1.clone());
   }
   pub struct Inst { p: Prog, pool: Option<ascent::rayon::ThreadPool> }
   pub fn make(pool: Option<usize>) -> Box<dyn Driver> {
      let pool = pool.map(|n| ascent::rayon::ThreadPoolBuilder::new().num_threads(n).build().unwrap());
      let p = match &pool { Some(pl) => pl.install(|| Default::default()), None => Default::default() };
      Box::new(Inst { p, pool })
   }
   impl Driver for Inst {
      fn load(&mut self, rel: usize, rows: &[Sexp], append: bool) -> Option<()> {
         match rel {
         0 => { let v: Vec<(i64,i64,)> = parse_rows(rows)?; if append { self.p.r0.extend(v) } else { self.p.r0 = v } },
         1 => { let v: Vec<(i64,)> = parse_rows(rows)?; if append { self.p.r1.extend(v) } else { self.p.r1 = v } },
         2 => { let v: Vec<(i64,i64,)> = parse_rows(rows)?; if append { self.p.r2.extend(v) } else { self.p.r2 = v } },
         3 => { let v: Vec<(i64,)> = parse_rows(rows)?; if append { self.p.r3.extend(v) } else { self.p.r3 = v } },
         4 => { let v: Vec<(i64,)> = parse_rows(rows)?; if append { self.p.r4.extend(v) } else { self.p.r4 = v } },
         5 => { let v: Vec<(i64,i64,)> = parse_rows(rows)?; if append { self.p.r5.extend(v) } else { self.p.r5 = v } },
            _ => return None,
         }
         Some(())
      }
      fn run(&mut self) { match &self.pool { Some(pl) => { let p = &mut self.p; pl.install(|| p.run()) }, None => self.p.run() } }
      fn run_here(&mut self) { self.p.run() }
      fn run_timeout(&mut self, k: usize) -> Option<bool> { let _ = k; None }
      fn dump(&self) -> String { vec![dump_rel(0, self.p.r0.iter().map(Row::render).collect()), dump_rel(1, self.p.r1.iter().map(Row::render).collect()), dump_rel(2, self.p.r2.iter().map(Row::render).collect()), dump_rel(3, self.p.r3.iter().map(Row::render).collect()), dump_rel(4, self.p.r4.iter().map(Row::render).collect()), dump_rel(5, self.p.r5.iter().map(Row::render).collect())].join(" | ") }
      fn iters(&self) -> String { format!("iters {}", self.p.scc_iters.iter().map(|x| x.to_string()).collect::<Vec<_>>().join(" ")) }
   }
}

#[allow(unused, non_snake_case, clippy::all)]
pub mod c0x {
   use ascent::*;
   use ascent::aggregators::*;
   use ascent::lattice::{Dual, set::Set};
   use crate::common::*;
   ascent! {
      pub struct Prog;
      relation r0(i64, i64);
      relation r1(i64);
      relation r2(i64, i64);
      relation r3(i64, i64);
      r2(w0, w0_) <-- r0(w0, v1001) if (v1001.clone() == w0.clone()), r1(w0_);
      r3(w0, v1) <-- r2(w0, v1), r0(v1002, v1003) if (v1002.clone() == v1.clone());
   }
   pub struct Inst { p: Prog, pool: Option<ascent::rayon::ThreadPool> }
   pub fn make(pool: Option<usize>) -> Box<dyn Driver> {
      let pool = pool.map(|n| ascent::rayon::ThreadPoolBuilder::new().num_threads(n).build().unwrap());
      let p = match &pool { Some(pl) => pl.install(|| Default::default()), None => Default::default() };
      Box::new(Inst { p, pool })
   }
   impl Driver for Inst {
      fn load(&mut self, rel: usize, rows: &[Sexp], append: bool) -> Option<()> {
         match rel {
         0 => { let v: Vec<(i64,i64,)> = parse_rows(rows)?; if append { self.p.r0.extend(v) } else { self.p.r0 = v } },
         1 => { let v: Vec<(i64,)> = parse_rows(rows)?; if append { self.p.r1.extend(v) } else { self.p.r1 = v } },
         2 => { let v: Vec<(i64,i64,)> = parse_rows(rows)?; if append { self.p.r2.extend(v) } else { self.p.r2 = v } },
         3 => { let v: Vec<(i64,i64,)> = parse_rows(rows)?; if append { self.p.r3.extend(v) } else { self.p.r3 = v } },
            _ => return None,
         }
         Some(())
      }
      fn run(&mut self) { match &self.pool { Some(pl) => { let p = &mut self.p; pl.install(|| p.run()) }, None => self.p.run() } }
      fn run_here(&mut self) { self.p.run() }
      fn run_timeout(&mut self, k: usize) -> Option<bool> { let _ = k; None }
      fn dump(&self) -> String { vec![dump_rel(0, self.p.r0.iter().map(Row::render).collect()), dump_rel(1, self.p.r1.iter().map(Row::render).collect()), dump_rel(2, self.p.r2.iter().map(Row::render).collect()), dump_rel(3, self.p.r3.iter().map(Row::render).collect())].join(" | ") }
      fn iters(&self) -> String { format!("iters {}", self.p.scc_iters.iter().map(|x| x.to_string()).collect::<Vec<_>>().join(" ")) }
   }
}

fn main() {
   common::main_loop(&[("g2x", g2x::make as common::Factory), ("g6x", g6x::make as common::Factory), ("g10x", g10x::make as common::Factory), ("n0x", n0x::make as common::Factory), ("c0x", c0x::make as common::Factory)]);
}
