#[path = "common.rs"]
mod common;
#[allow(unused, non_snake_case, clippy::all)]
pub mod h1s {
   use ascent::*;
   use ascent::aggregators::*;
   use ascent::lattice::{Dual, set::Set};
   use crate::common::*;
   ascent! {
      pub struct Prog;
      relation r0(i64, i64);
      relation r1(i64, Option<i64>);
      relation r2(i64);
      relation r3(i64, i64, i64);
      relation r4(i64, i64);
      relation r5(i64);
      relation r6(i64, i64);
      relation r7(i64, i64, i64);
      relation r8(i64);
      macro m0($p0: ident) { r7($p0, _, v0), if (v0.clone() < 1) }
      macro m1($p0: ident, $p1: ident, $p2: expr) { ((r3(v0, 3, $p1), if ($p0.clone() < 3)) | r0($p0, $p1)), if ($p2 < 2) }
      macro m2($p0: expr) { r7($p0, $p0, $p0) }
      macro m3($p0: expr) { r6(3, $p0), r7($p0, $p0, $p0) }
      m2!(std::cmp::min(std::cmp::max(v1.clone(), 0), 6)) <-- r2(v0), m0!(v1);
      r7(v2, 0, v0) <-- r6(v0, v1), (m0!(v2) | r0(v4, v2)), m0!(v2);
      r8(v0) <-- r6(v0, v1), (m0!(v2) | r6(v4, v2));
      r8((v1.clone() + 1)) <-- r5(v0) if (v0.clone() <= 1), m1!(v0, v1, std::cmp::max(v0.clone(), 3)), m1!(v0, v2, std::cmp::max(v1.clone(), 3)), if (v1.clone() < 5);
      r5(v0) <-- r3(_, v0, 3);
      m2!(1);
   }
   pub struct Inst { p: Prog, pool: Option<ascent::rayon::ThreadPool> }
   pub fn make(pool: Option<usize>) -> Box<dyn Driver> {
      let pool = pool.map(|n| ascent::rayon::ThreadPoolBuilder::new().num_threads(n).build().unwrap());
      let p = match &pool { Some(pl) => pl.install(|| Default::default()), None => Default::default() };
      Box::new(Inst { p, pool })
   }
   impl Driver for Inst {
      fn load(&mut self, rel: usize, rows: &[Sexp], append: bool) -> Option<()> {
         match rel {
         0 => { let v: Vec<(i64,i64,)> = parse_rows(rows)?; if append { self.p.r0.extend(v) } else { self.p.r0 = v } },
         1 => { let v: Vec<(i64,Option<i64>,)> = parse_rows(rows)?; if append { self.p.r1.extend(v) } else { self.p.r1 = v } },
         2 => { let v: Vec<(i64,)> = parse_rows(rows)?; if append { self.p.r2.extend(v) } else { self.p.r2 = v } },
         3 => { let v: Vec<(i64,i64,i64,)> = parse_rows(rows)?; if append { self.p.r3.extend(v) } else { self.p.r3 = v } },
         4 => { let v: Vec<(i64,i64,)> = parse_rows(rows)?; if append { self.p.r4.extend(v) } else { self.p.r4 = v } },
         5 => { let v: Vec<(i64,)> = parse_rows(rows)?; if append { self.p.r5.extend(v) } else { self.p.r5 = v } },
         6 => { let v: Vec<(i64,i64,)> = parse_rows(rows)?; if append { self.p.r6.extend(v) } else { self.p.r6 = v } },
         7 => { let v: Vec<(i64,i64,i64,)> = parse_rows(rows)?; if append { self.p.r7.extend(v) } else { self.p.r7 = v } },
         8 => { let v: Vec<(i64,)> = parse_rows(rows)?; if append { self.p.r8.extend(v) } else { self.p.r8 = v } },
            _ => return None,
         }
         Some(())
      }
      fn run(&mut self) { match &self.pool { Some(pl) => { let p = &mut self.p; pl.install(|| p.run()) }, None => self.p.run() } }
      fn run_here(&mut self) { self.p.run() }
      fn run_timeout(&mut self, k: usize) -> Option<bool> { let _ = k; None }
      fn dump(&self) -> String { vec![dump_rel(0, self.p.r0.iter().map(Row::render).collect()), dump_rel(1, self.p.r1.iter().map(Row::render).collect()), dump_rel(2, self.p.r2.iter().map(Row::render).collect()), dump_rel(3, self.p.r3.iter().map(Row::render).collect()), dump_rel(4, self.p.r4.iter().map(Row::render).collect()), dump_rel(5, self.p.r5.iter().map(Row::render).collect()), dump_rel(6, self.p.r6.iter().map(Row::render).collect()), dump_rel(7, self.p.r7.iter().map(Row::render).collect()), dump_rel(8, self.p.r8.iter().map(Row::render).collect())].join(" | ") }
      fn iters(&self) -> String { format!("iters {}", self.p.scc_iters.iter().map(|x| x.to_string()).collect::<Vec<_>>().join(" ")) }
   }
}

#[allow(unused, non_snake_case, clippy::all)]
pub mod h5s {
   use ascent::*;
   use ascent::aggregators::*;
   use ascent::lattice::{Dual, set::Set};
   use crate::common::*;
   ascent! {
      pub struct Prog;
      relation r0(i64, i64);
      relation r1(i64, Option<i64>);
      relation r2(i64);
      relation r3(i64, i64, i64);
      relation r4(i64, i64);
      relation r5(i64);
      relation r6(i64, i64, i64);
      relation r7(i64, i64, i64);
      relation r8(i64, i64);
      macro m0($p0: ident, $p1: ident) { (r1($p0, v0), if ($p0.clone() < 0), r3(v1, $p1, v2) | r1($p0, v0)), if ($p1.clone() <= 0) }
      macro m1($p0: ident, $p1: ident, $p2: expr) { r0(0, $p1), r1($p1, v0) }
      macro m2($p0: ident, $p1: ident) { r4($p0, $p1), if ($p1.clone() <= 1) }
      macro m3($p0: expr, $p1: ident) { r7($p0, $p1, $p0), r7($p0, 0, $p0) }
      macro m4($p0: expr, $p1: ident) { r8($p1, $p1), r8($p1, $p0) }
      r7(v1, (v1.clone() + 1), v1) <-- r0(v0, (v0.clone() + 0)), m0!(v0, v0), r5(v1), if (v1.clone() < 5);
      r7(v0, 3, v0) <-- m2!(v0, v0);
      m3!(std::cmp::min(std::cmp::min(v0.clone(), 1), 6), v2), r6((v1.clone() + 1), (v1.clone() + 1), v0) <-- r7(v0, std::cmp::min(v0.clone(), 1), v0) if (v0.clone() != 0), m0!(v1, v0), m0!(v2, v0), if (v1.clone() < 5), if (v1.clone() < 5);
      r6(1, v1, v3) <-- r5(v0), (m0!(v1, v0) | r0(v1, v1)), m0!(v3, v0);
   }
   pub struct Inst { p: Prog, pool: Option<ascent::rayon::ThreadPool> }
   pub fn make(pool: Option<usize>) -> Box<dyn Driver> {
      let pool = pool.map(|n| ascent::rayon::ThreadPoolBuilder::new().num_threads(n).build().unwrap());
      let p = match &pool { Some(pl) => pl.install(|| Default::default()), None => Default::default() };
      Box::new(Inst { p, pool })
   }
   impl Driver for Inst {
      fn load(&mut self, rel: usize, rows: &[Sexp], append: bool) -> Option<()> {
         match rel {
         0 => { let v: Vec<(i64,i64,)> = parse_rows(rows)?; if append { self.p.r0.extend(v) } else { self.p.r0 = v } },
         1 => { let v: Vec<(i64,Option<i64>,)> = parse_rows(rows)?; if append { self.p.r1.extend(v) } else { self.p.r1 = v } },
         2 => { let v: Vec<(i64,)> = parse_rows(rows)?; if append { self.p.r2.extend(v) } else { self.p.r2 = v } },
         3 => { let v: Vec<(i64,i64,i64,)> = parse_rows(rows)?; if append { self.p.r3.extend(v) } else { self.p.r3 = v } },
         4 => { let v: Vec<(i64,i64,)> = parse_rows(rows)?; if append { self.p.r4.extend(v) } else { self.p.r4 = v } },
         5 => { let v: Vec<(i64,)> = parse_rows(rows)?; if append { self.p.r5.extend(v) } else { self.p.r5 = v } },
         6 => { let v: Vec<(i64,i64,i64,)> = parse_rows(rows)?; if append { self.p.r6.extend(v) } else { self.p.r6 = v } },
         7 => { let v: Vec<(i64,i64,i64,)> = parse_rows(rows)?; if append { self.p.r7.extend(v) } else { self.p.r7 = v } },
         8 => { let v: Vec<(i64,i64,)> = parse_rows(rows)?; if append { self.p.r8.extend(v) } else { self.p.r8 = v } },
            _ => return None,
         }
         Some(())
      }
      fn run(&mut self) { match &self.pool { Some(pl) => { let p = &mut self.p; pl.install(|| p.run()) }, None => self.p.run() } }
      fn run_here(&mut self) { self.p.run() }
      fn run_timeout(&mut self, k: usize) -> Option<bool> { let _ = k; None }
      fn dump(&self) -> String { vec![dump_rel(0, self.p.r0.iter().map(Row::render).collect()), dump_rel(1, self.p.r1.iter().map(Row::render).collect()), dump_rel(2, self.p.r2.iter().map(Row::render).collect()), dump_rel(3, self.p.r3.iter().map(Row::render).collect()), dump_rel(4, self.p.r4.iter().map(Row::render).collect()), dump_rel(5, self.p.r5.iter().map(Row::render).collect()), dump_rel(6, self.p.r6.iter().map(Row::render).collect()), dump_rel(7, self.p.r7.iter().map(Row::render).collect()), dump_rel(8, self.p.r8.iter().map(Row::render).collect())].join(" | ") }
      fn iters(&self) -> String { format!("iters {}", self.p.scc_iters.iter().map(|x| x.to_string()).collect::<Vec<_>>().join(" ")) }
   }
}

#[allow(unused, non_snake_case, clippy::all)]
pub mod h9s {
   use ascent::*;
   use ascent::aggregators::*;
   use ascent::lattice::{Dual, set::Set};
   use crate::common::*;
   ascent! {
      pub struct Prog;
      relation r0(i64, i64);
      relation r1(i64, Option<i64>);
      relation r2(i64);
      relation r3(i64, i64, i64);
      relation r4(i64, i64);
      relation r5(i64, i64);
      relation r6(i64);
      relation r7(i64, Option<i64>);
      relation r8(i64, i64);
      macro m0($p0: ident) { r3(v0, std::cmp::max(v0.clone(), 3), $p0), r4(v1, 0), if ($p0.clone() < 1), let v2 = std::cmp::min(std::cmp::min($p0.clone(), 1), 6), if (v2.clone() == v1.clone()) }
      macro m1($p0: ident, $p1: ident) { r3(v0, $p0, $p1), m0!(v1) }
      macro m2($p0: ident) { r7(2, Some($p0.clone())), r7($p0, Some($p0.clone())) }
      macro m3($p0: expr) { r7($p0, Some(3)), r8($p0, $p0) }
      r8(v2, v0) <-- r5(v0, 1) if (v0.clone() != 3), m1!(v1, v2), m1!(v3, v2);
      m2!(v0) <-- r8(v0, v1), (m0!(v2) | r7(v2, ?None)), m0!(v0);
      m3!(std::cmp::min((v1.clone() + v1.clone()), 6)) <-- r5(v0, v0) if (v0.clone() == 3), m0!(v1);
      r7((v2.clone() + 1), Some(v1.clone())) <-- r8(_, v0) if (v0.clone() <= 1), m1!(v1, v2), if (v2.clone() < 5);
      m3!(2);
   }
   pub struct Inst { p: Prog, pool: Option<ascent::rayon::ThreadPool> }
   pub fn make(pool: Option<usize>) -> Box<dyn Driver> {
      let pool = pool.map(|n| ascent::rayon::ThreadPoolBuilder::new().num_threads(n).build().unwrap());
      let p = match &pool { Some(pl) => pl.install(|| Default::default()), None => Default::default() };
      Box::new(Inst { p, pool })
   }
   impl Driver for Inst {
      fn load(&mut self, rel: usize, rows: &[Sexp], append: bool) -> Option<()> {
         match rel {
         0 => { let v: Vec<(i64,i64,)> = parse_rows(rows)?; if append { self.p.r0.extend(v) } else { self.p.r0 = v } },
         1 => { let v: Vec<(i64,Option<i64>,)> = parse_rows(rows)?; if append { self.p.r1.extend(v) } else { self.p.r1 = v } },
         2 => { let v: Vec<(i64,)> = parse_rows(rows)?; if append { self.p.r2.extend(v) } else { self.p.r2 = v } },
         3 => { let v: Vec<(i64,i64,i64,)> = parse_rows(rows)?; if append { self.p.r3.extend(v) } else { self.p.r3 = v } },
         4 => { let v: Vec<(i64,i64,)> = parse_rows(rows)?; if append { self.p.r4.extend(v) } else { self.p.r4 = v } },
         5 => { let v: Vec<(i64,i64,)> = parse_rows(rows)?; if append { self.p.r5.extend(v) } else { self.p.r5 = v } },
         6 => { let v: Vec<(i64,)> = parse_rows(rows)?; if append { self.p.r6.extend(v) } else { self.p.r6 = v } },
         7 => { let v: Vec<(i64,Option<i64>,)> = parse_rows(rows)?; if append { self.p.r7.extend(v) } else { self.p.r7 = v } },
         8 => { let v: Vec<(i64,i64,)> = parse_rows(rows)?; if append { self.p.r8.extend(v) } else { self.p.r8 = v } },
            _ => return None,
         }
         Some(())
      }
      fn run(&mut self) { match &self.pool { Some(pl) => { let p = &mut self.p; pl.install(|| p.run()) }, None => self.p.run() } }
      fn run_here(&mut self) { self.p.run() }
      fn run_timeout(&mut self, k: usize) -> Option<bool> { let _ = k; None }
      fn dump(&self) -> String { vec![dump_rel(0, self.p.r0.iter().map(Row::render).collect()), dump_rel(1, self.p.r1.iter().map(Row::render).collect()), dump_rel(2, self.p.r2.iter().map(Row::render).collect()), dump_rel(3, self.p.r3.iter().map(Row::render).collect()), dump_rel(4, self.p.r4.iter().map(Row::render).collect()), dump_rel(5, self.p.r5.iter().map(Row::render).collect()), dump_rel(6, self.p.r6.iter().map(Row::render).collect()), dump_rel(7, self.p.r7.iter().map(Row::render).collect()), dump_rel(8, self.p.r8.iter().map(Row::render).collect())].join(" | ") }
      fn iters(&self) -> String { format!("iters {}", self.p.scc_iters.iter().map(|x| x.to_string()).collect::<Vec<_>>().join(" ")) }
   }
}

#[allow(unused, non_snake_case, clippy::all)]
pub mod h13s {
   use ascent::*;
   use ascent::aggregators::*;
   use ascent::lattice::{Dual, set::Set};
   use crate::common::*;
   ascent! {
      pub struct Prog;
      relation r0(i64, i64);
      relation r1(i64, Option<i64>);
      relation r2(i64);
      relation r3(i64, i64, i64);
      relation r4(i64, Option<i64>);
      relation r5(i64, i64, i64);
      relation r6(i64);
      macro m0($p0: ident, $p1: ident) { r3(0, $p0, $p1), r2($p0), if ($p1.clone() == 5) }
      macro m1($p0: ident) { r0(v0, $p0), m0!(v1, v0), if (v1.clone() <= 3) }
      macro m2($p0: expr, $p1: ident) { r6($p0) }
      macro m3($p0: ident) { r6($p0), r6($p0), m2!(($p0.clone() + 0), $p0) }
      r5(v1, v0, v1) <-- r2(v0) if (v0.clone() < 4), (m0!(v1, v0) | r6(v1));
      m3!(v0) <-- r1(3, ?Some(v0)) if (v0.clone() == 1), m1!(v1), m1!(v1);
      r6((v0.clone() + 1)) <-- m1!(v0), if (v0.clone() < 5);
      r6(v1) <-- r3(v0, 0, v1), m1!(v2);
      m2!(std::cmp::min(std::cmp::max(v0.clone(), 1), 6), v1), r5(v3, 0, v0) <-- r6(v0), (m1!(v1) | r4(v1, _) if (v0.clone() <= 4)), m1!(v3);
      r4((v0.clone() + 1), Some(v0.clone())) <-- r2(v0), if (v0.clone() < 5);
   }
   pub struct Inst { p: Prog, pool: Option<ascent::rayon::ThreadPool> }
   pub fn make(pool: Option<usize>) -> Box<dyn Driver> {
      let pool = pool.map(|n| ascent::rayon::ThreadPoolBuilder::new().num_threads(n).build().unwrap());
      let p = match &pool { Some(pl) => pl.install(|| Default::default()), None => Default::default() };
      Box::new(Inst { p, pool })
   }
   impl Driver for Inst {
      fn load(&mut self, rel: usize, rows: &[Sexp], append: bool) -> Option<()> {
         match rel {
         0 => { let v: Vec<(i64,i64,)> = parse_rows(rows)?; if append { self.p.r0.extend(v) } else { self.p.r0 = v } },
         1 => { let v: Vec<(i64,Option<i64>,)> = parse_rows(rows)?; if append { self.p.r1.extend(v) } else { self.p.r1 = v } },
         2 => { let v: Vec<(i64,)> = parse_rows(rows)?; if append { self.p.r2.extend(v) } else { self.p.r2 = v } },
         3 => { let v: Vec<(i64,i64,i64,)> = parse_rows(rows)?; if append { self.p.r3.extend(v) } else { self.p.r3 = v } },
         4 => { let v: Vec<(i64,Option<i64>,)> = parse_rows(rows)?; if append { self.p.r4.extend(v) } else { self.p.r4 = v } },
         5 => { let v: Vec<(i64,i64,i64,)> = parse_rows(rows)?; if append { self.p.r5.extend(v) } else { self.p.r5 = v } },
         6 => { let v: Vec<(i64,)> = parse_rows(rows)?; if append { self.p.r6.extend(v) } else { self.p.r6 = v } },
            _ => return None,
         }
         Some(())
      }
      fn run(&mut self) { match &self.pool { Some(pl) => { let p = &mut self.p; pl.install(|| p.run()) }, None => self.p.run() } }
      fn run_here(&mut self) { self.p.run() }
      fn run_timeout(&mut self, k: usize) -> Option<bool> { let _ = k; None }
      fn dump(&self) -> String { vec![dump_rel(0, self.p.r0.iter().map(Row::render).collect()), dump_rel(1, self.p.r1.iter().map(Row::render).collect()), dump_rel(2, self.p.r2.iter().map(Row::render).collect()), dump_rel(3, self.p.r3.iter().map(Row::render).collect()), dump_rel(4, self.p.r4.iter().map(Row::render).collect()), dump_rel(5, self.p.r5.iter().map(Row::render).collect()), dump_rel(6, self.p.r6.iter().map(Row::render).collect())].join(" | ") }
      fn iters(&self) -> String { format!("iters {}", self.p.scc_iters.iter().map(|x| x.to_string()).collect::<Vec<_>>().join(" ")) }
   }
}

#[allow(unused, non_snake_case, clippy::all)]
pub mod a3s {
   use ascent::*;
   use ascent::aggregators::*;
   use ascent::lattice::{Dual, set::Set};
   use crate::common::*;
   ascent! {
      pub struct Prog;
      relation r0(i64, i64);
      relation r1(i64);
      relation r2(i64, i64);
      relation r3(i64);
      macro m0($p0: ident) { r0(v0, $p0) if (v0.clone() != 0) }
      macro m1($p0: ident) { r1(v1), m0!($p0) }
      r2(v0, v2) <-- r1(v0), m1!(v2);
      r3(v0) <-- r2(v0, _);
   }
   pub struct Inst { p: Prog, pool: Option<ascent::rayon::ThreadPool> }
   pub fn make(pool: Option<usize>) -> Box<dyn Driver> {
      let pool = pool.map(|n| ascent::rayon::ThreadPoolBuilder::new().num_threads(n).build().unwrap());
      let p = match &pool { Some(pl) => pl.install(|| Default::default()), None => Default::default() };
      Box::new(Inst { p, pool })
   }
   impl Driver for Inst {
      fn load(&mut self, rel: usize, rows: &[Sexp], append: bool) -> Option<()> {
         match rel {
         0 => { let v: Vec<(i64,i64,)> = parse_rows(rows)?; if append { self.p.r0.extend(v) } else { self.p.r0 = v } },
         1 => { let v: Vec<(i64,)> = parse_rows(rows)?; if append { self.p.r1.extend(v) } else { self.p.r1 = v } },
         2 => { let v: Vec<(i64,i64,)> = parse_rows(rows)?; if append { self.p.r2.extend(v) } else { self.p.r2 = v } },
         3 => { let v: Vec<(i64,)> = parse_rows(rows)?; if append { self.p.r3.extend(v) } else { self.p.r3 = v } },
            _ => return None,
         }
         Some(())
      }
      fn run(&mut self) { match &self.pool { Some(pl) => { let p = &mut self.p; pl.install(|| p.run()) }, None => self.p.run() } }
      fn run_here(&mut self) { self.p.run() }
      fn run_timeout(&mut self, k: usize) -> Option<bool> { let _ = k; None }
      fn dump(&self) -> String { vec![dump_rel(0, self.p.r0.iter().map(Row::render).collect()), dump_rel(1, self.p.r1.iter().map(Row::render).collect()), dump_rel(2, self.p.r2.iter().map(Row::render).collect()), dump_rel(3, self.p.r3.iter().map(Row::render).collect())].join(" | ") }
      fn iters(&self) -> String { format!("iters {}", self.p.scc_iters.iter().map(|x| x.to_string()).collect::<Vec<_>>().join(" ")) }
   }
}

#[allow(unused, non_snake_case, clippy::all)]
pub mod e3s {
   use ascent::*;
   use ascent::aggregators::*;
   use ascent::lattice::{Dual, set::Set};
   use crate::common::*;
   ascent! {
      pub struct Prog;
      relation r0(i64, i64);
      relation r1(i64);
      relation r2(i64, i64);
      relation r3(i64);
      macro m0($p0: ident, $p1: expr) { r0(v0, $p0), if ((v0.clone() * $p1) < 4) }
      r2(v0, v1) <-- r1(v0), m0!(v1, (v0.clone() + 2));
      r3(v0) <-- r2(v0, _);
   }
   pub struct Inst { p: Prog, pool: Option<ascent::rayon::ThreadPool> }
   pub fn make(pool: Option<usize>) -> Box<dyn Driver> {
      let pool = pool.map(|n| ascent::rayon::ThreadPoolBuilder::new().num_threads(n).build().unwrap());
      let p = match &pool { Some(pl) => pl.install(|| Default::default()), None => Default::default() };
      Box::new(Inst { p, pool })
   }
   impl Driver for Inst {
      fn load(&mut self, rel: usize, rows: &[Sexp], append: bool) -> Option<()> {
         match rel {
         0 => { let v: Vec<(i64,i64,)> = parse_rows(rows)?; if append { self.p.r0.extend(v) } else { self.p.r0 = v } },
         1 => { let v: Vec<(i64,)> = parse_rows(rows)?; if append { self.p.r1.extend(v) } else { self.p.r1 = v } },
         2 => { let v: Vec<(i64,i64,)> = parse_rows(rows)?; if append { self.p.r2.extend(v) } else { self.p.r2 = v } },
         3 => { let v: Vec<(i64,)> = parse_rows(rows)?; if append { self.p.r3.extend(v) } else { self.p.r3 = v } },
            _ => return None,
         }
         Some(())
      }
      fn run(&mut self) { match &self.pool { Some(pl) => { let p = &mut self.p; pl.install(|| p.run()) }, None => self.p.run() } }
      fn run_here(&mut self) { self.p.run() }
      fn run_timeout(&mut self, k: usize) -> Option<bool> { let _ = k; None }
      fn dump(&self) -> String { vec![dump_rel(0, self.p.r0.iter().map(Row::render).collect()), dump_rel(1, self.p.r1.iter().map(Row::render).collect()), dump_rel(2, self.p.r2.iter().map(Row::render).collect()), dump_rel(3, self.p.r3.iter().map(Row::render).collect())].join(" | ") }
      fn iters(&self) -> String { format!("iters {}", self.p.scc_iters.iter().map(|x| x.to_string()).collect::<Vec<_>>().join(" ")) }
   }
}

#[allow(unused, non_snake_case, clippy::all)]
pub mod o2s {
   use ascent::*;
   use ascent::aggregators::*;
   use ascent::lattice::{Dual, set::Set};
   use crate::common::*;
   ascent! {
      pub struct Prog;
      relation r0(i64, Option<i64>);
      relation r1(i64);
      relation r2(i64, i64);
      relation r3(i64);
      macro m0($p0: ident) { r0($p0, ?Some(v0)), if (v0.clone() <= 3) }
      r3(v0) <-- r1(v0), m0!(v0);
      r2(v0, v0) <-- r3(v0);
   }
   pub struct Inst { p: Prog, pool: Option<ascent::rayon::ThreadPool> }
   pub fn make(pool: Option<usize>) -> Box<dyn Driver> {
      let pool = pool.map(|n| ascent::rayon::ThreadPoolBuilder::new().num_threads(n).build().unwrap());
      let p = match &pool { Some(pl) => pl.install(|| Default::default()), None => Default::default() };
      Box::new(Inst { p, pool })
   }
   impl Driver for Inst {
      fn load(&mut self, rel: usize, rows: &[Sexp], append: bool) -> Option<()> {
         match rel {
         0 => { let v: Vec<(i64,Option<i64>,)> = parse_rows(rows)?; if append { self.p.r0.extend(v) } else { self.p.r0 = v } },
         1 => { let v: Vec<(i64,)> = parse_rows(rows)?; if append { self.p.r1.extend(v) } else { self.p.r1 = v } },
         2 => { let v: Vec<(i64,i64,)> = parse_rows(rows)?; if append { self.p.r2.extend(v) } else { self.p.r2 = v } },
         3 => { let v: Vec<(i64,)> = parse_rows(rows)?; if append { self.p.r3.extend(v) } else { self.p.r3 = v } },
            _ => return None,
         }
         Some(())
      }
      fn run(&mut self) { match &self.pool { Some(pl) => { let p = &mut self.p; pl.install(|| p.run()) }, None => self.p.run() } }
      fn run_here(&mut self) { self.p.run() }
      fn run_timeout(&mut self, k: usize) -> Option<bool> { let _ = k; None }
      fn dump(&self) -> String { vec![dump_rel(0, self.p.r0.iter().map(Row::render).collect()), dump_rel(1, self.p.r1.iter().map(Row::render).collect()), dump_rel(2, self.p.r2.iter().map(Row::render).collect()), dump_rel(3, self.p.r3.iter().map(Row::render).collect())].join(" | ") }
      fn iters(&self) -> String { format!("iters {}", self.p.scc_iters.iter().map(|x| x.to_string()).collect::<Vec<_>>().join(" ")) }
   }
}

fn main() {
   common::main_loop(&[("h1s", h1s::make as common::Factory), ("h5s", h5s::make as common::Factory), ("h9s", h9s::make as common::Factory), ("h13s", h13s::make as common::Factory), ("a3s", a3s::make as common::Factory), ("e3s", e3s::make as common::Factory), ("o2s", o2s::make as common::Factory)]);
}
