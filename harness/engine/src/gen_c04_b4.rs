#[path = "common.rs"]
mod common;
#[allow(unused, non_snake_case, clippy::all)]
pub mod a4 {
   use ascent::*;
   use ascent::aggregators::*;
   use ascent::lattice::{Dual, set::Set};
   use crate::common::*;
   ascent! {
      pub struct Prog;
      relation r0(i64, i64);
      relation r1(i64, i64, i64);
      relation r2(i64, i64);
      relation r3(i64, i64);
      relation r4(i64);
      relation r5(i64);
      r2(v0, ((*v0) + 1)) <-- r1(3, v0, v1), if ((*v0) < 6);
      r3(v0, v0) <-- r2(3, v0), r3(v0, v0);
      r2(v0, v0) <-- r3(v0, v1);
      r3(v0, v1) <-- for v9 in 0..3, r2(v0, v1), r3(v9, v1);
      r3(v2, ((*v1) + 1)) <-- r1(v0, v1, v2), if ((*v1) < 6);
      r3(v0, v0) <-- let v0 = 3, r3((v0 + 1), (v0 + 0));
      r2(1, 0);
      r4(v0) <-- r3(v0, v1), agg v21 = max(v20) in r1(_, v20, _);
      r5(v32) <-- r0(v0, v1), r1(v32, v1, v33), r2(v0, v1), agg () = not() in r2(_, _);
   }
   pub struct Inst { p: Prog, pool: Option<ascent::rayon::ThreadPool> }
   pub fn make(pool: Option<usize>) -> Box<dyn Driver> {
      let pool = pool.map(|n| ascent::rayon::ThreadPoolBuilder::new().num_threads(n).build().unwrap());
      let p = match &pool { Some(pl) => pl.install(|| Default::default()), None => Default::default() };
      Box::new(Inst { p, pool })
   }
   impl Driver for Inst {
      fn load(&mut self, rel: usize, rows: &[Sexp], append: bool) -> Option<()> {
         match rel {
         0 => { let v: Vec<(i64,i64,)> = parse_rows(rows)?; if append { self.p.r0.extend(v) } else { self.p.r0 = v } },
         1 => { let v: Vec<(i64,i64,i64,)> = parse_rows(rows)?; if append { self.p.r1.extend(v) } else { self.p.r1 = v } },
         2 => { let v: Vec<(i64,i64,)> = parse_rows(rows)?; if append { self.p.r2.extend(v) } else { self.p.r2 = v } },
         3 => { let v: Vec<(i64,i64,)> = parse_rows(rows)?; if append { self.p.r3.extend(v) } else { self.p.r3 = v } },
         4 => { let v: Vec<(i64,)> = parse_rows(rows)?; if append { self.p.r4.extend(v) } else { self.p.r4 = v } },
         5 => { let v: Vec<(i64,)> = parse_rows(rows)?; if append { self.p.r5.extend(v) } else { self.p.r5 = v } },
            _ => return None,
         }
         Some(())
      }
      fn run(&mut self) { match &self.pool { Some(pl) => { let p = &mut self.p; pl.install(|| p.run()) }, None => self.p.run() } }
      fn run_here(&mut self) { self.p.run() }
      fn run_timeout(&mut self, k: usize) -> Option<bool> { let _ = k; None }
      fn dump(&self) -> String { vec![dump_rel(0, self.p.r0.iter().map(Row::render).collect()), dump_rel(1, self.p.r1.iter().map(Row::render).collect()), dump_rel(2, self.p.r2.iter().map(Row::render).collect()), dump_rel(3, self.p.r3.iter().map(Row::render).collect()), dump_rel(4, self.p.r4.iter().map(Row::render).collect()), dump_rel(5, self.p.r5.iter().map(Row::render).collect())].join(" | ") }
      fn iters(&self) -> String { format!("iters {}", self.p.scc_iters.iter().map(|x| x.to_string()).collect::<Vec<_>>().join(" ")) }
   }
}

#[allow(unused, non_snake_case, clippy::all)]
pub mod a12 {
   use ascent::*;
   use ascent::aggregators::*;
   use ascent::lattice::{Dual, set::Set};
   use crate::common::*;
   ascent! {
      pub struct Prog;
      relation r0(i64);
      relation r1(i64, i64);
      relation r2(i64, i64, i64);
      relation r3(i64, i64);
      relation r4(i64);
      relation r5(i64, i64);
      relation r6(i64);
      relation r7(i64, i64);
      relation r8(i64);
      r2(v1, v1, ((*v0) + 1)) <-- r1(v0, v1), if ((*v0) < 6);
      r2(v1, ((*v4) + 1), v2) <-- r2(v0, 2, v1) if ((*v0) < 3) let v2 = ((*v1) + 0), r2(v3, v1, v4), if ((*v4) < 6);
      r2(v0, v1, v2) <-- r1(v0, v1), r1(v0, v0), r1(v1, v2);
      r2(v0, v0, v0) <-- r1(1, v0), r0(v0), if ((*v0) == 5);
      r2(0, v5, v2) <-- for v0 in 0..1, r2(v1, v2, v3), r1(v2, v1), if ((*v3) < 2), r2(v4, ((*v2) + 1), v5) if (v0 < 6), if ((*v2) == 2);
      r0(3);
      r3(v0, v21) <-- r1(v0, v1), agg v21 = sum(v20) in r1(0, v20);
      r4(v0) <-- r2(v0, v1, v2), agg v21 = count() in r2(0, (*v1), _);
      r5(v0, (v21 as i64)) <-- r2(v0, v1, v2), r1(v2, v1), agg v21 = count() in r0(_);
      r6(v1) <-- r1(v0, v1), agg v21 = sum(v20) in r0(v20);
      r7(v35, (v21 as i64)) <-- r2(v0, v1, v2), r1(v33, v34), r2(v35, v36, v35), agg v21 = count() in r5((*v33), (*v0));
      r8(v33) <-- r2(v0, v1, v2), r1(v2, v33), r0(v34), agg v21 = max(v20) in r5((*v2), v20);
   }
   pub struct Inst { p: Prog, pool: Option<ascent::rayon::ThreadPool> }
   pub fn make(pool: Option<usize>) -> Box<dyn Driver> {
      let pool = pool.map(|n| ascent::rayon::ThreadPoolBuilder::new().num_threads(n).build().unwrap());
      let p = match &pool { Some(pl) => pl.install(|| Default::default()), None => Default::default() };
      Box::new(Inst { p, pool })
   }
   impl Driver for Inst {
      fn load(&mut self, rel: usize, rows: &[Sexp], append: bool) -> Option<()> {
         match rel {
         0 => { let v: Vec<(i64,)> = parse_rows(rows)?; if append { self.p.r0.extend(v) } else { self.p.r0 = v } },
         1 => { let v: Vec<(i64,i64,)> = parse_rows(rows)?; if append { self.p.r1.extend(v) } else { self.p.r1 = v } },
         2 => { let v: Vec<(i64,i64,i64,)> = parse_rows(rows)?; if append { self.p.r2.extend(v) } else { self.p.r2 = v } },
         3 => { let v: Vec<(i64,i64,)> = parse_rows(rows)?; if append { self.p.r3.extend(v) } else { self.p.r3 = v } },
         4 => { let v: Vec<(i64,)> = parse_rows(rows)?; if append { self.p.r4.extend(v) } else { self.p.r4 = v } },
         5 => { let v: Vec<(i64,i64,)> = parse_rows(rows)?; if append { self.p.r5.extend(v) } else { self.p.r5 = v } },
         6 => { let v: Vec<(i64,)> = parse_rows(rows)?; if append { self.p.r6.extend(v) } else { self.p.r6 = v } },
         7 => { let v: Vec<(i64,i64,)> = parse_rows(rows)?; if append { self.p.r7.extend(v) } else { self.p.r7 = v } },
         8 => { let v: Vec<(i64,)> = parse_rows(rows)?; if append { self.p.r8.extend(v) } else { self.p.r8 = v } },
            _ => return None,
         }
         Some(())
      }
      fn run(&mut self) { match &self.pool { Some(pl) => { let p = &mut self.p; pl.install(|| p.run()) }, None => self.p.run() } }
      fn run_here(&mut self) { self.p.run() }
      fn run_timeout(&mut self, k: usize) -> Option<bool> { let _ = k; None }
      fn dump(&self) -> String { vec![dump_rel(0, self.p.r0.iter().map(Row::render).collect()), dump_rel(1, self.p.r1.iter().map(Row::render).collect()), dump_rel(2, self.p.r2.iter().map(Row::render).collect()), dump_rel(3, self.p.r3.iter().map(Row::render).collect()), dump_rel(4, self.p.r4.iter().map(Row::render).collect()), dump_rel(5, self.p.r5.iter().map(Row::render).collect()), dump_rel(6, self.p.r6.iter().map(Row::render).collect()), dump_rel(7, self.p.r7.iter().map(Row::render).collect()), dump_rel(8, self.p.r8.iter().map(Row::render).collect())].join(" | ") }
      fn iters(&self) -> String { format!("iters {}", self.p.scc_iters.iter().map(|x| x.to_string()).collect::<Vec<_>>().join(" ")) }
   }
}

#[allow(unused, non_snake_case, clippy::all)]
pub mod a20 {
   use ascent::*;
   use ascent::aggregators::*;
   use ascent::lattice::{Dual, set::Set};
   use crate::common::*;
   ascent! {
      pub struct Prog;
      relation r0(i64);
      relation r1(i64, i64, i64);
      relation r2(i64, i64);
      relation r3(i64, i64);
      relation r4(i64, i64);
      r2(v0, v1) <-- r1(v0, v1, 3) if ((*v0) <= 2) let v2 = ((*v1) + 1);
      r2(2, v1) <-- r2(v0, 2), let v1 = 3, r1(((*v0) + 0), v1, v2), if let Some(v3) = Some(std::cmp::max((*v2), 0));
      r3(v0, v1) <-- let v9 = 2, r2(v0, v1), r3(v1, v9);
      r3(v0, v1) <-- r2(v0, v1), r2(v1, v1);
      r1(v0, v0, v0) <-- r0(v0), r0(v0), if let Some(v1) = Some((*v0)), r2((v1 + 0), v1) if ((*v0) != 6);
      r3(0, 0) <-- r3(1, 0);
      r2(3, v0) <-- if let Some(v0) = Some(2);
      r4(v0, v21) <-- r2(v0, v1), agg v21 = min(v20) in r1(3, v20, (*v0));
   }
   pub struct Inst { p: Prog, pool: Option<ascent::rayon::ThreadPool> }
   pub fn make(pool: Option<usize>) -> Box<dyn Driver> {
      let pool = pool.map(|n| ascent::rayon::ThreadPoolBuilder::new().num_threads(n).build().unwrap());
      let p = match &pool { Some(pl) => pl.install(|| Default::default()), None => Default::default() };
      Box::new(Inst { p, pool })
   }
   impl Driver for Inst {
      fn load(&mut self, rel: usize, rows: &[Sexp], append: bool) -> Option<()> {
         match rel {
         0 => { let v: Vec<(i64,)> = parse_rows(rows)?; if append { self.p.r0.extend(v) } else { self.p.r0 = v } },
         1 => { let v: Vec<(i64,i64,i64,)> = parse_rows(rows)?; if append { self.p.r1.extend(v) } else { self.p.r1 = v } },
         2 => { let v: Vec<(i64,i64,)> = parse_rows(rows)?; if append { self.p.r2.extend(v) } else { self.p.r2 = v } },
         3 => { let v: Vec<(i64,i64,)> = parse_rows(rows)?; if append { self.p.r3.extend(v) } else { self.p.r3 = v } },
         4 => { let v: Vec<(i64,i64,)> = parse_rows(rows)?; if append { self.p.r4.extend(v) } else { self.p.r4 = v } },
            _ => return None,
         }
         Some(())
      }
      fn run(&mut self) { match &self.pool { Some(pl) => { let p = &mut self.p; pl.install(|| p.run()) }, None => self.p.run() } }
      fn run_here(&mut self) { self.p.run() }
      fn run_timeout(&mut self, k: usize) -> Option<bool> { let _ = k; None }
      fn dump(&self) -> String { vec![dump_rel(0, self.p.r0.iter().map(Row::render).collect()), dump_rel(1, self.p.r1.iter().map(Row::render).collect()), dump_rel(2, self.p.r2.iter().map(Row::render).collect()), dump_rel(3, self.p.r3.iter().map(Row::render).collect()), dump_rel(4, self.p.r4.iter().map(Row::render).collect())].join(" | ") }
      fn iters(&self) -> String { format!("iters {}", self.p.scc_iters.iter().map(|x| x.to_string()).collect::<Vec<_>>().join(" ")) }
   }
}

#[allow(unused, non_snake_case, clippy::all)]
pub mod a28 {
   use ascent::*;
   use ascent::aggregators::*;
   use ascent::lattice::{Dual, set::Set};
   use crate::common::*;
   ascent! {
      pub struct Prog;
      relation r0(i64, i64);
      relation r1(i64, i64);
      relation r2(i64, i64, i64);
      relation r3(i64, i64);
      relation r4(i64, i64);
      r1(v1, 1) <-- r0(v0, 0), r0(3, v1) if ((*v1) <= 3);
      r2(v1, v0, v0) <-- r1(2, 1), r1(v0, v1) if ((*v1) < 3);
      r1(v0, v1) <-- let v9 = 1, r0(v0, v1), r0(v1, v9);
      r2(0, v0, v2) <-- r0(2, v0), r2(v1, v2, v0);
      r1(v2, v3) <-- r2(v0, 1, v1), r0(v2, v3), for v4 in 0..3;
      r1(2, 3) <-- r1(3, v0) if ((*v0) < 1), r1(3, v1) if ((*v0) < 5), for v2 in 0..3;
      r3(v33, v21) <-- r1(v0, v1), r1(v0, v0), r1(v32, v33), agg v21 = min(v20) in r0(v20, (*v1));
      r4(v1, v21) <-- r2(v0, v1, v2), r2(v2, v33, v33), agg v21 = max(v20) in r2(2, (*v0), v20);
   }
   pub struct Inst { p: Prog, pool: Option<ascent::rayon::ThreadPool> }
   pub fn make(pool: Option<usize>) -> Box<dyn Driver> {
      let pool = pool.map(|n| ascent::rayon::ThreadPoolBuilder::new().num_threads(n).build().unwrap());
      let p = match &pool { Some(pl) => pl.install(|| Default::default()), None => Default::default() };
      Box::new(Inst { p, pool })
   }
   impl Driver for Inst {
      fn load(&mut self, rel: usize, rows: &[Sexp], append: bool) -> Option<()> {
         match rel {
         0 => { let v: Vec<(i64,i64,)> = parse_rows(rows)?; if append { self.p.r0.extend(v) } else { self.p.r0 = v } },
         1 => { let v: Vec<(i64,i64,)> = parse_rows(rows)?; if append { self.p.r1.extend(v) } else { self.p.r1 = v } },
         2 => { let v: Vec<(i64,i64,i64,)> = parse_rows(rows)?; if append { self.p.r2.extend(v) } else { self.p.r2 = v } },
         3 => { let v: Vec<(i64,i64,)> = parse_rows(rows)?; if append { self.p.r3.extend(v) } else { self.p.r3 = v } },
         4 => { let v: Vec<(i64,i64,)> = parse_rows(rows)?; if append { self.p.r4.extend(v) } else { self.p.r4 = v } },
            _ => return None,
         }
         Some(())
      }
      fn run(&mut self) { match &self.pool { Some(pl) => { let p = &mut self.p; pl.install(|| p.run()) }, None => self.p.run() } }
      fn run_here(&mut self) { self.p.run() }
      fn run_timeout(&mut self, k: usize) -> Option<bool> { let _ = k; None }
      fn dump(&self) -> String { vec![dump_rel(0, self.p.r0.iter().map(Row::render).collect()), dump_rel(1, self.p.r1.iter().map(Row::render).collect()), dump_rel(2, self.p.r2.iter().map(Row::render).collect()), dump_rel(3, self.p.r3.iter().map(Row::render).collect()), dump_rel(4, self.p.r4.iter().map(Row::render).collect())].join(" | ") }
      fn iters(&self) -> String { format!("iters {}", self.p.scc_iters.iter().map(|x| x.to_string()).collect::<Vec<_>>().join(" ")) }
   }
}

#[allow(unused, non_snake_case, clippy::all)]
pub mod a36 {
   use ascent::*;
   use ascent::aggregators::*;
   use ascent::lattice::{Dual, set::Set};
   use crate::common::*;
   ascent! {
      pub struct Prog;
      relation r0(i64);
      relation r1(i64, i64);
      relation r2(i64);
      relation r3(i64, i64, i64);
      relation r4(i64, i64);
      relation r5(i64, i64);
      relation r6(i64);
      relation r7(i64);
      relation r8(i64);
      r1(v0, 3) <-- let v0 = 1, r0(v0);
      r2(v0) <-- r1(1, v0) if ((*v0) < 3) let v1 = ((*v0) + 0), r0(v0) if ((*v0) != 2);
      r1(2, 3) <-- r2(1);
      r3(v0, v2, v3) <-- r1(v0, v1), r1(v1, v2), r1(v2, v3);
      r3((v0 + 1), 3, (v0 + 1)) <-- if let Some(v0) = None::<i64>, r1(v1, v0), if (v0 < 6), if (v0 < 6);
      r1(v1, ((*v0) + 1)) <-- r3(1, v0, v1) if ((*v1) < 6), r3(0, v2, ((*v0) + 0)), if ((*v0) < 6);
      r4(v1, v21) <-- r1(v0, v1), r3(v1, v32, v0), r2(v0), agg v21 = max(v20) in r1(v20, _);
      r5(v0, v21) <-- r2(v0), agg v21 = max(v20) in r2(v20);
      r6(v0) <-- r0(v0), r0(v0), agg v21 = sum(v20) in r0(v20);
      r7(v1) <-- r3(v0, v1, v2), r3(v33, v0, v34), agg v21 = max(v20) in r3(v20, _, (*v33));
      r8(v1) <-- r1(v0, v1), agg v21 = max(v20) in r0(v20);
   }
   pub struct Inst { p: Prog, pool: Option<ascent::rayon::ThreadPool> }
   pub fn make(pool: Option<usize>) -> Box<dyn Driver> {
      let pool = pool.map(|n| ascent::rayon::ThreadPoolBuilder::new().num_threads(n).build().unwrap());
      let p = match &pool { Some(pl) => pl.install(|| Default::default()), None => Default::default() };
      Box::new(Inst { p, pool })
   }
   impl Driver for Inst {
      fn load(&mut self, rel: usize, rows: &[Sexp], append: bool) -> Option<()> {
         match rel {
         0 => { let v: Vec<(i64,)> = parse_rows(rows)?; if append { self.p.r0.extend(v) } else { self.p.r0 = v } },
         1 => { let v: Vec<(i64,i64,)> = parse_rows(rows)?; if append { self.p.r1.extend(v) } else { self.p.r1 = v } },
         2 => { let v: Vec<(i64,)> = parse_rows(rows)?; if append { self.p.r2.extend(v) } else { self.p.r2 = v } },
         3 => { let v: Vec<(i64,i64,i64,)> = parse_rows(rows)?; if append { self.p.r3.extend(v) } else { self.p.r3 = v } },
         4 => { let v: Vec<(i64,i64,)> = parse_rows(rows)?; if append { self.p.r4.extend(v) } else { self.p.r4 = v } },
         5 => { let v: Vec<(i64,i64,)> = parse_rows(rows)?; if append { self.p.r5.extend(v) } else { self.p.r5 = v } },
         6 => { let v: Vec<(i64,)> = parse_rows(rows)?; if append { self.p.r6.extend(v) } else { self.p.r6 = v } },
         7 => { let v: Vec<(i64,)> = parse_rows(rows)?; if append { self.p.r7.extend(v) } else { self.p.r7 = v } },
         8 => { let v: Vec<(i64,)> = parse_rows(rows)?; if append { self.p.r8.extend(v) } else { self.p.r8 = v } },
            _ => return None,
         }
         Some(())
      }
      fn run(&mut self) { match &self.pool { Some(pl) => { let p = &mut self.p; pl.install(|| p.run()) }, None => self.p.run() } }
      fn run_here(&mut self) { self.p.run() }
      fn run_timeout(&mut self, k: usize) -> Option<bool> { let _ = k; None }
      fn dump(&self) -> String { vec![dump_rel(0, self.p.r0.iter().map(Row::render).collect()), dump_rel(1, self.p.r1.iter().map(Row::render).collect()), dump_rel(2, self.p.r2.iter().map(Row::render).collect()), dump_rel(3, self.p.r3.iter().map(Row::render).collect()), dump_rel(4, self.p.r4.iter().map(Row::render).collect()), dump_rel(5, self.p.r5.iter().map(Row::render).collect()), dump_rel(6, self.p.r6.iter().map(Row::render).collect()), dump_rel(7, self.p.r7.iter().map(Row::render).collect()), dump_rel(8, self.p.r8.iter().map(Row::render).collect())].join(" | ") }
      fn iters(&self) -> String { format!("iters {}", self.p.scc_iters.iter().map(|x| x.to_string()).collect::<Vec<_>>().join(" ")) }
   }
}

#[allow(unused, non_snake_case, clippy::all)]
pub mod a44 {
   use ascent::*;
   use ascent::aggregators::*;
   use ascent::lattice::{Dual, set::Set};
   use crate::common::*;
   ascent! {
      pub struct Prog;
      relation r0(i64, i64);
      relation r1(i64, i64, i64);
      relation r2(i64, i64);
      relation r3(i64, i64);
      relation r4(i64, i64, i64);
      relation r5(i64);
      relation r6(i64, i64);
      r1(v3, v0, v5) <-- r0(v0, v1), r2(v2, v3) if ((*v3) != 1) let v4 = ((*v3) + 1), let v5 = (*v2);
      r2((v0 + 1), ((*v1) + 1)) <-- if let Some(v0) = None::<i64>, r1(v0, v1, v0) if (v0 <= 3), r0(v1, v1), if (v0 < 6), if ((*v1) < 6);
      r3(v1, (v1 + 1)) <-- r2(v0, 3) if ((*v0) < 6) let v1 = ((*v0) + 1), r1(v2, v1, v1) if ((*v2) <= 3) let v3 = (v1 + 0), if let Some(v4) = Some((*v0)), if (v1 < 6);
      r4(v2, v1, v0) <-- r3(v0, v1), for v2 in 1..1;
      r5(((*v1) + 1)) <-- r4(1, 1, 1), r3(v0, v1), if let Some(v2) = Some((*v1)), if ((*v1) < 6);
      r3(v0, v1) <-- for v9 in 0..3, r3(v0, v1), r2(v9, v1);
      r2(v0, v1) <-- r2(v0, v1) if ((*v0) < 3), r3(v1, v2) if ((*v2) != (*v1));
      r2(v3, ((*v2) + 1)) <-- r3(v0, v1) if ((*v1) != 6), r0(v2, v3) if ((*v1) != 1), if ((*v2) < 6);
      r6(v0, 2) <-- r2(v0, v1), agg () = not() in r1(_, _, (*v1));
   }
   pub struct Inst { p: Prog, pool: Option<ascent::rayon::ThreadPool> }
   pub fn make(pool: Option<usize>) -> Box<dyn Driver> {
      let pool = pool.map(|n| ascent::rayon::ThreadPoolBuilder::new().num_threads(n).build().unwrap());
      let p = match &pool { Some(pl) => pl.install(|| Default::default()), None => Default::default() };
      Box::new(Inst { p, pool })
   }
   impl Driver for Inst {
      fn load(&mut self, rel: usize, rows: &[Sexp], append: bool) -> Option<()> {
         match rel {
         0 => { let v: Vec<(i64,i64,)> = parse_rows(rows)?; if append { self.p.r0.extend(v) } else { self.p.r0 = v } },
         1 => { let v: Vec<(i64,i64,i64,)> = parse_rows(rows)?; if append { self.p.r1.extend(v) } else { self.p.r1 = v } },
         2 => { let v: Vec<(i64,i64,)> = parse_rows(rows)?; if append { self.p.r2.extend(v) } else { self.p.r2 = v } },
         3 => { let v: Vec<(i64,i64,)> = parse_rows(rows)?; if append { self.p.r3.extend(v) } else { self.p.r3 = v } },
         4 => { let v: Vec<(i64,i64,i64,)> = parse_rows(rows)?; if append { self.p.r4.extend(v) } else { self.p.r4 = v } },
         5 => { let v: Vec<(i64,)> = parse_rows(rows)?; if append { self.p.r5.extend(v) } else { self.p.r5 = v } },
         6 => { let v: Vec<(i64,i64,)> = parse_rows(rows)?; if append { self.p.r6.extend(v) } else { self.p.r6 = v } },
            _ => return None,
         }
         Some(())
      }
      fn run(&mut self) { match &self.pool { Some(pl) => { let p = &mut self.p; pl.install(|| p.run()) }, None => self.p.run() } }
      fn run_here(&mut self) { self.p.run() }
      fn run_timeout(&mut self, k: usize) -> Option<bool> { let _ = k; None }
      fn dump(&self) -> String { vec![dump_rel(0, self.p.r0.iter().map(Row::render).collect()), dump_rel(1, self.p.r1.iter().map(Row::render).collect()), dump_rel(2, self.p.r2.iter().map(Row::render).collect()), dump_rel(3, self.p.r3.iter().map(Row::render).collect()), dump_rel(4, self.p.r4.iter().map(Row::render).collect()), dump_rel(5, self.p.r5.iter().map(Row::render).collect()), dump_rel(6, self.p.r6.iter().map(Row::render).collect())].join(" | ") }
      fn iters(&self) -> String { format!("iters {}", self.p.scc_iters.iter().map(|x| x.to_string()).collect::<Vec<_>>().join(" ")) }
   }
}

#[allow(unused, non_snake_case, clippy::all)]
pub mod a52 {
   use ascent::*;
   use ascent::aggregators::*;
   use ascent::lattice::{Dual, set::Set};
   use crate::common::*;
   ascent! {
      pub struct Prog;
      relation r0(i64, i64);
      relation r1(i64);
      relation r2(i64, i64);
      relation r3(i64, i64);
      relation r4(i64, i64);
      relation r5(i64, i64, i64);
      relation r6(i64, i64);
      relation r7(i64, i64);
      r2(3, 3) <-- r1(0);
      r3((v0 + 1), v0) <-- for v0 in [2, 1], r1(v1) if (v0 != 2), if (v0 < 6);
      r4(0, v0) <-- r2(v0, v1), if let Some(v2) = None::<i64>, r3(v1, ((*v1) + 1));
      r5(v0, v1, v9) <-- let v9 = 2, r4(v0, v1), r3(v1, v9);
      r3(v0, v1) <-- r4(v0, v1), r2(v1, v1);
      r5(v3, v2, v2) <-- for v0 in 0..3, r1(v1) if ((*v1) <= 5), r2(v2, v3), r2(v1, 1);
      r2(v0, v0) <-- for v0 in [2], r4(v0, (v0 + 0));
      r5(v1, (v0 + 1), v0) <-- if let Some(v0) = Some(3), r0(0, v0), r2(0, 2), r0(v0, v1), if (v0 < 6);
      r4(v0, (v0 + 1)) <-- if let Some(v0) = Some(1), r1((v0 + 0)), if (v0 < 6);
      r6(v1, 2) <-- r0(v0, v1), r1(v0), agg () = not() in r1((*v0));
      r7(v0, v21) <-- r1(v0), agg v21 = min(v20) in r4(v20, (*v0));
   }
   pub struct Inst { p: Prog, pool: Option<ascent::rayon::ThreadPool> }
   pub fn make(pool: Option<usize>) -> Box<dyn Driver> {
      let pool = pool.map(|n| ascent::rayon::ThreadPoolBuilder::new().num_threads(n).build().unwrap());
      let p = match &pool { Some(pl) => pl.install(|| Default::default()), None => Default::default() };
      Box::new(Inst { p, pool })
   }
   impl Driver for Inst {
      fn load(&mut self, rel: usize, rows: &[Sexp], append: bool) -> Option<()> {
         match rel {
         0 => { let v: Vec<(i64,i64,)> = parse_rows(rows)?; if append { self.p.r0.extend(v) } else { self.p.r0 = v } },
         1 => { let v: Vec<(i64,)> = parse_rows(rows)?; if append { self.p.r1.extend(v) } else { self.p.r1 = v } },
         2 => { let v: Vec<(i64,i64,)> = parse_rows(rows)?; if append { self.p.r2.extend(v) } else { self.p.r2 = v } },
         3 => { let v: Vec<(i64,i64,)> = parse_rows(rows)?; if append { self.p.r3.extend(v) } else { self.p.r3 = v } },
         4 => { let v: Vec<(i64,i64,)> = parse_rows(rows)?; if append { self.p.r4.extend(v) } else { self.p.r4 = v } },
         5 => { let v: Vec<(i64,i64,i64,)> = parse_rows(rows)?; if append { self.p.r5.extend(v) } else { self.p.r5 = v } },
         6 => { let v: Vec<(i64,i64,)> = parse_rows(rows)?; if append { self.p.r6.extend(v) } else { self.p.r6 = v } },
         7 => { let v: Vec<(i64,i64,)> = parse_rows(rows)?; if append { self.p.r7.extend(v) } else { self.p.r7 = v } },
            _ => return None,
         }
         Some(())
      }
      fn run(&mut self) { match &self.pool { Some(pl) => { let p = &mut self.p; pl.install(|| p.run()) }, None => self.p.run() } }
      fn run_here(&mut self) { self.p.run() }
      fn run_timeout(&mut self, k: usize) -> Option<bool> { let _ = k; None }
      fn dump(&self) -> String { vec![dump_rel(0, self.p.r0.iter().map(Row::render).collect()), dump_rel(1, self.p.r1.iter().map(Row::render).collect()), dump_rel(2, self.p.r2.iter().map(Row::render).collect()), dump_rel(3, self.p.r3.iter().map(Row::render).collect()), dump_rel(4, self.p.r4.iter().map(Row::render).collect()), dump_rel(5, self.p.r5.iter().map(Row::render).collect()), dump_rel(6, self.p.r6.iter().map(Row::render).collect()), dump_rel(7, self.p.r7.iter().map(Row::render).collect())].join(" | ") }
      fn iters(&self) -> String { format!("iters {}", self.p.scc_iters.iter().map(|x| x.to_string()).collect::<Vec<_>>().join(" ")) }
   }
}

#[allow(unused, non_snake_case, clippy::all)]
pub mod a60 {
   use ascent::*;
   use ascent::aggregators::*;
   use ascent::lattice::{Dual, set::Set};
   use crate::common::*;
   ascent! {
      pub struct Prog;
      relation r0(i64, i64);
      relation r1(i64);
      relation r2(i64, i64, i64);
      relation r3(i64, i64, i64);
      relation r4(i64, i64);
      relation r5(i64, i64);
      relation r6(i64, i64);
      relation r7(i64);
      relation r8(i64, i64);
      relation r9(i64, i64);
      relation r10(i64, i64);
      r2(v0, v0, v0) <-- r0(v0, 3);
      r2(((*v1) + 1), v1, v0) <-- r2(3, v0, v1), r0(v1, v0), if ((*v1) < 6);
      r2(v0, v1, v2) <-- r0(v0, v1), r4(v0, v0), r0(v1, v2);
      r5(v0, v1) <-- r4(v0, v1), r5(v1, v1);
      r5((v0 + 1), (v0 + 1)) <-- r1(2), if let Some(v0) = Some(3), if (v0 < 6), if (v0 < 6);
      r2(((*v1) + 1), ((*v1) + 1), v1) <-- for v0 in [1, 3, 0], r0((v0 + 1), v0), r0(v1, (v0 + 0)) if (v0 <= 2), r2(v1, v0, (v0 + 0)), if ((*v1) < 6), if ((*v1) < 6);
      r2(v3, v0, v4) <-- let v0 = 2, r4(v1, v0), r2(v1, v2, v3), r1(v4) if (v0 != 6);
      r3(3, 2, 0) <-- r0(3, 0);
      r6(v1, v21) <-- r0(v0, v1), agg v21 = min(v20) in r4(v20, _);
      r7(v2) <-- r3(v0, v1, v2), agg v21 = min(v20) in r4(v20, (*v2));
      r8(v0, (v21 as i64)) <-- r1(v0), agg v21 = count() in r3(_, _, (*v0));
      r9(v0, v21) <-- r5(v0, v1), agg v21 = max(v20) in r2((*v1), (*v1), v20);
      r10(v0, 0) <-- r0(v0, v1), agg () = not() in r9(_, _);
   }
   pub struct Inst { p: Prog, pool: Option<ascent::rayon::ThreadPool> }
   pub fn make(pool: Option<usize>) -> Box<dyn Driver> {
      let pool = pool.map(|n| ascent::rayon::ThreadPoolBuilder::new().num_threads(n).build().unwrap());
      let p = match &pool { Some(pl) => pl.install(|| Default::default()), None => Default::default() };
      Box::new(Inst { p, pool })
   }
   impl Driver for Inst {
      fn load(&mut self, rel: usize, rows: &[Sexp], append: bool) -> Option<()> {
         match rel {
         0 => { let v: Vec<(i64,i64,)> = parse_rows(rows)?; if append { self.p.r0.extend(v) } else { self.p.r0 = v } },
         1 => { let v: Vec<(i64,)> = parse_rows(rows)?; if append { self.p.r1.extend(v) } else { self.p.r1 = v } },
         2 => { let v: Vec<(i64,i64,i64,)> = parse_rows(rows)?; if append { self.p.r2.extend(v) } else { self.p.r2 = v } },
         3 => { let v: Vec<(i64,i64,i64,)> = parse_rows(rows)?; if append { self.p.r3.extend(v) } else { self.p.r3 = v } },
         4 => { let v: Vec<(i64,i64,)> = parse_rows(rows)?; if append { self.p.r4.extend(v) } else { self.p.r4 = v } },
         5 => { let v: Vec<(i64,i64,)> = parse_rows(rows)?; if append { self.p.r5.extend(v) } else { self.p.r5 = v } },
         6 => { let v: Vec<(i64,i64,)> = parse_rows(rows)?; if append { self.p.r6.extend(v) } else { self.p.r6 = v } },
         7 => { let v: Vec<(i64,)> = parse_rows(rows)?; if append { self.p.r7.extend(v) } else { self.p.r7 = v } },
         8 => { let v: Vec<(i64,i64,)> = parse_rows(rows)?; if append { self.p.r8.extend(v) } else { self.p.r8 = v } },
         9 => { let v: Vec<(i64,i64,)> = parse_rows(rows)?; if append { self.p.r9.extend(v) } else { self.p.r9 = v } },
         10 => { let v: Vec<(i64,i64,)> = parse_rows(rows)?; if append { self.p.r10.extend(v) } else { self.p.r10 = v } },
            _ => return None,
         }
         Some(())
      }
      fn run(&mut self) { match &self.pool { Some(pl) => { let p = &mut self.p; pl.install(|| p.run()) }, None => self.p.run() } }
      fn run_here(&mut self) { self.p.run() }
      fn run_timeout(&mut self, k: usize) -> Option<bool> { let _ = k; None }
      fn dump(&self) -> String { vec![dump_rel(0, self.p.r0.iter().map(Row::render).collect()), dump_rel(1, self.p.r1.iter().map(Row::render).collect()), dump_rel(2, self.p.r2.iter().map(Row::render).collect()), dump_rel(3, self.p.r3.iter().map(Row::render).collect()), dump_rel(4, self.p.r4.iter().map(Row::render).collect()), dump_rel(5, self.p.r5.iter().map(Row::render).collect()), dump_rel(6, self.p.r6.iter().map(Row::render).collect()), dump_rel(7, self.p.r7.iter().map(Row::render).collect()), dump_rel(8, self.p.r8.iter().map(Row::render).collect()), dump_rel(9, self.p.r9.iter().map(Row::render).collect()), dump_rel(10, self.p.r10.iter().map(Row::render).collect())].join(" | ") }
      fn iters(&self) -> String { format!("iters {}", self.p.scc_iters.iter().map(|x| x.to_string()).collect::<Vec<_>>().join(" ")) }
   }
}

#[allow(unused, non_snake_case, clippy::all)]
pub mod a68 {
   use ascent::*;
   use ascent::aggregators::*;
   use ascent::lattice::{Dual, set::Set};
   use crate::common::*;
   ascent! {
      pub struct Prog;
      relation r0(i64, i64);
      relation r1(i64, i64, i64);
      relation r2(i64, i64);
      relation r3(i64);
      relation r4(i64, i64);
      relation r5(i64, i64);
      r2(v0, v1) <-- let v9 = 2, r0(v0, v1), r0(v1, v9);
      r1(v0, v1, v2) <-- r2(v0, v1), r0(((*v0) + 1), v2);
      r1(2, ((*v1) + 1), ((*v3) + 1)) <-- if let Some(v0) = Some(1), r0(v1, 1), r1(v2, v1, v1), r2(v2, v3), if ((*v1) < 6), if ((*v3) < 6);
      r3(v32) <-- r2(v0, v1), r1(v32, v1, v32), agg v21 = min(v20) in r1(v20, (*v0), 2);
      r4(v1, v21) <-- r1(v0, v1, v2), agg v21 = min(v20) in r0((*v1), v20);
      r5(v1, v21) <-- r0(v0, v1), r0(v1, v0), agg v21 = sum(v20) in r1((*v0), v20, _);
   }
   pub struct Inst { p: Prog, pool: Option<ascent::rayon::ThreadPool> }
   pub fn make(pool: Option<usize>) -> Box<dyn Driver> {
      let pool = pool.map(|n| ascent::rayon::ThreadPoolBuilder::new().num_threads(n).build().unwrap());
      let p = match &pool { Some(pl) => pl.install(|| Default::default()), None => Default::default() };
      Box::new(Inst { p, pool })
   }
   impl Driver for Inst {
      fn load(&mut self, rel: usize, rows: &[Sexp], append: bool) -> Option<()> {
         match rel {
         0 => { let v: Vec<(i64,i64,)> = parse_rows(rows)?; if append { self.p.r0.extend(v) } else { self.p.r0 = v } },
         1 => { let v: Vec<(i64,i64,i64,)> = parse_rows(rows)?; if append { self.p.r1.extend(v) } else { self.p.r1 = v } },
         2 => { let v: Vec<(i64,i64,)> = parse_rows(rows)?; if append { self.p.r2.extend(v) } else { self.p.r2 = v } },
         3 => { let v: Vec<(i64,)> = parse_rows(rows)?; if append { self.p.r3.extend(v) } else { self.p.r3 = v } },
         4 => { let v: Vec<(i64,i64,)> = parse_rows(rows)?; if append { self.p.r4.extend(v) } else { self.p.r4 = v } },
         5 => { let v: Vec<(i64,i64,)> = parse_rows(rows)?; if append { self.p.r5.extend(v) } else { self.p.r5 = v } },
            _ => return None,
         }
         Some(())
      }
      fn run(&mut self) { match &self.pool { Some(pl) => { let p = &mut self.p; pl.install(|| p.run()) }, None => self.p.run() } }
      fn run_here(&mut self) { self.p.run() }
      fn run_timeout(&mut self, k: usize) -> Option<bool> { let _ = k; None }
      fn dump(&self) -> String { vec![dump_rel(0, self.p.r0.iter().map(Row::render).collect()), dump_rel(1, self.p.r1.iter().map(Row::render).collect()), dump_rel(2, self.p.r2.iter().map(Row::render).collect()), dump_rel(3, self.p.r3.iter().map(Row::render).collect()), dump_rel(4, self.p.r4.iter().map(Row::render).collect()), dump_rel(5, self.p.r5.iter().map(Row::render).collect())].join(" | ") }
      fn iters(&self) -> String { format!("iters {}", self.p.scc_iters.iter().map(|x| x.to_string()).collect::<Vec<_>>().join(" ")) }
   }
}

#[allow(unused, non_snake_case, clippy::all)]
pub mod a76 {
   use ascent::*;
   use ascent::aggregators::*;
   use ascent::lattice::{Dual, set::Set};
   use crate::common::*;
   ascent! {
      pub struct Prog;
      relation r0(i64, i64);
      relation r1(i64, i64);
      relation r2(i64, i64, i64);
      relation r3(i64, i64);
      relation r4(i64, i64, i64);
      relation r5(i64);
      relation r6(i64, i64);
      r1(0, v1) <-- for v0 in [3], r0(v1, 0) if ((*v1) != 3);
      r2(v0, v0, 2) <-- if let Some(v0) = Some(1), r1(v1, v0), r3(3, 0);
      r1(v2, v1) <-- let v0 = 4, r2(0, v1, v2), if ((*v2) < 1);
      r5(v0) <-- r3(v0, v1), r1(((*v0) + 1), v2);
      r5(v2) <-- r3(v0, v1) if ((*v1) != 2) let v2 = ((*v1) + 0);
      r4(v0, ((*v2) + 1), v2) <-- r2(v0, v1, v2), if ((*v1) <= 1), if ((*v2) < 6);
      r2(v0, v0, v0) <-- r0(v0, 0), if ((*v0) == 6);
      r6(v2, 1) <-- r4(v0, v1, v2), r3(v1, v33), r4(v34, v2, v35), agg () = not() in r1((*v2), (*v33));
   }
   pub struct Inst { p: Prog, pool: Option<ascent::rayon::ThreadPool> }
   pub fn make(pool: Option<usize>) -> Box<dyn Driver> {
      let pool = pool.map(|n| ascent::rayon::ThreadPoolBuilder::new().num_threads(n).build().unwrap());
      let p = match &pool { Some(pl) => pl.install(|| Default::default()), None => Default::default() };
      Box::new(Inst { p, pool })
   }
   impl Driver for Inst {
      fn load(&mut self, rel: usize, rows: &[Sexp], append: bool) -> Option<()> {
         match rel {
         0 => { let v: Vec<(i64,i64,)> = parse_rows(rows)?; if append { self.p.r0.extend(v) } else { self.p.r0 = v } },
         1 => { let v: Vec<(i64,i64,)> = parse_rows(rows)?; if append { self.p.r1.extend(v) } else { self.p.r1 = v } },
         2 => { let v: Vec<(i64,i64,i64,)> = parse_rows(rows)?; if append { self.p.r2.extend(v) } else { self.p.r2 = v } },
         3 => { let v: Vec<(i64,i64,)> = parse_rows(rows)?; if append { self.p.r3.extend(v) } else { self.p.r3 = v } },
         4 => { let v: Vec<(i64,i64,i64,)> = parse_rows(rows)?; if append { self.p.r4.extend(v) } else { self.p.r4 = v } },
         5 => { let v: Vec<(i64,)> = parse_rows(rows)?; if append { self.p.r5.extend(v) } else { self.p.r5 = v } },
         6 => { let v: Vec<(i64,i64,)> = parse_rows(rows)?; if append { self.p.r6.extend(v) } else { self.p.r6 = v } },
            _ => return None,
         }
         Some(())
      }
      fn run(&mut self) { match &self.pool { Some(pl) => { let p = &mut self.p; pl.install(|| p.run()) }, None => self.p.run() } }
      fn run_here(&mut self) { self.p.run() }
      fn run_timeout(&mut self, k: usize) -> Option<bool> { let _ = k; None }
      fn dump(&self) -> String { vec![dump_rel(0, self.p.r0.iter().map(Row::render).collect()), dump_rel(1, self.p.r1.iter().map(Row::render).collect()), dump_rel(2, self.p.r2.iter().map(Row::render).collect()), dump_rel(3, self.p.r3.iter().map(Row::render).collect()), dump_rel(4, self.p.r4.iter().map(Row::render).collect()), dump_rel(5, self.p.r5.iter().map(Row::render).collect()), dump_rel(6, self.p.r6.iter().map(Row::render).collect())].join(" | ") }
      fn iters(&self) -> String { format!("iters {}", self.p.scc_iters.iter().map(|x| x.to_string()).collect::<Vec<_>>().join(" ")) }
   }
}

fn main() {
   common::main_loop(&[("a4", a4::make as common::Factory), ("a12", a12::make as common::Factory), ("a20", a20::make as common::Factory), ("a28", a28::make as common::Factory), ("a36", a36::make as common::Factory), ("a44", a44::make as common::Factory), ("a52", a52::make as common::Factory), ("a60", a60::make as common::Factory), ("a68", a68::make as common::Factory), ("a76", a76::make as common::Factory)]);
}
