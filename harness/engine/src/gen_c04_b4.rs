#[path = "common.rs"]
mod common;
#[allow(unused, non_snake_case, clippy::all)]
pub mod a4 {
   use ascent::*;
   use ascent::aggregators::*;
   use ascent::lattice::{Dual, set::Set};
   use crate::common::*;
   ascent! {
      pub struct Prog;
      relation r0(i64, i64);
      relation r1(i64, i64, i64);
      relation r2(i64, i64);
      relation r3(i64, i64);
      relation r4(i64);
      relation r5(i64);
      r2(v0, ((*v0) + 1)) <-- r1(3, v0, v1), if ((*v0) < 6);
      r3(v0, v0) <-- r2(3, v0), r3(v0, v0);
      r2(v0, v0) <-- r3(v0, v1);
      r3(v0, v1) <-- for v9 in 0..3, r2(v0, v1), r3(v9, v1);
      r3(v2, ((*v1) + 1)) <-- r1(v0, v1, v2), if ((*v1) < 6);
      r3(v0, v0) <-- let v0 = 3, r3((v0 + 1), (v0 + 0)), if (v0 <= 6);
      r2(1, 0);
      r4(v0) <-- r3(v0, v1), agg v21 = max(v20) in r1(_, v20, _);
      r5(v32) <-- r0(v0, v1), r1(v32, v1, v33), r2(v0, v1), agg () = not() in r2(_, _);
   }
   pub struct Inst { p: Prog, pool: Option<ascent::rayon::ThreadPool> }
   pub fn make(pool: Option<usize>) -> Box<dyn Driver> {
      let pool = pool.map(|n| ascent::rayon::ThreadPoolBuilder::new().num_threads(n).build().unwrap());
      let p = match &pool { Some(pl) => pl.install(|| Default::default()), None => Default::default() };
      Box::new(Inst { p, pool })
   }
   impl Driver for Inst {
      fn load(&mut self, rel: usize, rows: &[Sexp], append: bool) -> Option<()> {
         match rel {
         0 => { let v: Vec<(i64,i64,)> = parse_rows(rows)?; if append { self.p.r0.extend(v) } else { self.p.r0 = v } },
         1 => { let v: Vec<(i64,i64,i64,)> = parse_rows(rows)?; if append { self.p.r1.extend(v) } else { self.p.r1 = v } },
         2 => { let v: Vec<(i64,i64,)> = parse_rows(rows)?; if append { self.p.r2.extend(v) } else { self.p.r2 = v } },
         3 => { let v: Vec<(i64,i64,)> = parse_rows(rows)?; if append { self.p.r3.extend(v) } else { self.p.r3 = v } },
         4 => { let v: Vec<(i64,)> = parse_rows(rows)?; if append { self.p.r4.extend(v) } else { self.p.r4 = v } },
         5 => { let v: Vec<(i64,)> = parse_rows(rows)?; if append { self.p.r5.extend(v) } else { self.p.r5 = v } },
            _ => return None,
         }
         Some(())
      }
      fn run(&mut self) { match &self.pool { Some(pl) => { let p = &mut self.p; pl.install(|| p.run()) }, None => self.p.run() } }
      fn run_here(&mut self) { self.p.run() }
      fn run_timeout(&mut self, k: usize) -> Option<bool> { let _ = k; None }
      fn dump(&self) -> String { vec![dump_rel(0, self.p.r0.iter().map(Row::render).collect()), dump_rel(1, self.p.r1.iter().map(Row::render).collect()), dump_rel(2, self.p.r2.iter().map(Row::render).collect()), dump_rel(3, self.p.r3.iter().map(Row::render).collect()), dump_rel(4, self.p.r4.iter().map(Row::render).collect()), dump_rel(5, self.p.r5.iter().map(Row::render).collect())].join(" | ") }
      fn iters(&self) -> String { format!("iters {}", self.p.scc_iters.iter().map(|x| x.to_string()).collect::<Vec<_>>().join(" ")) }
   }
}

#[allow(unused, non_snake_case, clippy::all)]
pub mod a12 {
   use ascent::*;
   use ascent::aggregators::*;
   use ascent::lattice::{Dual, set::Set};
   use crate::common::*;
   ascent! {
      pub struct Prog;
      relation r0(i64);
      relation r1(i64, i64);
      relation r2(i64, i64, i64);
      relation r3(i64, i64);
      relation r4(i64);
      relation r5(i64, i64);
      relation r6(i64);
      relation r7(i64, i64);
      relation r8(i64);
      r2(v1, v1, ((*v0) + 1)) <-- r1(v0, v1), if ((*v0) < 6);
      r2(v1, ((*v4) + 1), v2) <-- r2(v0, 2, v1) if ((*v0) < 3) let v2 = ((*v1) + 0), r2(v3, v1, v4), if ((*v4) < 6), if (v2 <= 6);
      r2(v0, v1, v2) <-- r1(v0, v1), r1(v0, v0), r1(v1, v2);
      r2(v0, v0, v0) <-- r1(1, v0), r0(v0), if ((*v0) == 5);
      r2(0, v5, v2) <-- for v0 in 0..1, r2(v1, v2, v3), r1(v2, v1), if ((*v3) < 2), r2(v4, ((*v2) + 1), v5) if (v0 < 6), if ((*v2) == 2);
      r0(3);
      r3(v0, v21) <-- r1(v0, v1), agg v21 = sum(v20) in r1(0, v20);
      r4(v0) <-- r2(v0, v1, v2), agg v21 = count() in r2(0, (*v1), _);
      r5(v0, (v21 as i64)) <-- r2(v0, v1, v2), r1(v2, v1), agg v21 = count() in r0(_);
      r6(v1) <-- r1(v0, v1), agg v21 = sum(v20) in r0(v20);
      r7(v35, (v21 as i64)) <-- r2(v0, v1, v2), r1(v33, v34), r2(v35, v36, v35), agg v21 = count() in r5((*v33), (*v0));
      r8(v33) <-- r2(v0, v1, v2), r1(v2, v33), r0(v34), agg v21 = max(v20) in r5((*v2), v20);
   }
   pub struct Inst { p: Prog, pool: Option<ascent::rayon::ThreadPool> }
   pub fn make(pool: Option<usize>) -> Box<dyn Driver> {
      let pool = pool.map(|n| ascent::rayon::ThreadPoolBuilder::new().num_threads(n).build().unwrap());
      let p = match &pool { Some(pl) => pl.install(|| Default::default()), None => Default::default() };
      Box::new(Inst { p, pool })
   }
   impl Driver for Inst {
      fn load(&mut self, rel: usize, rows: &[Sexp], append: bool) -> Option<()> {
         match rel {
         0 => { let v: Vec<(i64,)> = parse_rows(rows)?; if append { self.p.r0.extend(v) } else { self.p.r0 = v } },
         1 => { let v: Vec<(i64,i64,)> = parse_rows(rows)?; if append { self.p.r1.extend(v) } else { self.p.r1 = v } },
         2 => { let v: Vec<(i64,i64,i64,)> = parse_rows(rows)?; if append { self.p.r2.extend(v) } else { self.p.r2 = v } },
         3 => { let v: Vec<(i64,i64,)> = parse_rows(rows)?; if append { self.p.r3.extend(v) } else { self.p.r3 = v } },
         4 => { let v: Vec<(i64,)> = parse_rows(rows)?; if append { self.p.r4.extend(v) } else { self.p.r4 = v } },
         5 => { let v: Vec<(i64,i64,)> = parse_rows(rows)?; if append { self.p.r5.extend(v) } else { self.p.r5 = v } },
         6 => { let v: Vec<(i64,)> = parse_rows(rows)?; if append { self.p.r6.extend(v) } else { self.p.r6 = v } },
         7 => { let v: Vec<(i64,i64,)> = parse_rows(rows)?; if append { self.p.r7.extend(v) } else { self.p.r7 = v } },
         8 => { let v: Vec<(i64,)> = parse_rows(rows)?; if append { self.p.r8.extend(v) } else { self.p.r8 = v } },
            _ => return None,
         }
         Some(())
      }
      fn run(&mut self) { match &self.pool { Some(pl) => { let p = &mut self.p; pl.install(|| p.run()) }, None => self.p.run() } }
      fn run_here(&mut self) { self.p.run() }
      fn run_timeout(&mut self, k: usize) -> Option<bool> { let _ = k; None }
      fn dump(&self) -> String { vec![dump_rel(0, self.p.r0.iter().map(Row::render).collect()), dump_rel(1, self.p.r1.iter().map(Row::render).collect()), dump_rel(2, self.p.r2.iter().map(Row::render).collect()), dump_rel(3, self.p.r3.iter().map(Row::render).collect()), dump_rel(4, self.p.r4.iter().map(Row::render).collect()), dump_rel(5, self.p.r5.iter().map(Row::render).collect()), dump_rel(6, self.p.r6.iter().map(Row::render).collect()), dump_rel(7, self.p.r7.iter().map(Row::render).collect()), dump_rel(8, self.p.r8.iter().map(Row::render).collect())].join(" | ") }
      fn iters(&self) -> String { format!("iters {}", self.p.scc_iters.iter().map(|x| x.to_string()).collect::<Vec<_>>().join(" ")) }
   }
}

fn main() {
   common::main_loop(&[("a4", a4::make as common::Factory), ("a12", a12::make as common::Factory)]);
}
