#[path = "common.rs"]
mod common;
#[allow(unused, non_snake_case, clippy::all)]
pub mod y1 {
   use ascent::*;
   use ascent::aggregators::*;
   use ascent::lattice::{Dual, set::Set};
   use crate::common::*;
   ascent_par! {
      pub struct Prog;
      relation r0(i64, i64);
      relation r1(i64);
      relation r2(i64);
      r2(v0) <-- r0(v0, v1) if ((*v0) < 4), r0(v1, v2) if ((*v2) != (*v1));
      r2(0) <-- let v0 = 4;
      r2(3);
      r2(v0) <-- r2(v0), r1(v1) if ((*v1) != 4);
   }
   pub struct Inst { p: Prog, pool: Option<ascent::rayon::ThreadPool> }
   pub fn make(pool: Option<usize>) -> Box<dyn Driver> {
      let pool = pool.map(|n| ascent::rayon::ThreadPoolBuilder::new().num_threads(n).build().unwrap());
      let p = match &pool { Some(pl) => pl.install(|| Default::default()), None => Default::default() };
      Box::new(Inst { p, pool })
   }
   impl Driver for Inst {
      fn load(&mut self, rel: usize, rows: &[Sexp], append: bool) -> Option<()> {
         match rel {
         0 => { let v: Vec<(i64,i64,)> = parse_rows(rows)?; if !append { self.p.r0 = Default::default(); } for x in v { self.p.r0.push(x); } },
         1 => { let v: Vec<(i64,)> = parse_rows(rows)?; if !append { self.p.r1 = Default::default(); } for x in v { self.p.r1.push(x); } },
         2 => { let v: Vec<(i64,)> = parse_rows(rows)?; if !append { self.p.r2 = Default::default(); } for x in v { self.p.r2.push(x); } },
            _ => return None,
         }
         Some(())
      }
      fn run(&mut self) { match &self.pool { Some(pl) => { let p = &mut self.p; pl.install(|| p.run()) }, None => self.p.run() } }
      fn run_here(&mut self) { self.p.run() }
      fn run_timeout(&mut self, k: usize) -> Option<bool> { let _ = k; None }
      fn dump(&self) -> String { vec![dump_rel(0, self.p.r0.iter().map(|x| x.render()).collect()), dump_rel(1, self.p.r1.iter().map(|x| x.render()).collect()), dump_rel(2, self.p.r2.iter().map(|x| x.render()).collect())].join(" | ") }
      fn iters(&self) -> String { format!("iters {}", self.p.scc_iters.iter().map(|x| x.to_string()).collect::<Vec<_>>().join(" ")) }
   }
}

#[allow(unused, non_snake_case, clippy::all)]
pub mod y5 {
   use ascent::*;
   use ascent::aggregators::*;
   use ascent::lattice::{Dual, set::Set};
   use crate::common::*;
   ascent_par! {
      pub struct Prog;
      relation r0(i64, i64, i64);
      relation r1(i64, i64);
      relation r2(i64);
      r2(v3) <-- if let Some(v0) = Some(0), r1(v1, v0), if ((*v1) <= 5), r0(v2, v3, v4);
      r2(v0) <-- for v9 in 0..4, r1(v0, v1), r1(v9, v1);
      r2(v0) <-- r1(v0, v1) if ((*v0) < 4), r1(v1, v2) if ((*v2) != (*v1));
      r2(v1) <-- let v0 = 0, r0(v1, v2, v3);
   }
   pub struct Inst { p: Prog, pool: Option<ascent::rayon::ThreadPool> }
   pub fn make(pool: Option<usize>) -> Box<dyn Driver> {
      let pool = pool.map(|n| ascent::rayon::ThreadPoolBuilder::new().num_threads(n).build().unwrap());
      let p = match &pool { Some(pl) => pl.install(|| Default::default()), None => Default::default() };
      Box::new(Inst { p, pool })
   }
   impl Driver for Inst {
      fn load(&mut self, rel: usize, rows: &[Sexp], append: bool) -> Option<()> {
         match rel {
         0 => { let v: Vec<(i64,i64,i64,)> = parse_rows(rows)?; if !append { self.p.r0 = Default::default(); } for x in v { self.p.r0.push(x); } },
         1 => { let v: Vec<(i64,i64,)> = parse_rows(rows)?; if !append { self.p.r1 = Default::default(); } for x in v { self.p.r1.push(x); } },
         2 => { let v: Vec<(i64,)> = parse_rows(rows)?; if !append { self.p.r2 = Default::default(); } for x in v { self.p.r2.push(x); } },
            _ => return None,
         }
         Some(())
      }
      fn run(&mut self) { match &self.pool { Some(pl) => { let p = &mut self.p; pl.install(|| p.run()) }, None => self.p.run() } }
      fn run_here(&mut self) { self.p.run() }
      fn run_timeout(&mut self, k: usize) -> Option<bool> { let _ = k; None }
      fn dump(&self) -> String { vec![dump_rel(0, self.p.r0.iter().map(|x| x.render()).collect()), dump_rel(1, self.p.r1.iter().map(|x| x.render()).collect()), dump_rel(2, self.p.r2.iter().map(|x| x.render()).collect())].join(" | ") }
      fn iters(&self) -> String { format!("iters {}", self.p.scc_iters.iter().map(|x| x.to_string()).collect::<Vec<_>>().join(" ")) }
   }
}

fn main() {
   common::main_loop(&[("y1", y1::make as common::Factory), ("y5", y5::make as common::Factory)]);
}
