#[path = "common.rs"]
mod common;
#[allow(unused, non_snake_case, clippy::all)]
pub mod w7 {
   use ascent::*;
   use ascent::aggregators::*;
   use ascent::lattice::{Dual, set::Set};
   use crate::common::*;
   ascent_par! {
      #![inter_rule_parallelism]
      pub struct Prog;
      relation r0(i64, i64);
      relation r1(i64, i64);
      relation r2(i64);
      relation r3(i64, i64);
      relation r4(i64, i64);
      r2(v0) <-- r1(v0, v1);
      r3((v0 + 1), v0) <-- let v0 = 2, r2(1), if (v0 < 6), if (v0 <= 6);
      r4(v0, v1) <-- r3(v0, v1), if let Some(v2) = Some((*v1));
      r2(v0) <-- r4(v0, v1), r0(v0, v0), r4(v1, v2);
      r2(v0) <-- for v9 in 0..2, r0(v0, v1), r3(v9, v1);
      r2(v1) <-- if let Some(v0) = Some(1), r2((v0 + 1)), r1(v1, v2) if ((*v1) < 2), for v3 in [4, 1], r0(v3, v0);
   }
   pub struct Inst { p: Prog, pool: Option<ascent::rayon::ThreadPool> }
   pub fn make(pool: Option<usize>) -> Box<dyn Driver> {
      let pool = pool.map(|n| ascent::rayon::ThreadPoolBuilder::new().num_threads(n).build().unwrap());
      let p = match &pool { Some(pl) => pl.install(|| Default::default()), None => Default::default() };
      Box::new(Inst { p, pool })
   }
   impl Driver for Inst {
      fn load(&mut self, rel: usize, rows: &[Sexp], append: bool) -> Option<()> {
         match rel {
         0 => { let v: Vec<(i64,i64,)> = parse_rows(rows)?; if !append { self.p.r0 = Default::default(); } for x in v { self.p.r0.push(x); } },
         1 => { let v: Vec<(i64,i64,)> = parse_rows(rows)?; if !append { self.p.r1 = Default::default(); } for x in v { self.p.r1.push(x); } },
         2 => { let v: Vec<(i64,)> = parse_rows(rows)?; if !append { self.p.r2 = Default::default(); } for x in v { self.p.r2.push(x); } },
         3 => { let v: Vec<(i64,i64,)> = parse_rows(rows)?; if !append { self.p.r3 = Default::default(); } for x in v { self.p.r3.push(x); } },
         4 => { let v: Vec<(i64,i64,)> = parse_rows(rows)?; if !append { self.p.r4 = Default::default(); } for x in v { self.p.r4.push(x); } },
            _ => return None,
         }
         Some(())
      }
      fn run(&mut self) { match &self.pool { Some(pl) => { let p = &mut self.p; pl.install(|| p.run()) }, None => self.p.run() } }
      fn run_here(&mut self) { self.p.run() }
      fn run_timeout(&mut self, k: usize) -> Option<bool> { let _ = k; None }
      fn dump(&self) -> String { vec![dump_rel(0, self.p.r0.iter().map(|x| x.render()).collect()), dump_rel(1, self.p.r1.iter().map(|x| x.render()).collect()), dump_rel(2, self.p.r2.iter().map(|x| x.render()).collect()), dump_rel(3, self.p.r3.iter().map(|x| x.render()).collect()), dump_rel(4, self.p.r4.iter().map(|x| x.render()).collect())].join(" | ") }
      fn iters(&self) -> String { format!("iters {}", self.p.scc_iters.iter().map(|x| x.to_string()).collect::<Vec<_>>().join(" ")) }
   }
}

#[allow(unused, non_snake_case, clippy::all)]
pub mod w15 {
   use ascent::*;
   use ascent::aggregators::*;
   use ascent::lattice::{Dual, set::Set};
   use crate::common::*;
   ascent_par! {
      #![inter_rule_parallelism]
      pub struct Prog;
      relation r0(i64, i64);
      relation r1(i64, i64);
      relation r2(i64, i64, i64);
      relation r3(i64, i64);
      r2(v0, v1, v9) <-- let v9 = 3, r3(v0, v1), r3(v1, v9);
      r2(2, v1, (v3 + 1)) <-- r2(3, v0, v1) if ((*v0) <= 2), r3(v0, v2) if ((*v1) < 1) let v3 = ((*v2) + 1), r1(((*v2) + 0), v3), if (v3 < 6);
      r2(v0, v0, v1) <-- let v0 = 1, r2(v1, v0, v0), if (v0 <= 6);
   }
   pub struct Inst { p: Prog, pool: Option<ascent::rayon::ThreadPool> }
   pub fn make(pool: Option<usize>) -> Box<dyn Driver> {
      let pool = pool.map(|n| ascent::rayon::ThreadPoolBuilder::new().num_threads(n).build().unwrap());
      let p = match &pool { Some(pl) => pl.install(|| Default::default()), None => Default::default() };
      Box::new(Inst { p, pool })
   }
   impl Driver for Inst {
      fn load(&mut self, rel: usize, rows: &[Sexp], append: bool) -> Option<()> {
         match rel {
         0 => { let v: Vec<(i64,i64,)> = parse_rows(rows)?; if !append { self.p.r0 = Default::default(); } for x in v { self.p.r0.push(x); } },
         1 => { let v: Vec<(i64,i64,)> = parse_rows(rows)?; if !append { self.p.r1 = Default::default(); } for x in v { self.p.r1.push(x); } },
         2 => { let v: Vec<(i64,i64,i64,)> = parse_rows(rows)?; if !append { self.p.r2 = Default::default(); } for x in v { self.p.r2.push(x); } },
         3 => { let v: Vec<(i64,i64,)> = parse_rows(rows)?; if !append { self.p.r3 = Default::default(); } for x in v { self.p.r3.push(x); } },
            _ => return None,
         }
         Some(())
      }
      fn run(&mut self) { match &self.pool { Some(pl) => { let p = &mut self.p; pl.install(|| p.run()) }, None => self.p.run() } }
      fn run_here(&mut self) { self.p.run() }
      fn run_timeout(&mut self, k: usize) -> Option<bool> { let _ = k; None }
      fn dump(&self) -> String { vec![dump_rel(0, self.p.r0.iter().map(|x| x.render()).collect()), dump_rel(1, self.p.r1.iter().map(|x| x.render()).collect()), dump_rel(2, self.p.r2.iter().map(|x| x.render()).collect()), dump_rel(3, self.p.r3.iter().map(|x| x.render()).collect())].join(" | ") }
      fn iters(&self) -> String { format!("iters {}", self.p.scc_iters.iter().map(|x| x.to_string()).collect::<Vec<_>>().join(" ")) }
   }
}

#[allow(unused, non_snake_case, clippy::all)]
pub mod w23 {
   use ascent::*;
   use ascent::aggregators::*;
   use ascent::lattice::{Dual, set::Set};
   use crate::common::*;
   ascent_par! {
      #![inter_rule_parallelism]
      pub struct Prog;
      relation r0(i64, i64);
      relation r1(i64, i64);
      relation r2(i64, i64);
      relation r3(i64, i64);
      relation r4(i64, i64, i64);
      r2(v0, v0) <-- r1(v0, 2);
      r3(v1, v1) <-- r2(v0, v1), r1(1, v2);
      r4(v1, ((*v1) + 1), v0) <-- let v0 = 3, r3(v1, 2), if ((*v1) < 6), if (v0 <= 6);
      r2(v0, v1) <-- r1(v0, v1), r0(((*v0) + 1), v2);
      r2(v0, v2) <-- r3(v0, v1), r3(v1, v2), r3(v2, v3);
      r2(((*v2) + 1), v2) <-- if let Some(v0) = Some(3), r4(v1, v2, 1), if ((*v2) < 6);
      r3(v2, v2) <-- r4(v0, v1, v2);
      r3(2, v2) <-- r2(v0, v1), r3(v2, v3), r2(v4, ((*v2) + 1)), let v5 = (*v1);
   }
   pub struct Inst { p: Prog, pool: Option<ascent::rayon::ThreadPool> }
   pub fn make(pool: Option<usize>) -> Box<dyn Driver> {
      let pool = pool.map(|n| ascent::rayon::ThreadPoolBuilder::new().num_threads(n).build().unwrap());
      let p = match &pool { Some(pl) => pl.install(|| Default::default()), None => Default::default() };
      Box::new(Inst { p, pool })
   }
   impl Driver for Inst {
      fn load(&mut self, rel: usize, rows: &[Sexp], append: bool) -> Option<()> {
         match rel {
         0 => { let v: Vec<(i64,i64,)> = parse_rows(rows)?; if !append { self.p.r0 = Default::default(); } for x in v { self.p.r0.push(x); } },
         1 => { let v: Vec<(i64,i64,)> = parse_rows(rows)?; if !append { self.p.r1 = Default::default(); } for x in v { self.p.r1.push(x); } },
         2 => { let v: Vec<(i64,i64,)> = parse_rows(rows)?; if !append { self.p.r2 = Default::default(); } for x in v { self.p.r2.push(x); } },
         3 => { let v: Vec<(i64,i64,)> = parse_rows(rows)?; if !append { self.p.r3 = Default::default(); } for x in v { self.p.r3.push(x); } },
         4 => { let v: Vec<(i64,i64,i64,)> = parse_rows(rows)?; if !append { self.p.r4 = Default::default(); } for x in v { self.p.r4.push(x); } },
            _ => return None,
         }
         Some(())
      }
      fn run(&mut self) { match &self.pool { Some(pl) => { let p = &mut self.p; pl.install(|| p.run()) }, None => self.p.run() } }
      fn run_here(&mut self) { self.p.run() }
      fn run_timeout(&mut self, k: usize) -> Option<bool> { let _ = k; None }
      fn dump(&self) -> String { vec![dump_rel(0, self.p.r0.iter().map(|x| x.render()).collect()), dump_rel(1, self.p.r1.iter().map(|x| x.render()).collect()), dump_rel(2, self.p.r2.iter().map(|x| x.render()).collect()), dump_rel(3, self.p.r3.iter().map(|x| x.render()).collect()), dump_rel(4, self.p.r4.iter().map(|x| x.render()).collect())].join(" | ") }
      fn iters(&self) -> String { format!("iters {}", self.p.scc_iters.iter().map(|x| x.to_string()).collect::<Vec<_>>().join(" ")) }
   }
}

#[allow(unused, non_snake_case, clippy::all)]
pub mod w31 {
   use ascent::*;
   use ascent::aggregators::*;
   use ascent::lattice::{Dual, set::Set};
   use crate::common::*;
   ascent_par! {
      #![inter_rule_parallelism]
      pub struct Prog;
      relation r0(i64, i64);
      relation r1(i64, i64);
      relation r2(i64, i64);
      r1(v0, v1) <-- let v0 = 3, r0(v1, v0), if (v0 <= 6);
      r1(((*v0) + 1), v0) <-- r1(v0, v1), r0(((*v1) + 0), v1), if ((*v0) < 6);
      r1(v0, v1) <-- let v9 = 3, r2(v0, v1), r2(v1, v9);
      r1(v0, v1) <-- r1(v0, v1), r0(((*v0) + 1), v2);
      r0((v2 + 1), 2) <-- r1(v0, v1) if ((*v1) != 3) let v2 = ((*v1) + 0), r1(v0, v0) if ((*v1) != 4), if (v2 < 6);
   }
   pub struct Inst { p: Prog, pool: Option<ascent::rayon::ThreadPool> }
   pub fn make(pool: Option<usize>) -> Box<dyn Driver> {
      let pool = pool.map(|n| ascent::rayon::ThreadPoolBuilder::new().num_threads(n).build().unwrap());
      let p = match &pool { Some(pl) => pl.install(|| Default::default()), None => Default::default() };
      Box::new(Inst { p, pool })
   }
   impl Driver for Inst {
      fn load(&mut self, rel: usize, rows: &[Sexp], append: bool) -> Option<()> {
         match rel {
         0 => { let v: Vec<(i64,i64,)> = parse_rows(rows)?; if !append { self.p.r0 = Default::default(); } for x in v { self.p.r0.push(x); } },
         1 => { let v: Vec<(i64,i64,)> = parse_rows(rows)?; if !append { self.p.r1 = Default::default(); } for x in v { self.p.r1.push(x); } },
         2 => { let v: Vec<(i64,i64,)> = parse_rows(rows)?; if !append { self.p.r2 = Default::default(); } for x in v { self.p.r2.push(x); } },
            _ => return None,
         }
         Some(())
      }
      fn run(&mut self) { match &self.pool { Some(pl) => { let p = &mut self.p; pl.install(|| p.run()) }, None => self.p.run() } }
      fn run_here(&mut self) { self.p.run() }
      fn run_timeout(&mut self, k: usize) -> Option<bool> { let _ = k; None }
      fn dump(&self) -> String { vec![dump_rel(0, self.p.r0.iter().map(|x| x.render()).collect()), dump_rel(1, self.p.r1.iter().map(|x| x.render()).collect()), dump_rel(2, self.p.r2.iter().map(|x| x.render()).collect())].join(" | ") }
      fn iters(&self) -> String { format!("iters {}", self.p.scc_iters.iter().map(|x| x.to_string()).collect::<Vec<_>>().join(" ")) }
   }
}

#[allow(unused, non_snake_case, clippy::all)]
pub mod w39 {
   use ascent::*;
   use ascent::aggregators::*;
   use ascent::lattice::{Dual, set::Set};
   use crate::common::*;
   ascent_par! {
      #![inter_rule_parallelism]
      pub struct Prog;
      relation r0(i64, i64);
      relation r1(i64, i64);
      relation r2(i64);
      relation r3(i64, i64);
      relation r4(i64);
      relation r5(i64, i64);
      r1(v0, v8) <-- if let Some(v9) = Some(1), r1(v0, v1), r1(v1, v9) let v8 = ((*v0) + 1);
      r3(v0, v1) <-- let v9 = 2, r0(v0, v1), r0(v1, v9);
      r3(0, v0) <-- for v0 in 1..2, r4(v0), r0(v0, v1), if (v0 == 0), r1(v1, v2) if ((*v1) != 6) let v3 = (v0 + 0);
   }
   pub struct Inst { p: Prog, pool: Option<ascent::rayon::ThreadPool> }
   pub fn make(pool: Option<usize>) -> Box<dyn Driver> {
      let pool = pool.map(|n| ascent::rayon::ThreadPoolBuilder::new().num_threads(n).build().unwrap());
      let p = match &pool { Some(pl) => pl.install(|| Default::default()), None => Default::default() };
      Box::new(Inst { p, pool })
   }
   impl Driver for Inst {
      fn load(&mut self, rel: usize, rows: &[Sexp], append: bool) -> Option<()> {
         match rel {
         0 => { let v: Vec<(i64,i64,)> = parse_rows(rows)?; if !append { self.p.r0 = Default::default(); } for x in v { self.p.r0.push(x); } },
         1 => { let v: Vec<(i64,i64,)> = parse_rows(rows)?; if !append { self.p.r1 = Default::default(); } for x in v { self.p.r1.push(x); } },
         2 => { let v: Vec<(i64,)> = parse_rows(rows)?; if !append { self.p.r2 = Default::default(); } for x in v { self.p.r2.push(x); } },
         3 => { let v: Vec<(i64,i64,)> = parse_rows(rows)?; if !append { self.p.r3 = Default::default(); } for x in v { self.p.r3.push(x); } },
         4 => { let v: Vec<(i64,)> = parse_rows(rows)?; if !append { self.p.r4 = Default::default(); } for x in v { self.p.r4.push(x); } },
         5 => { let v: Vec<(i64,i64,)> = parse_rows(rows)?; if !append { self.p.r5 = Default::default(); } for x in v { self.p.r5.push(x); } },
            _ => return None,
         }
         Some(())
      }
      fn run(&mut self) { match &self.pool { Some(pl) => { let p = &mut self.p; pl.install(|| p.run()) }, None => self.p.run() } }
      fn run_here(&mut self) { self.p.run() }
      fn run_timeout(&mut self, k: usize) -> Option<bool> { let _ = k; None }
      fn dump(&self) -> String { vec![dump_rel(0, self.p.r0.iter().map(|x| x.render()).collect()), dump_rel(1, self.p.r1.iter().map(|x| x.render()).collect()), dump_rel(2, self.p.r2.iter().map(|x| x.render()).collect()), dump_rel(3, self.p.r3.iter().map(|x| x.render()).collect()), dump_rel(4, self.p.r4.iter().map(|x| x.render()).collect()), dump_rel(5, self.p.r5.iter().map(|x| x.render()).collect())].join(" | ") }
      fn iters(&self) -> String { format!("iters {}", self.p.scc_iters.iter().map(|x| x.to_string()).collect::<Vec<_>>().join(" ")) }
   }
}

#[allow(unused, non_snake_case, clippy::all)]
pub mod w47 {
   use ascent::*;
   use ascent::aggregators::*;
   use ascent::lattice::{Dual, set::Set};
   use crate::common::*;
   ascent_par! {
      #![inter_rule_parallelism]
      pub struct Prog;
      relation r0(i64, i64);
      relation r1(i64);
      relation r2(i64, i64, i64);
      lattice r3(Set<i64>);
      lattice r4(i64, Option<i64>);
      r3(Set::singleton((*v1))) <-- r2(v0, 1, v1) if ((*v1) < 4);
      r3(v0) <-- r3(v0), r1(v1);
      r4(v0, Some((*v0))) <-- r1(v0);
      r4(v0, Some((*v2))) <-- r4(v0, v1), r0(v2, v3);
      r0(v1, v3) <-- r0(v0, v1) if ((*v0) < 3), r0(v2, v3) if ((*v2) < 3);
      r4(1, None) <-- r4(v0, v1), r4(v2, v3);
      r2(((*v0) + 1), v0, v0) <-- r1(v0), r3(v1), if ((*v0) < 6);
      r4(1, Some(1)) <-- r3(v0);
   }
   pub struct Inst { p: Prog, pool: Option<ascent::rayon::ThreadPool> }
   pub fn make(pool: Option<usize>) -> Box<dyn Driver> {
      let pool = pool.map(|n| ascent::rayon::ThreadPoolBuilder::new().num_threads(n).build().unwrap());
      let p = match &pool { Some(pl) => pl.install(|| Default::default()), None => Default::default() };
      Box::new(Inst { p, pool })
   }
   impl Driver for Inst {
      fn load(&mut self, rel: usize, rows: &[Sexp], append: bool) -> Option<()> {
         match rel {
         0 => { let v: Vec<(i64,i64,)> = parse_rows(rows)?; if !append { self.p.r0 = Default::default(); } for x in v { self.p.r0.push(x); } },
         1 => { let v: Vec<(i64,)> = parse_rows(rows)?; if !append { self.p.r1 = Default::default(); } for x in v { self.p.r1.push(x); } },
         2 => { let v: Vec<(i64,i64,i64,)> = parse_rows(rows)?; if !append { self.p.r2 = Default::default(); } for x in v { self.p.r2.push(x); } },
         3 => { let v: Vec<(Set<i64>,)> = parse_rows(rows)?; if !append { self.p.r3 = Default::default(); } for x in v { self.p.r3.push(std::sync::RwLock::new(x)); } },
         4 => { let v: Vec<(i64,Option<i64>,)> = parse_rows(rows)?; if !append { self.p.r4 = Default::default(); } for x in v { self.p.r4.push(std::sync::RwLock::new(x)); } },
            _ => return None,
         }
         Some(())
      }
      fn run(&mut self) { match &self.pool { Some(pl) => { let p = &mut self.p; pl.install(|| p.run()) }, None => self.p.run() } }
      fn run_here(&mut self) { self.p.run() }
      fn run_timeout(&mut self, k: usize) -> Option<bool> { let _ = k; None }
      fn dump(&self) -> String { vec![dump_rel(0, self.p.r0.iter().map(|x| x.render()).collect()), dump_rel(1, self.p.r1.iter().map(|x| x.render()).collect()), dump_rel(2, self.p.r2.iter().map(|x| x.render()).collect()), dump_rel(3, self.p.r3.iter().map(|x| x.read().unwrap().render()).collect()), dump_rel(4, self.p.r4.iter().map(|x| x.read().unwrap().render()).collect())].join(" | ") }
      fn iters(&self) -> String { format!("iters {}", self.p.scc_iters.iter().map(|x| x.to_string()).collect::<Vec<_>>().join(" ")) }
   }
}

#[allow(unused, non_snake_case, clippy::all)]
pub mod w55 {
   use ascent::*;
   use ascent::aggregators::*;
   use ascent::lattice::{Dual, set::Set};
   use crate::common::*;
   ascent_par! {
      #![inter_rule_parallelism]
      pub struct Prog;
      relation r0(i64);
      relation r1(i64, i64);
      lattice r2(i64, i64, Dual<i64>);
      lattice r3(i64, Dual<i64>);
      r2(1, v0, Dual((*v0))) <-- r0(v0);
      r2(v3, v1, v2) <-- r2(v0, v1, v2), r1(v3, v3);
      r3(v0, Dual((*v0))) <-- r0(v0);
      r3(v0, Dual(((v1.0) + 0))) <-- r3(v0, v1), r1(1, v0);
      r2(v0, v0, Dual((*v0))) <-- r1(v0, v0), r0(v0);
      r2(v0, v0, Dual(3)) <-- r2(v0, v0, v1), r0(v0);
      r3(((*v1) + 1), Dual(((v2.0) + 1))) <-- r2(v0, v1, v2) if ((*v0) < 2), if ((*v1) < 6);
   }
   pub struct Inst { p: Prog, pool: Option<ascent::rayon::ThreadPool> }
   pub fn make(pool: Option<usize>) -> Box<dyn Driver> {
      let pool = pool.map(|n| ascent::rayon::ThreadPoolBuilder::new().num_threads(n).build().unwrap());
      let p = match &pool { Some(pl) => pl.install(|| Default::default()), None => Default::default() };
      Box::new(Inst { p, pool })
   }
   impl Driver for Inst {
      fn load(&mut self, rel: usize, rows: &[Sexp], append: bool) -> Option<()> {
         match rel {
         0 => { let v: Vec<(i64,)> = parse_rows(rows)?; if !append { self.p.r0 = Default::default(); } for x in v { self.p.r0.push(x); } },
         1 => { let v: Vec<(i64,i64,)> = parse_rows(rows)?; if !append { self.p.r1 = Default::default(); } for x in v { self.p.r1.push(x); } },
         2 => { let v: Vec<(i64,i64,Dual<i64>,)> = parse_rows(rows)?; if !append { self.p.r2 = Default::default(); } for x in v { self.p.r2.push(std::sync::RwLock::new(x)); } },
         3 => { let v: Vec<(i64,Dual<i64>,)> = parse_rows(rows)?; if !append { self.p.r3 = Default::default(); } for x in v { self.p.r3.push(std::sync::RwLock::new(x)); } },
            _ => return None,
         }
         Some(())
      }
      fn run(&mut self) { match &self.pool { Some(pl) => { let p = &mut self.p; pl.install(|| p.run()) }, None => self.p.run() } }
      fn run_here(&mut self) { self.p.run() }
      fn run_timeout(&mut self, k: usize) -> Option<bool> { let _ = k; None }
      fn dump(&self) -> String { vec![dump_rel(0, self.p.r0.iter().map(|x| x.render()).collect()), dump_rel(1, self.p.r1.iter().map(|x| x.render()).collect()), dump_rel(2, self.p.r2.iter().map(|x| x.read().unwrap().render()).collect()), dump_rel(3, self.p.r3.iter().map(|x| x.read().unwrap().render()).collect())].join(" | ") }
      fn iters(&self) -> String { format!("iters {}", self.p.scc_iters.iter().map(|x| x.to_string()).collect::<Vec<_>>().join(" ")) }
   }
}

#[allow(unused, non_snake_case, clippy::all)]
pub mod w63 {
   use ascent::*;
   use ascent::aggregators::*;
   use ascent::lattice::{Dual, set::Set};
   use crate::common::*;
   ascent_par! {
      #![inter_rule_parallelism]
      pub struct Prog;
      relation r0(i64, i64);
      relation r1(i64, i64);
      relation r2(i64);
      lattice r3(i64, Set<i64>);
      lattice r4(i64, Set<i64>);
      r3(v0, Set::singleton((*v1))) <-- r1(v0, v1);
      r3(v1, v2) <-- r3(v0, v2), r1(v0, v1);
      r3(((*v0) + 1), Set::singleton((*v0))) <-- r2(v0), if ((*v0) < 6);
      r3(v2, v1) <-- r3(v0, v1) if ((*v0) < 3), r0(v2, v0) if ((*v2) < 4);
      r3(v0, v2) <-- r3(v0, v1), r3(v0, v2);
      r4(v0, Set::singleton((*v1))) <-- r0(v0, v1);
      r4(v1, v2) <-- r4(v0, v2), r1(v0, v1);
      r4(v0, Set::singleton((*v0))) <-- r1(v0, v0);
      r4(v2, v1) <-- r4(v0, v1) if ((*v0) < 6), r0(v2, v3);
      r3(v0, Set::singleton(1)) <-- r4(v0, v1) if ((*v0) < 4), r3(v2, v3);
      r0(v0, v1) <-- r0(v0, v1) if ((*v1) < 2);
      r4(v0, Set::singleton(1)) <-- r3(v0, v1);
   }
   pub struct Inst { p: Prog, pool: Option<ascent::rayon::ThreadPool> }
   pub fn make(pool: Option<usize>) -> Box<dyn Driver> {
      let pool = pool.map(|n| ascent::rayon::ThreadPoolBuilder::new().num_threads(n).build().unwrap());
      let p = match &pool { Some(pl) => pl.install(|| Default::default()), None => Default::default() };
      Box::new(Inst { p, pool })
   }
   impl Driver for Inst {
      fn load(&mut self, rel: usize, rows: &[Sexp], append: bool) -> Option<()> {
         match rel {
         0 => { let v: Vec<(i64,i64,)> = parse_rows(rows)?; if !append { self.p.r0 = Default::default(); } for x in v { self.p.r0.push(x); } },
         1 => { let v: Vec<(i64,i64,)> = parse_rows(rows)?; if !append { self.p.r1 = Default::default(); } for x in v { self.p.r1.push(x); } },
         2 => { let v: Vec<(i64,)> = parse_rows(rows)?; if !append { self.p.r2 = Default::default(); } for x in v { self.p.r2.push(x); } },
         3 => { let v: Vec<(i64,Set<i64>,)> = parse_rows(rows)?; if !append { self.p.r3 = Default::default(); } for x in v { self.p.r3.push(std::sync::RwLock::new(x)); } },
         4 => { let v: Vec<(i64,Set<i64>,)> = parse_rows(rows)?; if !append { self.p.r4 = Default::default(); } for x in v { self.p.r4.push(std::sync::RwLock::new(x)); } },
            _ => return None,
         }
         Some(())
      }
      fn run(&mut self) { match &self.pool { Some(pl) => { let p = &mut self.p; pl.install(|| p.run()) }, None => self.p.run() } }
      fn run_here(&mut self) { self.p.run() }
      fn run_timeout(&mut self, k: usize) -> Option<bool> { let _ = k; None }
      fn dump(&self) -> String { vec![dump_rel(0, self.p.r0.iter().map(|x| x.render()).collect()), dump_rel(1, self.p.r1.iter().map(|x| x.render()).collect()), dump_rel(2, self.p.r2.iter().map(|x| x.render()).collect()), dump_rel(3, self.p.r3.iter().map(|x| x.read().unwrap().render()).collect()), dump_rel(4, self.p.r4.iter().map(|x| x.read().unwrap().render()).collect())].join(" | ") }
      fn iters(&self) -> String { format!("iters {}", self.p.scc_iters.iter().map(|x| x.to_string()).collect::<Vec<_>>().join(" ")) }
   }
}

#[allow(unused, non_snake_case, clippy::all)]
pub mod w71 {
   use ascent::*;
   use ascent::aggregators::*;
   use ascent::lattice::{Dual, set::Set};
   use crate::common::*;
   ascent_par! {
      #![inter_rule_parallelism]
      pub struct Prog;
      relation r0(i64);
      relation r1(i64, i64);
      relation r2(i64, i64);
      relation r3(i64, i64, i64);
      lattice r4(i64, Dual<i64>);
      r4(v0, Dual((*v0))) <-- r0(v0);
      r0(v1) <-- r2(v0, v0), r4(v1, v2) if ((*v1) < 6);
      r2(v2, v2) <-- r4(v0, v1), r2(v0, v2) if ((*v2) < 5);
      r4(v0, Dual((*v0))) <-- r0(v0), r3(v0, v1, v2);
   }
   pub struct Inst { p: Prog, pool: Option<ascent::rayon::ThreadPool> }
   pub fn make(pool: Option<usize>) -> Box<dyn Driver> {
      let pool = pool.map(|n| ascent::rayon::ThreadPoolBuilder::new().num_threads(n).build().unwrap());
      let p = match &pool { Some(pl) => pl.install(|| Default::default()), None => Default::default() };
      Box::new(Inst { p, pool })
   }
   impl Driver for Inst {
      fn load(&mut self, rel: usize, rows: &[Sexp], append: bool) -> Option<()> {
         match rel {
         0 => { let v: Vec<(i64,)> = parse_rows(rows)?; if !append { self.p.r0 = Default::default(); } for x in v { self.p.r0.push(x); } },
         1 => { let v: Vec<(i64,i64,)> = parse_rows(rows)?; if !append { self.p.r1 = Default::default(); } for x in v { self.p.r1.push(x); } },
         2 => { let v: Vec<(i64,i64,)> = parse_rows(rows)?; if !append { self.p.r2 = Default::default(); } for x in v { self.p.r2.push(x); } },
         3 => { let v: Vec<(i64,i64,i64,)> = parse_rows(rows)?; if !append { self.p.r3 = Default::default(); } for x in v { self.p.r3.push(x); } },
         4 => { let v: Vec<(i64,Dual<i64>,)> = parse_rows(rows)?; if !append { self.p.r4 = Default::default(); } for x in v { self.p.r4.push(std::sync::RwLock::new(x)); } },
            _ => return None,
         }
         Some(())
      }
      fn run(&mut self) { match &self.pool { Some(pl) => { let p = &mut self.p; pl.install(|| p.run()) }, None => self.p.run() } }
      fn run_here(&mut self) { self.p.run() }
      fn run_timeout(&mut self, k: usize) -> Option<bool> { let _ = k; None }
      fn dump(&self) -> String { vec![dump_rel(0, self.p.r0.iter().map(|x| x.render()).collect()), dump_rel(1, self.p.r1.iter().map(|x| x.render()).collect()), dump_rel(2, self.p.r2.iter().map(|x| x.render()).collect()), dump_rel(3, self.p.r3.iter().map(|x| x.render()).collect()), dump_rel(4, self.p.r4.iter().map(|x| x.read().unwrap().render()).collect())].join(" | ") }
      fn iters(&self) -> String { format!("iters {}", self.p.scc_iters.iter().map(|x| x.to_string()).collect::<Vec<_>>().join(" ")) }
   }
}

#[allow(unused, non_snake_case, clippy::all)]
pub mod w79 {
   use ascent::*;
   use ascent::aggregators::*;
   use ascent::lattice::{Dual, set::Set};
   use crate::common::*;
   ascent_par! {
      #![inter_rule_parallelism]
      pub struct Prog;
      relation r0(i64);
      relation r1(i64, i64, i64);
      lattice r2(Dual<i64>);
      lattice r3(i64, Set<i64>);
      r2(Dual((*v0))) <-- r1(v0, v1, v1);
      r3(((*v0) + 1), Set::singleton(0)) <-- r0(v0), if ((*v0) < 6);
      r1(0, v1, 2) <-- r0(v0), r1(v1, 3, v2) if ((*v2) < 4);
      r2(Dual(4)) <-- r2(v0);
      r0(v0) <-- r0(v0) if ((*v0) < 6), r3(v0, v1);
   }
   pub struct Inst { p: Prog, pool: Option<ascent::rayon::ThreadPool> }
   pub fn make(pool: Option<usize>) -> Box<dyn Driver> {
      let pool = pool.map(|n| ascent::rayon::ThreadPoolBuilder::new().num_threads(n).build().unwrap());
      let p = match &pool { Some(pl) => pl.install(|| Default::default()), None => Default::default() };
      Box::new(Inst { p, pool })
   }
   impl Driver for Inst {
      fn load(&mut self, rel: usize, rows: &[Sexp], append: bool) -> Option<()> {
         match rel {
         0 => { let v: Vec<(i64,)> = parse_rows(rows)?; if !append { self.p.r0 = Default::default(); } for x in v { self.p.r0.push(x); } },
         1 => { let v: Vec<(i64,i64,i64,)> = parse_rows(rows)?; if !append { self.p.r1 = Default::default(); } for x in v { self.p.r1.push(x); } },
         2 => { let v: Vec<(Dual<i64>,)> = parse_rows(rows)?; if !append { self.p.r2 = Default::default(); } for x in v { self.p.r2.push(std::sync::RwLock::new(x)); } },
         3 => { let v: Vec<(i64,Set<i64>,)> = parse_rows(rows)?; if !append { self.p.r3 = Default::default(); } for x in v { self.p.r3.push(std::sync::RwLock::new(x)); } },
            _ => return None,
         }
         Some(())
      }
      fn run(&mut self) { match &self.pool { Some(pl) => { let p = &mut self.p; pl.install(|| p.run()) }, None => self.p.run() } }
      fn run_here(&mut self) { self.p.run() }
      fn run_timeout(&mut self, k: usize) -> Option<bool> { let _ = k; None }
      fn dump(&self) -> String { vec![dump_rel(0, self.p.r0.iter().map(|x| x.render()).collect()), dump_rel(1, self.p.r1.iter().map(|x| x.render()).collect()), dump_rel(2, self.p.r2.iter().map(|x| x.read().unwrap().render()).collect()), dump_rel(3, self.p.r3.iter().map(|x| x.read().unwrap().render()).collect())].join(" | ") }
      fn iters(&self) -> String { format!("iters {}", self.p.scc_iters.iter().map(|x| x.to_string()).collect::<Vec<_>>().join(" ")) }
   }
}

#[allow(unused, non_snake_case, clippy::all)]
pub mod w87 {
   use ascent::*;
   use ascent::aggregators::*;
   use ascent::lattice::{Dual, set::Set};
   use crate::common::*;
   ascent_par! {
      #![inter_rule_parallelism]
      pub struct Prog;
      relation r0(i64, i64);
      relation r1(i64, i64, i64);
      relation r2(i64);
      relation r3(i64, i64);
      relation r4(i64);
      relation r5(i64);
      relation r6(i64, i64);
      relation r7(i64);
      r1(v0, v0, 3) <-- for v0 in 2..4, r0(0, (v0 + 0));
      r2(((*v0) + 1)) <-- r0(v0, 0), for v1 in [1, 0, 2], if ((*v0) < 6);
      r3(v1, v1) <-- r1(v0, v1, v2), r2(v2);
      r3(v0, v1) <-- r0(v0, v1), r3(v1, v1);
      r3((v0 + 1), (v0 + 1)) <-- if let Some(v0) = Some(3), if (v0 < 6), if (v0 < 6);
      r1(v0, v3, v2) <-- r2(v0) if ((*v0) < 3) let v1 = ((*v0) + 1), r3(v2, v3), for v4 in 1..4, r3(((*v0) + 1), v5);
      r3(0, 0);
      r1(v0, 3, v0) <-- for v0 in [2, 4, 2], r2(v1);
      r4(v0) <-- r0(v0, v1), agg v21 = count() in r0(_, (*v1));
      r5(v1) <-- r1(v0, v1, v2), agg v21 = max(v20) in r1((*v1), (*v0), v20);
      r6(v0, (v21 as i64)) <-- r0(v0, v1), agg v21 = count() in r3((*v0), _);
      r7(v0) <-- r1(v0, v1, v2), r1(v0, v33, v34), agg v21 = count() in r1(_, 2, (*v33));
   }
   pub struct Inst { p: Prog, pool: Option<ascent::rayon::ThreadPool> }
   pub fn make(pool: Option<usize>) -> Box<dyn Driver> {
      let pool = pool.map(|n| ascent::rayon::ThreadPoolBuilder::new().num_threads(n).build().unwrap());
      let p = match &pool { Some(pl) => pl.install(|| Default::default()), None => Default::default() };
      Box::new(Inst { p, pool })
   }
   impl Driver for Inst {
      fn load(&mut self, rel: usize, rows: &[Sexp], append: bool) -> Option<()> {
         match rel {
         0 => { let v: Vec<(i64,i64,)> = parse_rows(rows)?; if !append { self.p.r0 = Default::default(); } for x in v { self.p.r0.push(x); } },
         1 => { let v: Vec<(i64,i64,i64,)> = parse_rows(rows)?; if !append { self.p.r1 = Default::default(); } for x in v { self.p.r1.push(x); } },
         2 => { let v: Vec<(i64,)> = parse_rows(rows)?; if !append { self.p.r2 = Default::default(); } for x in v { self.p.r2.push(x); } },
         3 => { let v: Vec<(i64,i64,)> = parse_rows(rows)?; if !append { self.p.r3 = Default::default(); } for x in v { self.p.r3.push(x); } },
         4 => { let v: Vec<(i64,)> = parse_rows(rows)?; if !append { self.p.r4 = Default::default(); } for x in v { self.p.r4.push(x); } },
         5 => { let v: Vec<(i64,)> = parse_rows(rows)?; if !append { self.p.r5 = Default::default(); } for x in v { self.p.r5.push(x); } },
         6 => { let v: Vec<(i64,i64,)> = parse_rows(rows)?; if !append { self.p.r6 = Default::default(); } for x in v { self.p.r6.push(x); } },
         7 => { let v: Vec<(i64,)> = parse_rows(rows)?; if !append { self.p.r7 = Default::default(); } for x in v { self.p.r7.push(x); } },
            _ => return None,
         }
         Some(())
      }
      fn run(&mut self) { match &self.pool { Some(pl) => { let p = &mut self.p; pl.install(|| p.run()) }, None => self.p.run() } }
      fn run_here(&mut self) { self.p.run() }
      fn run_timeout(&mut self, k: usize) -> Option<bool> { let _ = k; None }
      fn dump(&self) -> String { vec![dump_rel(0, self.p.r0.iter().map(|x| x.render()).collect()), dump_rel(1, self.p.r1.iter().map(|x| x.render()).collect()), dump_rel(2, self.p.r2.iter().map(|x| x.render()).collect()), dump_rel(3, self.p.r3.iter().map(|x| x.render()).collect()), dump_rel(4, self.p.r4.iter().map(|x| x.render()).collect()), dump_rel(5, self.p.r5.iter().map(|x| x.render()).collect()), dump_rel(6, self.p.r6.iter().map(|x| x.render()).collect()), dump_rel(7, self.p.r7.iter().map(|x| x.render()).collect())].join(" | ") }
      fn iters(&self) -> String { format!("iters {}", self.p.scc_iters.iter().map(|x| x.to_string()).collect::<Vec<_>>().join(" ")) }
   }
}

#[allow(unused, non_snake_case, clippy::all)]
pub mod w95 {
   use ascent::*;
   use ascent::aggregators::*;
   use ascent::lattice::{Dual, set::Set};
   use crate::common::*;
   ascent_par! {
      #![inter_rule_parallelism]
      pub struct Prog;
      relation r0(i64, i64);
      relation r1(i64, i64);
      relation r2(i64, i64);
      relation r3(i64, i64);
      relation r4(i64);
      relation r5(i64, i64);
      relation r6(i64, i64);
      relation r7(i64);
      r3(v0, v8) <-- if let Some(v9) = Some(0), r2(v0, v1), r0(v1, v9) let v8 = ((*v0) + 1);
      r0(v0, v0) <-- if let Some(v0) = Some(3), r1((v0 + 1), v0), r0((v0 + 0), v0), if (v0 <= 6);
      r0(v0, v0) <-- r1(v0, v1);
      r4(v0) <-- r0(v0, v1), agg v21 = min(v20) in r3((*v1), v20);
      r5(v1, 2) <-- r3(v0, v1), agg () = not() in r4((*v0));
      r6(v32, 0) <-- r2(v0, v1), r0(v32, v32), r2(v33, v34), agg () = not() in r2((*v33), _);
      r7(v0) <-- r2(v0, v1), agg v21 = count() in r6(_, (*v1));
   }
   pub struct Inst { p: Prog, pool: Option<ascent::rayon::ThreadPool> }
   pub fn make(pool: Option<usize>) -> Box<dyn Driver> {
      let pool = pool.map(|n| ascent::rayon::ThreadPoolBuilder::new().num_threads(n).build().unwrap());
      let p = match &pool { Some(pl) => pl.install(|| Default::default()), None => Default::default() };
      Box::new(Inst { p, pool })
   }
   impl Driver for Inst {
      fn load(&mut self, rel: usize, rows: &[Sexp], append: bool) -> Option<()> {
         match rel {
         0 => { let v: Vec<(i64,i64,)> = parse_rows(rows)?; if !append { self.p.r0 = Default::default(); } for x in v { self.p.r0.push(x); } },
         1 => { let v: Vec<(i64,i64,)> = parse_rows(rows)?; if !append { self.p.r1 = Default::default(); } for x in v { self.p.r1.push(x); } },
         2 => { let v: Vec<(i64,i64,)> = parse_rows(rows)?; if !append { self.p.r2 = Default::default(); } for x in v { self.p.r2.push(x); } },
         3 => { let v: Vec<(i64,i64,)> = parse_rows(rows)?; if !append { self.p.r3 = Default::default(); } for x in v { self.p.r3.push(x); } },
         4 => { let v: Vec<(i64,)> = parse_rows(rows)?; if !append { self.p.r4 = Default::default(); } for x in v { self.p.r4.push(x); } },
         5 => { let v: Vec<(i64,i64,)> = parse_rows(rows)?; if !append { self.p.r5 = Default::default(); } for x in v { self.p.r5.push(x); } },
         6 => { let v: Vec<(i64,i64,)> = parse_rows(rows)?; if !append { self.p.r6 = Default::default(); } for x in v { self.p.r6.push(x); } },
         7 => { let v: Vec<(i64,)> = parse_rows(rows)?; if !append { self.p.r7 = Default::default(); } for x in v { self.p.r7.push(x); } },
            _ => return None,
         }
         Some(())
      }
      fn run(&mut self) { match &self.pool { Some(pl) => { let p = &mut self.p; pl.install(|| p.run()) }, None => self.p.run() } }
      fn run_here(&mut self) { self.p.run() }
      fn run_timeout(&mut self, k: usize) -> Option<bool> { let _ = k; None }
      fn dump(&self) -> String { vec![dump_rel(0, self.p.r0.iter().map(|x| x.render()).collect()), dump_rel(1, self.p.r1.iter().map(|x| x.render()).collect()), dump_rel(2, self.p.r2.iter().map(|x| x.render()).collect()), dump_rel(3, self.p.r3.iter().map(|x| x.render()).collect()), dump_rel(4, self.p.r4.iter().map(|x| x.render()).collect()), dump_rel(5, self.p.r5.iter().map(|x| x.render()).collect()), dump_rel(6, self.p.r6.iter().map(|x| x.render()).collect()), dump_rel(7, self.p.r7.iter().map(|x| x.render()).collect())].join(" | ") }
      fn iters(&self) -> String { format!("iters {}", self.p.scc_iters.iter().map(|x| x.to_string()).collect::<Vec<_>>().join(" ")) }
   }
}

fn main() {
   common::main_loop(&[("w7", w7::make as common::Factory), ("w15", w15::make as common::Factory), ("w23", w23::make as common::Factory), ("w31", w31::make as common::Factory), ("w39", w39::make as common::Factory), ("w47", w47::make as common::Factory), ("w55", w55::make as common::Factory), ("w63", w63::make as common::Factory), ("w71", w71::make as common::Factory), ("w79", w79::make as common::Factory), ("w87", w87::make as common::Factory), ("w95", w95::make as common::Factory)]);
}
