#[path = "common.rs"]
mod common;
#[allow(unused, non_snake_case, clippy::all)]
pub mod p0 {
   use ascent::*;
   use ascent::aggregators::*;
   use ascent::lattice::{Dual, set::Set};
   use crate::common::*;
   ascent! {
      pub struct Prog;
      relation r0(i64);
      relation r1(i64);
      relation r2(i64, i64);
      r2(v0, v1) <-- r2(v0, v1), r2(v0, v0), r2(v1, v2);
      r2(((*v0) + 1), v0) <-- r1(v0), r0(v1), if ((*v0) < 6);
      r2(0, v1) <-- if let Some(v0) = Some(3), r1(v0), r2(v1, v2), if let Some(v3) = Some(4), r0(v2), if let Some(v4) = Some(v0);
   }
   pub struct Inst { p: Prog, pool: Option<ascent::rayon::ThreadPool> }
   pub fn make(pool: Option<usize>) -> Box<dyn Driver> {
      let pool = pool.map(|n| ascent::rayon::ThreadPoolBuilder::new().num_threads(n).build().unwrap());
      let p = match &pool { Some(pl) => pl.install(|| Default::default()), None => Default::default() };
      Box::new(Inst { p, pool })
   }
   impl Driver for Inst {
      fn load(&mut self, rel: usize, rows: &[Sexp], append: bool) -> Option<()> {
         match rel {
         0 => { let v: Vec<(i64,)> = parse_rows(rows)?; if append { self.p.r0.extend(v) } else { self.p.r0 = v } },
         1 => { let v: Vec<(i64,)> = parse_rows(rows)?; if append { self.p.r1.extend(v) } else { self.p.r1 = v } },
         2 => { let v: Vec<(i64,i64,)> = parse_rows(rows)?; if append { self.p.r2.extend(v) } else { self.p.r2 = v } },
            _ => return None,
         }
         Some(())
      }
      fn run(&mut self) { match &self.pool { Some(pl) => { let p = &mut self.p; pl.install(|| p.run()) }, None => self.p.run() } }
      fn run_here(&mut self) { self.p.run() }
      fn run_timeout(&mut self, k: usize) -> Option<bool> { let _ = k; None }
      fn dump(&self) -> String { vec![dump_rel(0, self.p.r0.iter().map(Row::render).collect()), dump_rel(1, self.p.r1.iter().map(Row::render).collect()), dump_rel(2, self.p.r2.iter().map(Row::render).collect())].join(" | ") }
      fn iters(&self) -> String { format!("iters {}", self.p.scc_iters.iter().map(|x| x.to_string()).collect::<Vec<_>>().join(" ")) }
   }
}

#[allow(unused, non_snake_case, clippy::all)]
pub mod p8 {
   use ascent::*;
   use ascent::aggregators::*;
   use ascent::lattice::{Dual, set::Set};
   use crate::common::*;
   ascent! {
      pub struct Prog;
      relation r0(i64, i64);
      relation r1(i64, i64);
      relation r2(i64, i64, i64);
      relation r3(i64, i64);
      r1(2, (v0 + 1)) <-- let v0 = 3, r0(v1, v0), if (v0 < 6);
      r1(v3, v3) <-- r1(v0, v1) if ((*v0) != 1), r1(v2, ((*v1) + 1)), if let Some(v3) = Some((*v1)), if (v3 <= 6);
      r1(v0, v1) <-- r1(v0, v1) if ((*v0) < 4), r0(v1, v2) if ((*v2) != (*v1));
      r1(v0, v0) <-- if let Some(v0) = Some(3), if (v0 <= 6);
      r3(v1, ((*v0) + 1)) <-- r3(v0, 2), r1(v1, v2), if ((*v0) < 6);
      r2(v2, ((*v1) + 1), v2) <-- if let Some(v0) = Some(3), r1(v0, v1), r2(v1, v0, 1) if (v0 <= 2) let v2 = (v0 + 1), for v3 in 0..1, if (v2 <= 6), if ((*v1) < 6);
      r1(v0, 3) <-- r2(3, v0, v1), r2(v1, v0, v1);
   }
   pub struct Inst { p: Prog, pool: Option<ascent::rayon::ThreadPool> }
   pub fn make(pool: Option<usize>) -> Box<dyn Driver> {
      let pool = pool.map(|n| ascent::rayon::ThreadPoolBuilder::new().num_threads(n).build().unwrap());
      let p = match &pool { Some(pl) => pl.install(|| Default::default()), None => Default::default() };
      Box::new(Inst { p, pool })
   }
   impl Driver for Inst {
      fn load(&mut self, rel: usize, rows: &[Sexp], append: bool) -> Option<()> {
         match rel {
         0 => { let v: Vec<(i64,i64,)> = parse_rows(rows)?; if append { self.p.r0.extend(v) } else { self.p.r0 = v } },
         1 => { let v: Vec<(i64,i64,)> = parse_rows(rows)?; if append { self.p.r1.extend(v) } else { self.p.r1 = v } },
         2 => { let v: Vec<(i64,i64,i64,)> = parse_rows(rows)?; if append { self.p.r2.extend(v) } else { self.p.r2 = v } },
         3 => { let v: Vec<(i64,i64,)> = parse_rows(rows)?; if append { self.p.r3.extend(v) } else { self.p.r3 = v } },
            _ => return None,
         }
         Some(())
      }
      fn run(&mut self) { match &self.pool { Some(pl) => { let p = &mut self.p; pl.install(|| p.run()) }, None => self.p.run() } }
      fn run_here(&mut self) { self.p.run() }
      fn run_timeout(&mut self, k: usize) -> Option<bool> { let _ = k; None }
      fn dump(&self) -> String { vec![dump_rel(0, self.p.r0.iter().map(Row::render).collect()), dump_rel(1, self.p.r1.iter().map(Row::render).collect()), dump_rel(2, self.p.r2.iter().map(Row::render).collect()), dump_rel(3, self.p.r3.iter().map(Row::render).collect())].join(" | ") }
      fn iters(&self) -> String { format!("iters {}", self.p.scc_iters.iter().map(|x| x.to_string()).collect::<Vec<_>>().join(" ")) }
   }
}

#[allow(unused, non_snake_case, clippy::all)]
pub mod p16 {
   use ascent::*;
   use ascent::aggregators::*;
   use ascent::lattice::{Dual, set::Set};
   use crate::common::*;
   ascent! {
      pub struct Prog;
      relation r0(i64, i64, i64);
      relation r1(i64, i64);
      relation r2(i64, i64);
      relation r3(i64);
      relation r4(i64, i64);
      r4(v1, v1) <-- for v0 in [4, 2], r0(v1, v0, 0);
      r4(v2, ((*v3) + 1)) <-- r4(v0, v1), r4(v2, v3) if ((*v3) != 2), if ((*v3) == 5), if ((*v3) < 6);
      r4(v0, v1) <-- r2(v0, v1) if ((*v0) < 2), r1(v1, v2) if ((*v2) != (*v1));
      r4(v0, 0) <-- r4(v0, v1) if ((*v0) != 6), r4(v1, v1), for v2 in 0..1;
      r3(v2) <-- r4(v0, v1) if ((*v0) <= 1), r1(1, 2), for v2 in 0..4;
   }
   pub struct Inst { p: Prog, pool: Option<ascent::rayon::ThreadPool> }
   pub fn make(pool: Option<usize>) -> Box<dyn Driver> {
      let pool = pool.map(|n| ascent::rayon::ThreadPoolBuilder::new().num_threads(n).build().unwrap());
      let p = match &pool { Some(pl) => pl.install(|| Default::default()), None => Default::default() };
      Box::new(Inst { p, pool })
   }
   impl Driver for Inst {
      fn load(&mut self, rel: usize, rows: &[Sexp], append: bool) -> Option<()> {
         match rel {
         0 => { let v: Vec<(i64,i64,i64,)> = parse_rows(rows)?; if append { self.p.r0.extend(v) } else { self.p.r0 = v } },
         1 => { let v: Vec<(i64,i64,)> = parse_rows(rows)?; if append { self.p.r1.extend(v) } else { self.p.r1 = v } },
         2 => { let v: Vec<(i64,i64,)> = parse_rows(rows)?; if append { self.p.r2.extend(v) } else { self.p.r2 = v } },
         3 => { let v: Vec<(i64,)> = parse_rows(rows)?; if append { self.p.r3.extend(v) } else { self.p.r3 = v } },
         4 => { let v: Vec<(i64,i64,)> = parse_rows(rows)?; if append { self.p.r4.extend(v) } else { self.p.r4 = v } },
            _ => return None,
         }
         Some(())
      }
      fn run(&mut self) { match &self.pool { Some(pl) => { let p = &mut self.p; pl.install(|| p.run()) }, None => self.p.run() } }
      fn run_here(&mut self) { self.p.run() }
      fn run_timeout(&mut self, k: usize) -> Option<bool> { let _ = k; None }
      fn dump(&self) -> String { vec![dump_rel(0, self.p.r0.iter().map(Row::render).collect()), dump_rel(1, self.p.r1.iter().map(Row::render).collect()), dump_rel(2, self.p.r2.iter().map(Row::render).collect()), dump_rel(3, self.p.r3.iter().map(Row::render).collect()), dump_rel(4, self.p.r4.iter().map(Row::render).collect())].join(" | ") }
      fn iters(&self) -> String { format!("iters {}", self.p.scc_iters.iter().map(|x| x.to_string()).collect::<Vec<_>>().join(" ")) }
   }
}

#[allow(unused, non_snake_case, clippy::all)]
pub mod p24 {
   use ascent::*;
   use ascent::aggregators::*;
   use ascent::lattice::{Dual, set::Set};
   use crate::common::*;
   ascent! {
      pub struct Prog;
      relation r0(i64);
      relation r1(i64, i64, i64);
      relation r2(i64, i64);
      relation r3(i64, i64);
      relation r4(i64, i64, i64);
      relation r5(i64, i64);
      r1(v0, v1, v9) <-- let v9 = 1, r5(v0, v1), r3(v1, v9);
      r3(((*v1) + 1), (v2 + 1)) <-- r2(v0, v1) if ((*v1) < 6) let v2 = ((*v1) + 1), let v3 = ((*v1) + 2), if ((*v1) < 6), if (v2 < 6);
      r2(v2, v2) <-- r5(v0, 3), if ((*v0) <= 6), r1(((*v0) + 0), v0, v1), r1(((*v0) + 0), v1, v1) if ((*v1) != 4), if let Some(v2) = Some((*v1)), if (v2 <= 6);
   }
   pub struct Inst { p: Prog, pool: Option<ascent::rayon::ThreadPool> }
   pub fn make(pool: Option<usize>) -> Box<dyn Driver> {
      let pool = pool.map(|n| ascent::rayon::ThreadPoolBuilder::new().num_threads(n).build().unwrap());
      let p = match &pool { Some(pl) => pl.install(|| Default::default()), None => Default::default() };
      Box::new(Inst { p, pool })
   }
   impl Driver for Inst {
      fn load(&mut self, rel: usize, rows: &[Sexp], append: bool) -> Option<()> {
         match rel {
         0 => { let v: Vec<(i64,)> = parse_rows(rows)?; if append { self.p.r0.extend(v) } else { self.p.r0 = v } },
         1 => { let v: Vec<(i64,i64,i64,)> = parse_rows(rows)?; if append { self.p.r1.extend(v) } else { self.p.r1 = v } },
         2 => { let v: Vec<(i64,i64,)> = parse_rows(rows)?; if append { self.p.r2.extend(v) } else { self.p.r2 = v } },
         3 => { let v: Vec<(i64,i64,)> = parse_rows(rows)?; if append { self.p.r3.extend(v) } else { self.p.r3 = v } },
         4 => { let v: Vec<(i64,i64,i64,)> = parse_rows(rows)?; if append { self.p.r4.extend(v) } else { self.p.r4 = v } },
         5 => { let v: Vec<(i64,i64,)> = parse_rows(rows)?; if append { self.p.r5.extend(v) } else { self.p.r5 = v } },
            _ => return None,
         }
         Some(())
      }
      fn run(&mut self) { match &self.pool { Some(pl) => { let p = &mut self.p; pl.install(|| p.run()) }, None => self.p.run() } }
      fn run_here(&mut self) { self.p.run() }
      fn run_timeout(&mut self, k: usize) -> Option<bool> { let _ = k; None }
      fn dump(&self) -> String { vec![dump_rel(0, self.p.r0.iter().map(Row::render).collect()), dump_rel(1, self.p.r1.iter().map(Row::render).collect()), dump_rel(2, self.p.r2.iter().map(Row::render).collect()), dump_rel(3, self.p.r3.iter().map(Row::render).collect()), dump_rel(4, self.p.r4.iter().map(Row::render).collect()), dump_rel(5, self.p.r5.iter().map(Row::render).collect())].join(" | ") }
      fn iters(&self) -> String { format!("iters {}", self.p.scc_iters.iter().map(|x| x.to_string()).collect::<Vec<_>>().join(" ")) }
   }
}

#[allow(unused, non_snake_case, clippy::all)]
pub mod p32 {
   use ascent::*;
   use ascent::aggregators::*;
   use ascent::lattice::{Dual, set::Set};
   use crate::common::*;
   ascent! {
      pub struct Prog;
      relation r0(i64, i64, i64);
      relation r1(i64, i64, i64);
      relation r2(i64, i64);
      r1(v2, ((*v1) + 1), v0) <-- r0(v0, v1, v2), if ((*v0) <= 0), if ((*v1) < 6);
      r2(v1, 3) <-- r1(v0, v1, v2), r1(v0, v2, v3), if ((*v2) != 0);
      r2(v0, v1) <-- r2(v0, v1) if ((*v0) < 5), r2(v1, v2) if ((*v2) != (*v1));
      r1(v0, v1, v2) <-- r2(v0, v1), r2(((*v0) + 1), v2);
      r2(v5, v4) <-- r2(v0, 3) if ((*v0) != 4), r0(v1, v2, v3), r1(v4, v5, v1);
   }
   pub struct Inst { p: Prog, pool: Option<ascent::rayon::ThreadPool> }
   pub fn make(pool: Option<usize>) -> Box<dyn Driver> {
      let pool = pool.map(|n| ascent::rayon::ThreadPoolBuilder::new().num_threads(n).build().unwrap());
      let p = match &pool { Some(pl) => pl.install(|| Default::default()), None => Default::default() };
      Box::new(Inst { p, pool })
   }
   impl Driver for Inst {
      fn load(&mut self, rel: usize, rows: &[Sexp], append: bool) -> Option<()> {
         match rel {
         0 => { let v: Vec<(i64,i64,i64,)> = parse_rows(rows)?; if append { self.p.r0.extend(v) } else { self.p.r0 = v } },
         1 => { let v: Vec<(i64,i64,i64,)> = parse_rows(rows)?; if append { self.p.r1.extend(v) } else { self.p.r1 = v } },
         2 => { let v: Vec<(i64,i64,)> = parse_rows(rows)?; if append { self.p.r2.extend(v) } else { self.p.r2 = v } },
            _ => return None,
         }
         Some(())
      }
      fn run(&mut self) { match &self.pool { Some(pl) => { let p = &mut self.p; pl.install(|| p.run()) }, None => self.p.run() } }
      fn run_here(&mut self) { self.p.run() }
      fn run_timeout(&mut self, k: usize) -> Option<bool> { let _ = k; None }
      fn dump(&self) -> String { vec![dump_rel(0, self.p.r0.iter().map(Row::render).collect()), dump_rel(1, self.p.r1.iter().map(Row::render).collect()), dump_rel(2, self.p.r2.iter().map(Row::render).collect())].join(" | ") }
      fn iters(&self) -> String { format!("iters {}", self.p.scc_iters.iter().map(|x| x.to_string()).collect::<Vec<_>>().join(" ")) }
   }
}

#[allow(unused, non_snake_case, clippy::all)]
pub mod p40 {
   use ascent::*;
   use ascent::aggregators::*;
   use ascent::lattice::{Dual, set::Set};
   use crate::common::*;
   ascent! {
      pub struct Prog;
      relation r0(i64, i64);
      relation r1(i64, i64);
      relation r2(i64);
      relation r3(i64);
      relation r4(i64, i64, i64);
      r2(v1) <-- r1(1, v0) if ((*v0) < 5) let v1 = ((*v0) + 0), r1(v0, v2), if (v1 <= 6);
      r3(0) <-- r2(0);
      r4(v0, (v0 + 1), v0) <-- if let Some(v0) = Some(2), r3(v0), r2(v0), if (v0 <= 6), if (v0 < 6);
      r4(v0, v1, v2) <-- r1(v0, v1), r0(((*v0) + 1), v2);
      r2(((*v2) + 1)) <-- if let Some(v0) = Some(1), r0(0, v0), r0(v1, v2), if let Some(v3) = Some(((*v1) + 2)), if ((*v2) < 6);
      r2(v0) <-- r3(v0);
      r2(v2) <-- r4(v0, 1, v1) if ((*v1) != 4) let v2 = ((*v0) + 0), r1(v3, 3) if ((*v3) != 1) let v4 = ((*v3) + 0), if (v2 <= 6);
      r0(((*v0) + 1), v1) <-- r0(v0, v1), if ((*v0) < 6);
   }
   pub struct Inst { p: Prog, pool: Option<ascent::rayon::ThreadPool> }
   pub fn make(pool: Option<usize>) -> Box<dyn Driver> {
      let pool = pool.map(|n| ascent::rayon::ThreadPoolBuilder::new().num_threads(n).build().unwrap());
      let p = match &pool { Some(pl) => pl.install(|| Default::default()), None => Default::default() };
      Box::new(Inst { p, pool })
   }
   impl Driver for Inst {
      fn load(&mut self, rel: usize, rows: &[Sexp], append: bool) -> Option<()> {
         match rel {
         0 => { let v: Vec<(i64,i64,)> = parse_rows(rows)?; if append { self.p.r0.extend(v) } else { self.p.r0 = v } },
         1 => { let v: Vec<(i64,i64,)> = parse_rows(rows)?; if append { self.p.r1.extend(v) } else { self.p.r1 = v } },
         2 => { let v: Vec<(i64,)> = parse_rows(rows)?; if append { self.p.r2.extend(v) } else { self.p.r2 = v } },
         3 => { let v: Vec<(i64,)> = parse_rows(rows)?; if append { self.p.r3.extend(v) } else { self.p.r3 = v } },
         4 => { let v: Vec<(i64,i64,i64,)> = parse_rows(rows)?; if append { self.p.r4.extend(v) } else { self.p.r4 = v } },
            _ => return None,
         }
         Some(())
      }
      fn run(&mut self) { match &self.pool { Some(pl) => { let p = &mut self.p; pl.install(|| p.run()) }, None => self.p.run() } }
      fn run_here(&mut self) { self.p.run() }
      fn run_timeout(&mut self, k: usize) -> Option<bool> { let _ = k; None }
      fn dump(&self) -> String { vec![dump_rel(0, self.p.r0.iter().map(Row::render).collect()), dump_rel(1, self.p.r1.iter().map(Row::render).collect()), dump_rel(2, self.p.r2.iter().map(Row::render).collect()), dump_rel(3, self.p.r3.iter().map(Row::render).collect()), dump_rel(4, self.p.r4.iter().map(Row::render).collect())].join(" | ") }
      fn iters(&self) -> String { format!("iters {}", self.p.scc_iters.iter().map(|x| x.to_string()).collect::<Vec<_>>().join(" ")) }
   }
}

#[allow(unused, non_snake_case, clippy::all)]
pub mod p48 {
   use ascent::*;
   use ascent::aggregators::*;
   use ascent::lattice::{Dual, set::Set};
   use crate::common::*;
   ascent! {
      pub struct Prog;
      relation r0(i64);
      relation r1(i64, i64);
      relation r2(i64, i64);
      relation r3(i64, i64);
      relation r4(i64, i64);
      relation r5(i64, i64, i64);
      r4(v0, v1) <-- r1(v0, v1);
      r4(v1, ((*v0) + 1)) <-- r4(v0, 3), r1(v1, v0), if ((*v0) < 6);
      r5(v0, v2, v3) <-- r1(v0, v1), r3(v1, v2), r3(v2, v3);
      r4(v0, v2) <-- r4(v0, v1), r1(v1, v2), r1(v2, v3);
      r4(v2, v1) <-- r4(v0, v1), r2(v2, 0), let v3 = (*v0);
      r3(((*v2) + 1), v2) <-- r1(2, v0), r5(v1, v0, v2) if ((*v2) < 6), r1(((*v1) + 0), 3) if ((*v1) < 2), if ((*v2) < 6);
      r4(0, 1) <-- r1(1, 0);
   }
   pub struct Inst { p: Prog, pool: Option<ascent::rayon::ThreadPool> }
   pub fn make(pool: Option<usize>) -> Box<dyn Driver> {
      let pool = pool.map(|n| ascent::rayon::ThreadPoolBuilder::new().num_threads(n).build().unwrap());
      let p = match &pool { Some(pl) => pl.install(|| Default::default()), None => Default::default() };
      Box::new(Inst { p, pool })
   }
   impl Driver for Inst {
      fn load(&mut self, rel: usize, rows: &[Sexp], append: bool) -> Option<()> {
         match rel {
         0 => { let v: Vec<(i64,)> = parse_rows(rows)?; if append { self.p.r0.extend(v) } else { self.p.r0 = v } },
         1 => { let v: Vec<(i64,i64,)> = parse_rows(rows)?; if append { self.p.r1.extend(v) } else { self.p.r1 = v } },
         2 => { let v: Vec<(i64,i64,)> = parse_rows(rows)?; if append { self.p.r2.extend(v) } else { self.p.r2 = v } },
         3 => { let v: Vec<(i64,i64,)> = parse_rows(rows)?; if append { self.p.r3.extend(v) } else { self.p.r3 = v } },
         4 => { let v: Vec<(i64,i64,)> = parse_rows(rows)?; if append { self.p.r4.extend(v) } else { self.p.r4 = v } },
         5 => { let v: Vec<(i64,i64,i64,)> = parse_rows(rows)?; if append { self.p.r5.extend(v) } else { self.p.r5 = v } },
            _ => return None,
         }
         Some(())
      }
      fn run(&mut self) { match &self.pool { Some(pl) => { let p = &mut self.p; pl.install(|| p.run()) }, None => self.p.run() } }
      fn run_here(&mut self) { self.p.run() }
      fn run_timeout(&mut self, k: usize) -> Option<bool> { let _ = k; None }
      fn dump(&self) -> String { vec![dump_rel(0, self.p.r0.iter().map(Row::render).collect()), dump_rel(1, self.p.r1.iter().map(Row::render).collect()), dump_rel(2, self.p.r2.iter().map(Row::render).collect()), dump_rel(3, self.p.r3.iter().map(Row::render).collect()), dump_rel(4, self.p.r4.iter().map(Row::render).collect()), dump_rel(5, self.p.r5.iter().map(Row::render).collect())].join(" | ") }
      fn iters(&self) -> String { format!("iters {}", self.p.scc_iters.iter().map(|x| x.to_string()).collect::<Vec<_>>().join(" ")) }
   }
}

#[allow(unused, non_snake_case, clippy::all)]
pub mod p56 {
   use ascent::*;
   use ascent::aggregators::*;
   use ascent::lattice::{Dual, set::Set};
   use crate::common::*;
   ascent! {
      pub struct Prog;
      relation r0(i64, i64, i64);
      relation r1(i64);
      relation r2(i64, i64);
      relation r3(i64, i64, i64);
      r3(v0, v1, v9) <-- for v9 in 0..4, r2(v0, v1), r2(v9, v1);
      r2(v1, 2) <-- for v0 in 0..4, r3(v1, v2, v0);
   }
   pub struct Inst { p: Prog, pool: Option<ascent::rayon::ThreadPool> }
   pub fn make(pool: Option<usize>) -> Box<dyn Driver> {
      let pool = pool.map(|n| ascent::rayon::ThreadPoolBuilder::new().num_threads(n).build().unwrap());
      let p = match &pool { Some(pl) => pl.install(|| Default::default()), None => Default::default() };
      Box::new(Inst { p, pool })
   }
   impl Driver for Inst {
      fn load(&mut self, rel: usize, rows: &[Sexp], append: bool) -> Option<()> {
         match rel {
         0 => { let v: Vec<(i64,i64,i64,)> = parse_rows(rows)?; if append { self.p.r0.extend(v) } else { self.p.r0 = v } },
         1 => { let v: Vec<(i64,)> = parse_rows(rows)?; if append { self.p.r1.extend(v) } else { self.p.r1 = v } },
         2 => { let v: Vec<(i64,i64,)> = parse_rows(rows)?; if append { self.p.r2.extend(v) } else { self.p.r2 = v } },
         3 => { let v: Vec<(i64,i64,i64,)> = parse_rows(rows)?; if append { self.p.r3.extend(v) } else { self.p.r3 = v } },
            _ => return None,
         }
         Some(())
      }
      fn run(&mut self) { match &self.pool { Some(pl) => { let p = &mut self.p; pl.install(|| p.run()) }, None => self.p.run() } }
      fn run_here(&mut self) { self.p.run() }
      fn run_timeout(&mut self, k: usize) -> Option<bool> { let _ = k; None }
      fn dump(&self) -> String { vec![dump_rel(0, self.p.r0.iter().map(Row::render).collect()), dump_rel(1, self.p.r1.iter().map(Row::render).collect()), dump_rel(2, self.p.r2.iter().map(Row::render).collect()), dump_rel(3, self.p.r3.iter().map(Row::render).collect())].join(" | ") }
      fn iters(&self) -> String { format!("iters {}", self.p.scc_iters.iter().map(|x| x.to_string()).collect::<Vec<_>>().join(" ")) }
   }
}

#[allow(unused, non_snake_case, clippy::all)]
pub mod p64 {
   use ascent::*;
   use ascent::aggregators::*;
   use ascent::lattice::{Dual, set::Set};
   use crate::common::*;
   ascent! {
      pub struct Prog;
      relation r0(i64, i64, i64);
      relation r1(i64, i64, i64);
      relation r2(i64, i64);
      relation r3(i64);
      relation r4(i64, i64, i64);
      relation r5(i64, i64);
      r2(v1, ((*v2) + 1)) <-- r0(v0, v1, v2), if ((*v2) < 6);
      r3(3) <-- r2(v0, v1), for v2 in 1..3, r2(v1, (v2 + 1));
      r2(v0, 2) <-- r3(v0) if ((*v0) <= 1), let v1 = (*v0);
      r3(v0) <-- r2(v0, v1), r5(v0, v0), r2(v1, v2);
      r5(v0, v1) <-- r2(v0, v1), r5(v1, v1);
      r3(1) <-- r3(1);
      r2(v0, v0) <-- r3(v0), r2(v0, ((*v0) + 1));
      r5(2, 0);
   }
   pub struct Inst { p: Prog, pool: Option<ascent::rayon::ThreadPool> }
   pub fn make(pool: Option<usize>) -> Box<dyn Driver> {
      let pool = pool.map(|n| ascent::rayon::ThreadPoolBuilder::new().num_threads(n).build().unwrap());
      let p = match &pool { Some(pl) => pl.install(|| Default::default()), None => Default::default() };
      Box::new(Inst { p, pool })
   }
   impl Driver for Inst {
      fn load(&mut self, rel: usize, rows: &[Sexp], append: bool) -> Option<()> {
         match rel {
         0 => { let v: Vec<(i64,i64,i64,)> = parse_rows(rows)?; if append { self.p.r0.extend(v) } else { self.p.r0 = v } },
         1 => { let v: Vec<(i64,i64,i64,)> = parse_rows(rows)?; if append { self.p.r1.extend(v) } else { self.p.r1 = v } },
         2 => { let v: Vec<(i64,i64,)> = parse_rows(rows)?; if append { self.p.r2.extend(v) } else { self.p.r2 = v } },
         3 => { let v: Vec<(i64,)> = parse_rows(rows)?; if append { self.p.r3.extend(v) } else { self.p.r3 = v } },
         4 => { let v: Vec<(i64,i64,i64,)> = parse_rows(rows)?; if append { self.p.r4.extend(v) } else { self.p.r4 = v } },
         5 => { let v: Vec<(i64,i64,)> = parse_rows(rows)?; if append { self.p.r5.extend(v) } else { self.p.r5 = v } },
            _ => return None,
         }
         Some(())
      }
      fn run(&mut self) { match &self.pool { Some(pl) => { let p = &mut self.p; pl.install(|| p.run()) }, None => self.p.run() } }
      fn run_here(&mut self) { self.p.run() }
      fn run_timeout(&mut self, k: usize) -> Option<bool> { let _ = k; None }
      fn dump(&self) -> String { vec![dump_rel(0, self.p.r0.iter().map(Row::render).collect()), dump_rel(1, self.p.r1.iter().map(Row::render).collect()), dump_rel(2, self.p.r2.iter().map(Row::render).collect()), dump_rel(3, self.p.r3.iter().map(Row::render).collect()), dump_rel(4, self.p.r4.iter().map(Row::render).collect()), dump_rel(5, self.p.r5.iter().map(Row::render).collect())].join(" | ") }
      fn iters(&self) -> String { format!("iters {}", self.p.scc_iters.iter().map(|x| x.to_string()).collect::<Vec<_>>().join(" ")) }
   }
}

#[allow(unused, non_snake_case, clippy::all)]
pub mod p72 {
   use ascent::*;
   use ascent::aggregators::*;
   use ascent::lattice::{Dual, set::Set};
   use crate::common::*;
   ascent! {
      pub struct Prog;
      relation r0(i64, i64, i64);
      relation r1(i64, i64);
      relation r2(i64, i64, i64);
      relation r3(i64, i64);
      relation r4(i64, i64);
      relation r5(i64);
      r5(v0) <-- r3(v0, v1), r1(v1, v2), r3(v2, v3);
      r3(0, v2) <-- r2(v0, v1, 0) if ((*v1) != 2), r1(1, v0), r2(v2, v1, ((*v1) + 1)) if ((*v1) <= 5);
   }
   pub struct Inst { p: Prog, pool: Option<ascent::rayon::ThreadPool> }
   pub fn make(pool: Option<usize>) -> Box<dyn Driver> {
      let pool = pool.map(|n| ascent::rayon::ThreadPoolBuilder::new().num_threads(n).build().unwrap());
      let p = match &pool { Some(pl) => pl.install(|| Default::default()), None => Default::default() };
      Box::new(Inst { p, pool })
   }
   impl Driver for Inst {
      fn load(&mut self, rel: usize, rows: &[Sexp], append: bool) -> Option<()> {
         match rel {
         0 => { let v: Vec<(i64,i64,i64,)> = parse_rows(rows)?; if append { self.p.r0.extend(v) } else { self.p.r0 = v } },
         1 => { let v: Vec<(i64,i64,)> = parse_rows(rows)?; if append { self.p.r1.extend(v) } else { self.p.r1 = v } },
         2 => { let v: Vec<(i64,i64,i64,)> = parse_rows(rows)?; if append { self.p.r2.extend(v) } else { self.p.r2 = v } },
         3 => { let v: Vec<(i64,i64,)> = parse_rows(rows)?; if append { self.p.r3.extend(v) } else { self.p.r3 = v } },
         4 => { let v: Vec<(i64,i64,)> = parse_rows(rows)?; if append { self.p.r4.extend(v) } else { self.p.r4 = v } },
         5 => { let v: Vec<(i64,)> = parse_rows(rows)?; if append { self.p.r5.extend(v) } else { self.p.r5 = v } },
            _ => return None,
         }
         Some(())
      }
      fn run(&mut self) { match &self.pool { Some(pl) => { let p = &mut self.p; pl.install(|| p.run()) }, None => self.p.run() } }
      fn run_here(&mut self) { self.p.run() }
      fn run_timeout(&mut self, k: usize) -> Option<bool> { let _ = k; None }
      fn dump(&self) -> String { vec![dump_rel(0, self.p.r0.iter().map(Row::render).collect()), dump_rel(1, self.p.r1.iter().map(Row::render).collect()), dump_rel(2, self.p.r2.iter().map(Row::render).collect()), dump_rel(3, self.p.r3.iter().map(Row::render).collect()), dump_rel(4, self.p.r4.iter().map(Row::render).collect()), dump_rel(5, self.p.r5.iter().map(Row::render).collect())].join(" | ") }
      fn iters(&self) -> String { format!("iters {}", self.p.scc_iters.iter().map(|x| x.to_string()).collect::<Vec<_>>().join(" ")) }
   }
}

#[allow(unused, non_snake_case, clippy::all)]
pub mod p80 {
   use ascent::*;
   use ascent::aggregators::*;
   use ascent::lattice::{Dual, set::Set};
   use crate::common::*;
   ascent! {
      pub struct Prog;
      relation r0(i64);
      relation r1(i64, i64);
      relation r2(i64, i64, i64);
      relation r3(i64, i64);
      relation r4(i64, i64);
      r1(2, 3) <-- r0(2);
      r2(v1, v2, 1) <-- r1(v0, v1), if let Some(v2) = Some(0), if (v2 <= 6);
      r3(v3, ((*v1) + 1)) <-- let v0 = 2, r2(v1, v0, v2), let v3 = 2, r3((v0 + 1), 2) if (v0 < 5), if (v3 <= 6), if ((*v1) < 6);
      r4(v0, ((*v1) + 1)) <-- r3(v0, v1), if ((*v1) < 6);
      r1(v0, v2) <-- r1(v0, v1), r3(v1, v2), r4(v2, v3);
      r3(v0, v1) <-- for v9 in 0..3, r4(v0, v1), r3(v9, v1);
      r4(0, v1) <-- if let Some(v0) = Some(0), r3((v0 + 0), v1), let v2 = v0;
      r1(v7, v2) <-- let v0 = 0, r4(v1, v0), if let Some(v2) = Some(3), r2(v3, v4, v2) if (v2 <= 2), r3(v5, v6), if let Some(v7) = None::<i64>, if (v7 <= 6), if (v2 <= 6);
      r4(v0, v0) <-- for v0 in [3, 4], r4(v0, v0);
   }
   pub struct Inst { p: Prog, pool: Option<ascent::rayon::ThreadPool> }
   pub fn make(pool: Option<usize>) -> Box<dyn Driver> {
      let pool = pool.map(|n| ascent::rayon::ThreadPoolBuilder::new().num_threads(n).build().unwrap());
      let p = match &pool { Some(pl) => pl.install(|| Default::default()), None => Default::default() };
      Box::new(Inst { p, pool })
   }
   impl Driver for Inst {
      fn load(&mut self, rel: usize, rows: &[Sexp], append: bool) -> Option<()> {
         match rel {
         0 => { let v: Vec<(i64,)> = parse_rows(rows)?; if append { self.p.r0.extend(v) } else { self.p.r0 = v } },
         1 => { let v: Vec<(i64,i64,)> = parse_rows(rows)?; if append { self.p.r1.extend(v) } else { self.p.r1 = v } },
         2 => { let v: Vec<(i64,i64,i64,)> = parse_rows(rows)?; if append { self.p.r2.extend(v) } else { self.p.r2 = v } },
         3 => { let v: Vec<(i64,i64,)> = parse_rows(rows)?; if append { self.p.r3.extend(v) } else { self.p.r3 = v } },
         4 => { let v: Vec<(i64,i64,)> = parse_rows(rows)?; if append { self.p.r4.extend(v) } else { self.p.r4 = v } },
            _ => return None,
         }
         Some(())
      }
      fn run(&mut self) { match &self.pool { Some(pl) => { let p = &mut self.p; pl.install(|| p.run()) }, None => self.p.run() } }
      fn run_here(&mut self) { self.p.run() }
      fn run_timeout(&mut self, k: usize) -> Option<bool> { let _ = k; None }
      fn dump(&self) -> String { vec![dump_rel(0, self.p.r0.iter().map(Row::render).collect()), dump_rel(1, self.p.r1.iter().map(Row::render).collect()), dump_rel(2, self.p.r2.iter().map(Row::render).collect()), dump_rel(3, self.p.r3.iter().map(Row::render).collect()), dump_rel(4, self.p.r4.iter().map(Row::render).collect())].join(" | ") }
      fn iters(&self) -> String { format!("iters {}", self.p.scc_iters.iter().map(|x| x.to_string()).collect::<Vec<_>>().join(" ")) }
   }
}

#[allow(unused, non_snake_case, clippy::all)]
pub mod p88 {
   use ascent::*;
   use ascent::aggregators::*;
   use ascent::lattice::{Dual, set::Set};
   use crate::common::*;
   ascent! {
      pub struct Prog;
      relation r0(i64, i64, i64);
      relation r1(i64, i64);
      relation r2(i64, i64, i64);
      relation r3(i64, i64);
      relation r4(i64, i64);
      relation r5(i64, i64);
      r5(v1, v1) <-- if let Some(v0) = Some(0), r0(v1, 3, v2) if (v0 <= 2) let v3 = ((*v2) + 1);
      r5(((*v0) + 1), v1) <-- r5(v0, v1), r5(v0, ((*v0) + 0)), if ((*v0) < 6);
      r5(v0, v1) <-- r5(v0, v1) if ((*v0) < 5), r4(v1, v2) if ((*v2) != (*v1));
      r2(v1, v1, v1) <-- r1(1, v0) if ((*v0) < 4), r3(v1, 0);
   }
   pub struct Inst { p: Prog, pool: Option<ascent::rayon::ThreadPool> }
   pub fn make(pool: Option<usize>) -> Box<dyn Driver> {
      let pool = pool.map(|n| ascent::rayon::ThreadPoolBuilder::new().num_threads(n).build().unwrap());
      let p = match &pool { Some(pl) => pl.install(|| Default::default()), None => Default::default() };
      Box::new(Inst { p, pool })
   }
   impl Driver for Inst {
      fn load(&mut self, rel: usize, rows: &[Sexp], append: bool) -> Option<()> {
         match rel {
         0 => { let v: Vec<(i64,i64,i64,)> = parse_rows(rows)?; if append { self.p.r0.extend(v) } else { self.p.r0 = v } },
         1 => { let v: Vec<(i64,i64,)> = parse_rows(rows)?; if append { self.p.r1.extend(v) } else { self.p.r1 = v } },
         2 => { let v: Vec<(i64,i64,i64,)> = parse_rows(rows)?; if append { self.p.r2.extend(v) } else { self.p.r2 = v } },
         3 => { let v: Vec<(i64,i64,)> = parse_rows(rows)?; if append { self.p.r3.extend(v) } else { self.p.r3 = v } },
         4 => { let v: Vec<(i64,i64,)> = parse_rows(rows)?; if append { self.p.r4.extend(v) } else { self.p.r4 = v } },
         5 => { let v: Vec<(i64,i64,)> = parse_rows(rows)?; if append { self.p.r5.extend(v) } else { self.p.r5 = v } },
            _ => return None,
         }
         Some(())
      }
      fn run(&mut self) { match &self.pool { Some(pl) => { let p = &mut self.p; pl.install(|| p.run()) }, None => self.p.run() } }
      fn run_here(&mut self) { self.p.run() }
      fn run_timeout(&mut self, k: usize) -> Option<bool> { let _ = k; None }
      fn dump(&self) -> String { vec![dump_rel(0, self.p.r0.iter().map(Row::render).collect()), dump_rel(1, self.p.r1.iter().map(Row::render).collect()), dump_rel(2, self.p.r2.iter().map(Row::render).collect()), dump_rel(3, self.p.r3.iter().map(Row::render).collect()), dump_rel(4, self.p.r4.iter().map(Row::render).collect()), dump_rel(5, self.p.r5.iter().map(Row::render).collect())].join(" | ") }
      fn iters(&self) -> String { format!("iters {}", self.p.scc_iters.iter().map(|x| x.to_string()).collect::<Vec<_>>().join(" ")) }
   }
}

#[allow(unused, non_snake_case, clippy::all)]
pub mod p96 {
   use ascent::*;
   use ascent::aggregators::*;
   use ascent::lattice::{Dual, set::Set};
   use crate::common::*;
   ascent! {
      pub struct Prog;
      relation r0(i64);
      relation r1(i64);
      relation r2(i64, i64);
      relation r3(i64, i64);
      relation r4(i64, i64);
      relation r5(i64, i64);
      r2(v0, v0) <-- let v0 = 4, r0(v0), if (v0 <= 6);
      r3((v0 + 1), v1) <-- if let Some(v0) = Some(1), r0(v1), if (v0 < 6);
      r4(((*v1) + 1), ((*v0) + 1)) <-- r2(3, 0), r3(v0, v1) if ((*v0) != 1), if ((*v1) < 6), if ((*v0) < 6);
      r4(v0, v1) <-- r5(v0, v1), r4(v0, v0), r5(v1, v2);
      r1(v0) <-- if let Some(v0) = Some(2), r1((v0 + 0)), r2((v0 + 0), 2) if (v0 != 6), if (v0 <= 6);
      r3(((*v1) + 1), v0) <-- for v0 in [2, 3, 1], r3(v0, v1) if ((*v1) < 1), r3(v0, 2), r4(v2, v3) if ((*v1) < 4), if ((*v3) != 5), if ((*v1) < 6);
      r2(v1, v1) <-- r1(v0), r5(v1, v0) if ((*v1) != 1);
      r4(0, 0) <-- r1(1);
   }
   pub struct Inst { p: Prog, pool: Option<ascent::rayon::ThreadPool> }
   pub fn make(pool: Option<usize>) -> Box<dyn Driver> {
      let pool = pool.map(|n| ascent::rayon::ThreadPoolBuilder::new().num_threads(n).build().unwrap());
      let p = match &pool { Some(pl) => pl.install(|| Default::default()), None => Default::default() };
      Box::new(Inst { p, pool })
   }
   impl Driver for Inst {
      fn load(&mut self, rel: usize, rows: &[Sexp], append: bool) -> Option<()> {
         match rel {
         0 => { let v: Vec<(i64,)> = parse_rows(rows)?; if append { self.p.r0.extend(v) } else { self.p.r0 = v } },
         1 => { let v: Vec<(i64,)> = parse_rows(rows)?; if append { self.p.r1.extend(v) } else { self.p.r1 = v } },
         2 => { let v: Vec<(i64,i64,)> = parse_rows(rows)?; if append { self.p.r2.extend(v) } else { self.p.r2 = v } },
         3 => { let v: Vec<(i64,i64,)> = parse_rows(rows)?; if append { self.p.r3.extend(v) } else { self.p.r3 = v } },
         4 => { let v: Vec<(i64,i64,)> = parse_rows(rows)?; if append { self.p.r4.extend(v) } else { self.p.r4 = v } },
         5 => { let v: Vec<(i64,i64,)> = parse_rows(rows)?; if append { self.p.r5.extend(v) } else { self.p.r5 = v } },
            _ => return None,
         }
         Some(())
      }
      fn run(&mut self) { match &self.pool { Some(pl) => { let p = &mut self.p; pl.install(|| p.run()) }, None => self.p.run() } }
      fn run_here(&mut self) { self.p.run() }
      fn run_timeout(&mut self, k: usize) -> Option<bool> { let _ = k; None }
      fn dump(&self) -> String { vec![dump_rel(0, self.p.r0.iter().map(Row::render).collect()), dump_rel(1, self.p.r1.iter().map(Row::render).collect()), dump_rel(2, self.p.r2.iter().map(Row::render).collect()), dump_rel(3, self.p.r3.iter().map(Row::render).collect()), dump_rel(4, self.p.r4.iter().map(Row::render).collect()), dump_rel(5, self.p.r5.iter().map(Row::render).collect())].join(" | ") }
      fn iters(&self) -> String { format!("iters {}", self.p.scc_iters.iter().map(|x| x.to_string()).collect::<Vec<_>>().join(" ")) }
   }
}

#[allow(unused, non_snake_case, clippy::all)]
pub mod p104 {
   use ascent::*;
   use ascent::aggregators::*;
   use ascent::lattice::{Dual, set::Set};
   use crate::common::*;
   ascent! {
      pub struct Prog;
      relation r0(i64, i64);
      relation r1(i64, i64);
      relation r2(i64, i64);
      relation r3(i64, i64);
      r1(v2, v0) <-- r0(v0, v1), for v2 in 0..4;
      r2(v0, v2) <-- r1(v0, v1), for v2 in [2], r2(v0, v3);
      r3(v2, v1) <-- if let Some(v0) = Some(0), r2(v1, v2), r1(v2, v2);
      r3(v0, v1) <-- r2(v0, v1) if ((*v0) < 4), r3(v1, v2) if ((*v2) != (*v1));
      r2(v3, 0) <-- r3(v0, v1) if ((*v0) != 5), r3(v2, v3);
      r1(2, 0);
   }
   pub struct Inst { p: Prog, pool: Option<ascent::rayon::ThreadPool> }
   pub fn make(pool: Option<usize>) -> Box<dyn Driver> {
      let pool = pool.map(|n| ascent::rayon::ThreadPoolBuilder::new().num_threads(n).build().unwrap());
      let p = match &pool { Some(pl) => pl.install(|| Default::default()), None => Default::default() };
      Box::new(Inst { p, pool })
   }
   impl Driver for Inst {
      fn load(&mut self, rel: usize, rows: &[Sexp], append: bool) -> Option<()> {
         match rel {
         0 => { let v: Vec<(i64,i64,)> = parse_rows(rows)?; if append { self.p.r0.extend(v) } else { self.p.r0 = v } },
         1 => { let v: Vec<(i64,i64,)> = parse_rows(rows)?; if append { self.p.r1.extend(v) } else { self.p.r1 = v } },
         2 => { let v: Vec<(i64,i64,)> = parse_rows(rows)?; if append { self.p.r2.extend(v) } else { self.p.r2 = v } },
         3 => { let v: Vec<(i64,i64,)> = parse_rows(rows)?; if append { self.p.r3.extend(v) } else { self.p.r3 = v } },
            _ => return None,
         }
         Some(())
      }
      fn run(&mut self) { match &self.pool { Some(pl) => { let p = &mut self.p; pl.install(|| p.run()) }, None => self.p.run() } }
      fn run_here(&mut self) { self.p.run() }
      fn run_timeout(&mut self, k: usize) -> Option<bool> { let _ = k; None }
      fn dump(&self) -> String { vec![dump_rel(0, self.p.r0.iter().map(Row::render).collect()), dump_rel(1, self.p.r1.iter().map(Row::render).collect()), dump_rel(2, self.p.r2.iter().map(Row::render).collect()), dump_rel(3, self.p.r3.iter().map(Row::render).collect())].join(" | ") }
      fn iters(&self) -> String { format!("iters {}", self.p.scc_iters.iter().map(|x| x.to_string()).collect::<Vec<_>>().join(" ")) }
   }
}

#[allow(unused, non_snake_case, clippy::all)]
pub mod p112 {
   use ascent::*;
   use ascent::aggregators::*;
   use ascent::lattice::{Dual, set::Set};
   use crate::common::*;
   ascent! {
      pub struct Prog;
      relation r0(i64, i64);
      relation r1(i64, i64);
      relation r2(i64, i64);
      relation r3(i64, i64);
      relation r4(i64, i64);
      r1(v0, (v0 + 1)) <-- for v0 in 1..3, r0(v0, v1), if (v0 < 6);
      r2(v0, v0) <-- r1(v0, v1), if let Some(v2) = Some((*v1)), r4(v0, v3);
      r1(v1, v2) <-- if let Some(v0) = Some(0), r2(v1, v2), for v3 in 2..2;
      r2(v0, v1) <-- r4(v0, v1), r3(v0, v0), r4(v1, v2);
      r2(v0, v1) <-- let v9 = 0, r3(v0, v1), r3(v1, v9);
      r0(v3, ((*v1) + 1)) <-- if let Some(v0) = Some(3), r2(v0, v1), r1((v0 + 1), v2) if ((*v2) <= 2), r3(v3, v0), if ((*v1) < 6);
      r2(v0, v0) <-- for v0 in 2..2, r0(v0, 3);
      r4(2, v0) <-- if let Some(v0) = None::<i64>, r2(v0, v0), if (v0 <= 6);
   }
   pub struct Inst { p: Prog, pool: Option<ascent::rayon::ThreadPool> }
   pub fn make(pool: Option<usize>) -> Box<dyn Driver> {
      let pool = pool.map(|n| ascent::rayon::ThreadPoolBuilder::new().num_threads(n).build().unwrap());
      let p = match &pool { Some(pl) => pl.install(|| Default::default()), None => Default::default() };
      Box::new(Inst { p, pool })
   }
   impl Driver for Inst {
      fn load(&mut self, rel: usize, rows: &[Sexp], append: bool) -> Option<()> {
         match rel {
         0 => { let v: Vec<(i64,i64,)> = parse_rows(rows)?; if append { self.p.r0.extend(v) } else { self.p.r0 = v } },
         1 => { let v: Vec<(i64,i64,)> = parse_rows(rows)?; if append { self.p.r1.extend(v) } else { self.p.r1 = v } },
         2 => { let v: Vec<(i64,i64,)> = parse_rows(rows)?; if append { self.p.r2.extend(v) } else { self.p.r2 = v } },
         3 => { let v: Vec<(i64,i64,)> = parse_rows(rows)?; if append { self.p.r3.extend(v) } else { self.p.r3 = v } },
         4 => { let v: Vec<(i64,i64,)> = parse_rows(rows)?; if append { self.p.r4.extend(v) } else { self.p.r4 = v } },
            _ => return None,
         }
         Some(())
      }
      fn run(&mut self) { match &self.pool { Some(pl) => { let p = &mut self.p; pl.install(|| p.run()) }, None => self.p.run() } }
      fn run_here(&mut self) { self.p.run() }
      fn run_timeout(&mut self, k: usize) -> Option<bool> { let _ = k; None }
      fn dump(&self) -> String { vec![dump_rel(0, self.p.r0.iter().map(Row::render).collect()), dump_rel(1, self.p.r1.iter().map(Row::render).collect()), dump_rel(2, self.p.r2.iter().map(Row::render).collect()), dump_rel(3, self.p.r3.iter().map(Row::render).collect()), dump_rel(4, self.p.r4.iter().map(Row::render).collect())].join(" | ") }
      fn iters(&self) -> String { format!("iters {}", self.p.scc_iters.iter().map(|x| x.to_string()).collect::<Vec<_>>().join(" ")) }
   }
}

#[allow(unused, non_snake_case, clippy::all)]
pub mod c0 {
   use ascent::*;
   use ascent::aggregators::*;
   use ascent::lattice::{Dual, set::Set};
   use crate::common::*;
   ascent! {
      pub struct Prog;
      relation r0(i64);
      relation r1(i64, i64, i64);
      relation r2(i64);
      relation r3(i64, i64);
      r3(v2, v3) <-- r1(v0, v1, v2) if ((*v0) <= 4) let v3 = ((*v2) + 0), r2(v3);
   }
   pub struct Inst { p: Prog, pool: Option<ascent::rayon::ThreadPool> }
   pub fn make(pool: Option<usize>) -> Box<dyn Driver> {
      let pool = pool.map(|n| ascent::rayon::ThreadPoolBuilder::new().num_threads(n).build().unwrap());
      let p = match &pool { Some(pl) => pl.install(|| Default::default()), None => Default::default() };
      Box::new(Inst { p, pool })
   }
   impl Driver for Inst {
      fn load(&mut self, rel: usize, rows: &[Sexp], append: bool) -> Option<()> {
         match rel {
         0 => { let v: Vec<(i64,)> = parse_rows(rows)?; if append { self.p.r0.extend(v) } else { self.p.r0 = v } },
         1 => { let v: Vec<(i64,i64,i64,)> = parse_rows(rows)?; if append { self.p.r1.extend(v) } else { self.p.r1 = v } },
         2 => { let v: Vec<(i64,)> = parse_rows(rows)?; if append { self.p.r2.extend(v) } else { self.p.r2 = v } },
         3 => { let v: Vec<(i64,i64,)> = parse_rows(rows)?; if append { self.p.r3.extend(v) } else { self.p.r3 = v } },
            _ => return None,
         }
         Some(())
      }
      fn run(&mut self) { match &self.pool { Some(pl) => { let p = &mut self.p; pl.install(|| p.run()) }, None => self.p.run() } }
      fn run_here(&mut self) { self.p.run() }
      fn run_timeout(&mut self, k: usize) -> Option<bool> { let _ = k; None }
      fn dump(&self) -> String { vec![dump_rel(0, self.p.r0.iter().map(Row::render).collect()), dump_rel(1, self.p.r1.iter().map(Row::render).collect()), dump_rel(2, self.p.r2.iter().map(Row::render).collect()), dump_rel(3, self.p.r3.iter().map(Row::render).collect())].join(" | ") }
      fn iters(&self) -> String { format!("iters {}", self.p.scc_iters.iter().map(|x| x.to_string()).collect::<Vec<_>>().join(" ")) }
   }
}

fn main() {
   common::main_loop(&[("p0", p0::make as common::Factory), ("p8", p8::make as common::Factory), ("p16", p16::make as common::Factory), ("p24", p24::make as common::Factory), ("p32", p32::make as common::Factory), ("p40", p40::make as common::Factory), ("p48", p48::make as common::Factory), ("p56", p56::make as common::Factory), ("p64", p64::make as common::Factory), ("p72", p72::make as common::Factory), ("p80", p80::make as common::Factory), ("p88", p88::make as common::Factory), ("p96", p96::make as common::Factory), ("p104", p104::make as common::Factory), ("p112", p112::make as common::Factory), ("c0", c0::make as common::Factory)]);
}
