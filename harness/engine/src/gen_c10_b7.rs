#[path = "common.rs"]
mod common;
#[allow(unused, non_snake_case, clippy::all)]
pub mod bn1p {
   use ascent::*;
   use ascent::aggregators::*;
   use ascent::lattice::{Dual, set::Set};
   use crate::common::*;
   ascent_par! {
      pub struct Prog;
      relation r0(i64, i64);
      relation r1(i64, i64);
      relation r2(i64);
      relation r3(i64);
      relation r4(i64);
      #[ds(ascent_byods_rels::eqrel)] relation r5(i64, i64);
      relation r6(i64, i64);
      relation r7(i64, i64);
      relation r8(i64, i64);
      relation r9(i64, i64);
      relation r10(i64);
      relation r11(i64, i64);
      relation r12(i64, i64);
      relation r13(i64, i64);
      relation r14(i64);
      relation r15(i64, i64);
      r5(v0, v1) <-- r0(v0, v1);
      r5(v1, v0) <-- r1(v0, v1);
      r6(v0, v1) <-- r5(v0, v1);
      r7(v0, v1) <-- r2(v0), r5(v0, v1);
      r8(1, v1) <-- r5(1, v1);
      r9(v0, v1) <-- r5(v0, v1), r10(v0);
      r11(v0, v1) <-- r3(v1), r5(v0, v1);
      r12(v0, 1) <-- r5(v0, 1);
      r13(v0, v1) <-- r5(v0, v1), r14(v1);
      r15(v1, v4) <-- r6(v0, v1), r5(((*v1) + 1), v2), r11(v3, v4);
   }
   pub struct Inst { p: Prog, pool: Option<ascent::rayon::ThreadPool> }
   pub fn make(pool: Option<usize>) -> Box<dyn Driver> {
      let pool = pool.map(|n| ascent::rayon::ThreadPoolBuilder::new().num_threads(n).build().unwrap());
      let p = match &pool { Some(pl) => pl.install(|| Default::default()), None => Default::default() };
      Box::new(Inst { p, pool })
   }
   impl Driver for Inst {
      fn load(&mut self, rel: usize, rows: &[Sexp], append: bool) -> Option<()> {
         match rel {
         0 => { let v: Vec<(i64,i64,)> = parse_rows(rows)?; if !append { self.p.r0 = Default::default(); } for x in v { self.p.r0.push(x); } },
         1 => { let v: Vec<(i64,i64,)> = parse_rows(rows)?; if !append { self.p.r1 = Default::default(); } for x in v { self.p.r1.push(x); } },
         2 => { let v: Vec<(i64,)> = parse_rows(rows)?; if !append { self.p.r2 = Default::default(); } for x in v { self.p.r2.push(x); } },
         3 => { let v: Vec<(i64,)> = parse_rows(rows)?; if !append { self.p.r3 = Default::default(); } for x in v { self.p.r3.push(x); } },
         4 => { let v: Vec<(i64,)> = parse_rows(rows)?; if !append { self.p.r4 = Default::default(); } for x in v { self.p.r4.push(x); } },
         5 => return None,
         6 => { let v: Vec<(i64,i64,)> = parse_rows(rows)?; if !append { self.p.r6 = Default::default(); } for x in v { self.p.r6.push(x); } },
         7 => { let v: Vec<(i64,i64,)> = parse_rows(rows)?; if !append { self.p.r7 = Default::default(); } for x in v { self.p.r7.push(x); } },
         8 => { let v: Vec<(i64,i64,)> = parse_rows(rows)?; if !append { self.p.r8 = Default::default(); } for x in v { self.p.r8.push(x); } },
         9 => { let v: Vec<(i64,i64,)> = parse_rows(rows)?; if !append { self.p.r9 = Default::default(); } for x in v { self.p.r9.push(x); } },
         10 => { let v: Vec<(i64,)> = parse_rows(rows)?; if !append { self.p.r10 = Default::default(); } for x in v { self.p.r10.push(x); } },
         11 => { let v: Vec<(i64,i64,)> = parse_rows(rows)?; if !append { self.p.r11 = Default::default(); } for x in v { self.p.r11.push(x); } },
         12 => { let v: Vec<(i64,i64,)> = parse_rows(rows)?; if !append { self.p.r12 = Default::default(); } for x in v { self.p.r12.push(x); } },
         13 => { let v: Vec<(i64,i64,)> = parse_rows(rows)?; if !append { self.p.r13 = Default::default(); } for x in v { self.p.r13.push(x); } },
         14 => { let v: Vec<(i64,)> = parse_rows(rows)?; if !append { self.p.r14 = Default::default(); } for x in v { self.p.r14.push(x); } },
         15 => { let v: Vec<(i64,i64,)> = parse_rows(rows)?; if !append { self.p.r15 = Default::default(); } for x in v { self.p.r15.push(x); } },
            _ => return None,
         }
         Some(())
      }
      fn run(&mut self) { match &self.pool { Some(pl) => { let p = &mut self.p; pl.install(|| p.run()) }, None => self.p.run() } }
      fn run_here(&mut self) { self.p.run() }
      fn run_timeout(&mut self, k: usize) -> Option<bool> { let _ = k; None }
      fn dump(&self) -> String { vec![dump_rel(0, self.p.r0.iter().map(|x| x.render()).collect()), dump_rel(1, self.p.r1.iter().map(|x| x.render()).collect()), dump_rel(2, self.p.r2.iter().map(|x| x.render()).collect()), dump_rel(3, self.p.r3.iter().map(|x| x.render()).collect()), dump_rel(4, self.p.r4.iter().map(|x| x.render()).collect()), dump_rel(5, self.p.r5.iter().map(|x| x.render()).collect()), dump_rel(6, self.p.r6.iter().map(|x| x.render()).collect()), dump_rel(7, self.p.r7.iter().map(|x| x.render()).collect()), dump_rel(8, self.p.r8.iter().map(|x| x.render()).collect()), dump_rel(9, self.p.r9.iter().map(|x| x.render()).collect()), dump_rel(10, self.p.r10.iter().map(|x| x.render()).collect()), dump_rel(11, self.p.r11.iter().map(|x| x.render()).collect()), dump_rel(12, self.p.r12.iter().map(|x| x.render()).collect()), dump_rel(13, self.p.r13.iter().map(|x| x.render()).collect()), dump_rel(14, self.p.r14.iter().map(|x| x.render()).collect()), dump_rel(15, self.p.r15.iter().map(|x| x.render()).collect())].join(" | ") }
      fn iters(&self) -> String { format!("iters {}", self.p.scc_iters.iter().map(|x| x.to_string()).collect::<Vec<_>>().join(" ")) }
   }
}

#[allow(unused, non_snake_case, clippy::all)]
pub mod br2p {
   use ascent::*;
   use ascent::aggregators::*;
   use ascent::lattice::{Dual, set::Set};
   use crate::common::*;
   ascent_par! {
      pub struct Prog;
      relation r0(i64, i64);
      relation r1(i64, i64);
      relation r2(i64);
      relation r3(i64);
      relation r4(i64);
      #[ds(ascent_byods_rels::eqrel)] relation r5(i64, i64);
      relation r6(i64, i64);
      relation r7(i64, i64);
      relation r8(i64, i64);
      relation r9(i64, i64);
      relation r10(i64, i64);
      relation r11(i64, i64);
      relation r12(i64, i64);
      relation r13(i64);
      relation r14(i64, i64);
      relation r15(i64, i64);
      relation r16(i64, i64);
      relation r17(i64, i64);
      relation r18(i64, i64);
      relation r19(i64, i64);
      relation r20(i64);
      relation r21(i64, i64);
      relation r22(i64, i64);
      relation r23(i64);
      relation r24(i64);
      r5(v0, v1) <-- r4(v0), r0(v0, v1);
      r4(v1) <-- r4(v0), r5(v0, v1);
      r5(v0, v1) <-- r1(v0, v1);
      r6(v0, v1) <-- r5(v0, v1);
      r5(v0, v1) <-- r6(v0, v1);
      r7(v0, v1) <-- r5(v0, v1);
      r8(v0, v1) <-- r2(v0), r5(v0, v1);
      r5(v0, v1) <-- r8(v0, v1);
      r9(v0, v1) <-- r2(v0), r5(v0, v1);
      r10(3, v1) <-- r5(3, v1);
      r5(v0, v1) <-- r10(v0, v1);
      r11(2, v1) <-- r5(2, v1);
      r12(v0, v1) <-- r5(v0, v1), r13(v0);
      r5(v0, v1) <-- r12(v0, v1);
      r14(v0, v1) <-- r5(v0, v1), r13(v0);
      r15(v0, v1) <-- r3(v1), r5(v0, v1);
      r5(v0, v1) <-- r15(v0, v1);
      r16(v0, v1) <-- r3(v1), r5(v0, v1);
      r17(v0, 2) <-- r5(v0, 2);
      r5(v0, v1) <-- r17(v0, v1);
      r18(v0, 1) <-- r5(v0, 1);
      r19(v0, v1) <-- r5(v0, v1), r20(v1);
      r5(v0, v1) <-- r19(v0, v1);
      r21(v0, v1) <-- r5(v0, v1), r20(v1);
      r22(v1, v1) <-- r19(0, 3), r5(v0, v1);
      r23(v0) <-- r5(v0, v1), r19(v1, 1);
      r24(1) <-- r5(v0, v1), r18(v1, v2) if ((*v0) < 1) let v3 = ((*v0) + 0);
   }
   pub struct Inst { p: Prog, pool: Option<ascent::rayon::ThreadPool> }
   pub fn make(pool: Option<usize>) -> Box<dyn Driver> {
      let pool = pool.map(|n| ascent::rayon::ThreadPoolBuilder::new().num_threads(n).build().unwrap());
      let p = match &pool { Some(pl) => pl.install(|| Default::default()), None => Default::default() };
      Box::new(Inst { p, pool })
   }
   impl Driver for Inst {
      fn load(&mut self, rel: usize, rows: &[Sexp], append: bool) -> Option<()> {
         match rel {
         0 => { let v: Vec<(i64,i64,)> = parse_rows(rows)?; if !append { self.p.r0 = Default::default(); } for x in v { self.p.r0.push(x); } },
         1 => { let v: Vec<(i64,i64,)> = parse_rows(rows)?; if !append { self.p.r1 = Default::default(); } for x in v { self.p.r1.push(x); } },
         2 => { let v: Vec<(i64,)> = parse_rows(rows)?; if !append { self.p.r2 = Default::default(); } for x in v { self.p.r2.push(x); } },
         3 => { let v: Vec<(i64,)> = parse_rows(rows)?; if !append { self.p.r3 = Default::default(); } for x in v { self.p.r3.push(x); } },
         4 => { let v: Vec<(i64,)> = parse_rows(rows)?; if !append { self.p.r4 = Default::default(); } for x in v { self.p.r4.push(x); } },
         5 => return None,
         6 => { let v: Vec<(i64,i64,)> = parse_rows(rows)?; if !append { self.p.r6 = Default::default(); } for x in v { self.p.r6.push(x); } },
         7 => { let v: Vec<(i64,i64,)> = parse_rows(rows)?; if !append { self.p.r7 = Default::default(); } for x in v { self.p.r7.push(x); } },
         8 => { let v: Vec<(i64,i64,)> = parse_rows(rows)?; if !append { self.p.r8 = Default::default(); } for x in v { self.p.r8.push(x); } },
         9 => { let v: Vec<(i64,i64,)> = parse_rows(rows)?; if !append { self.p.r9 = Default::default(); } for x in v { self.p.r9.push(x); } },
         10 => { let v: Vec<(i64,i64,)> = parse_rows(rows)?; if !append { self.p.r10 = Default::default(); } for x in v { self.p.r10.push(x); } },
         11 => { let v: Vec<(i64,i64,)> = parse_rows(rows)?; if !append { self.p.r11 = Default::default(); } for x in v { self.p.r11.push(x); } },
         12 => { let v: Vec<(i64,i64,)> = parse_rows(rows)?; if !append { self.p.r12 = Default::default(); } for x in v { self.p.r12.push(x); } },
         13 => { let v: Vec<(i64,)> = parse_rows(rows)?; if !append { self.p.r13 = Default::default(); } for x in v { self.p.r13.push(x); } },
         14 => { let v: Vec<(i64,i64,)> = parse_rows(rows)?; if !append { self.p.r14 = Default::default(); } for x in v { self.p.r14.push(x); } },
         15 => { let v: Vec<(i64,i64,)> = parse_rows(rows)?; if !append { self.p.r15 = Default::default(); } for x in v { self.p.r15.push(x); } },
         16 => { let v: Vec<(i64,i64,)> = parse_rows(rows)?; if !append { self.p.r16 = Default::default(); } for x in v { self.p.r16.push(x); } },
         17 => { let v: Vec<(i64,i64,)> = parse_rows(rows)?; if !append { self.p.r17 = Default::default(); } for x in v { self.p.r17.push(x); } },
         18 => { let v: Vec<(i64,i64,)> = parse_rows(rows)?; if !append { self.p.r18 = Default::default(); } for x in v { self.p.r18.push(x); } },
         19 => { let v: Vec<(i64,i64,)> = parse_rows(rows)?; if !append { self.p.r19 = Default::default(); } for x in v { self.p.r19.push(x); } },
         20 => { let v: Vec<(i64,)> = parse_rows(rows)?; if !append { self.p.r20 = Default::default(); } for x in v { self.p.r20.push(x); } },
         21 => { let v: Vec<(i64,i64,)> = parse_rows(rows)?; if !append { self.p.r21 = Default::default(); } for x in v { self.p.r21.push(x); } },
         22 => { let v: Vec<(i64,i64,)> = parse_rows(rows)?; if !append { self.p.r22 = Default::default(); } for x in v { self.p.r22.push(x); } },
         23 => { let v: Vec<(i64,)> = parse_rows(rows)?; if !append { self.p.r23 = Default::default(); } for x in v { self.p.r23.push(x); } },
         24 => { let v: Vec<(i64,)> = parse_rows(rows)?; if !append { self.p.r24 = Default::default(); } for x in v { self.p.r24.push(x); } },
            _ => return None,
         }
         Some(())
      }
      fn run(&mut self) { match &self.pool { Some(pl) => { let p = &mut self.p; pl.install(|| p.run()) }, None => self.p.run() } }
      fn run_here(&mut self) { self.p.run() }
      fn run_timeout(&mut self, k: usize) -> Option<bool> { let _ = k; None }
      fn dump(&self) -> String { vec![dump_rel(0, self.p.r0.iter().map(|x| x.render()).collect()), dump_rel(1, self.p.r1.iter().map(|x| x.render()).collect()), dump_rel(2, self.p.r2.iter().map(|x| x.render()).collect()), dump_rel(3, self.p.r3.iter().map(|x| x.render()).collect()), dump_rel(4, self.p.r4.iter().map(|x| x.render()).collect()), dump_rel(5, self.p.r5.iter().map(|x| x.render()).collect()), dump_rel(6, self.p.r6.iter().map(|x| x.render()).collect()), dump_rel(7, self.p.r7.iter().map(|x| x.render()).collect()), dump_rel(8, self.p.r8.iter().map(|x| x.render()).collect()), dump_rel(9, self.p.r9.iter().map(|x| x.render()).collect()), dump_rel(10, self.p.r10.iter().map(|x| x.render()).collect()), dump_rel(11, self.p.r11.iter().map(|x| x.render()).collect()), dump_rel(12, self.p.r12.iter().map(|x| x.render()).collect()), dump_rel(13, self.p.r13.iter().map(|x| x.render()).collect()), dump_rel(14, self.p.r14.iter().map(|x| x.render()).collect()), dump_rel(15, self.p.r15.iter().map(|x| x.render()).collect()), dump_rel(16, self.p.r16.iter().map(|x| x.render()).collect()), dump_rel(17, self.p.r17.iter().map(|x| x.render()).collect()), dump_rel(18, self.p.r18.iter().map(|x| x.render()).collect()), dump_rel(19, self.p.r19.iter().map(|x| x.render()).collect()), dump_rel(20, self.p.r20.iter().map(|x| x.render()).collect()), dump_rel(21, self.p.r21.iter().map(|x| x.render()).collect()), dump_rel(22, self.p.r22.iter().map(|x| x.render()).collect()), dump_rel(23, self.p.r23.iter().map(|x| x.render()).collect()), dump_rel(24, self.p.r24.iter().map(|x| x.render()).collect())].join(" | ") }
      fn iters(&self) -> String { format!("iters {}", self.p.scc_iters.iter().map(|x| x.to_string()).collect::<Vec<_>>().join(" ")) }
   }
}

#[allow(unused, non_snake_case, clippy::all)]
pub mod w3 {
   use ascent::*;
   use ascent::aggregators::*;
   use ascent::lattice::{Dual, set::Set};
   use crate::common::*;
   ascent! {
      pub struct Prog;
      relation r0(i64, i64, i64);
      relation r1(i64, i64, i64);
      #[ds(ascent_byods_rels::eqrel)] relation r2(i64, i64, i64);
      relation r3(i64, i64, i64);
      r2(v0, v1, v2) <-- r0(v0, v1, v2);
      r2(v0, v1, v2) <-- r1(v0, v1, v2);
      r3(v0, v1, v2) <-- r2(v0, v1, v2);
   }
   pub struct Inst { p: Prog, pool: Option<ascent::rayon::ThreadPool> }
   pub fn make(pool: Option<usize>) -> Box<dyn Driver> {
      let pool = pool.map(|n| ascent::rayon::ThreadPoolBuilder::new().num_threads(n).build().unwrap());
      let p = Default::default();
      Box::new(Inst { p, pool })
   }
   impl Driver for Inst {
      fn load(&mut self, rel: usize, rows: &[Sexp], append: bool) -> Option<()> {
         match rel {
         0 => { let v: Vec<(i64,i64,i64,)> = parse_rows(rows)?; if append { self.p.r0.extend(v) } else { self.p.r0 = v } },
         1 => { let v: Vec<(i64,i64,i64,)> = parse_rows(rows)?; if append { self.p.r1.extend(v) } else { self.p.r1 = v } },
         2 => return None,
         3 => { let v: Vec<(i64,i64,i64,)> = parse_rows(rows)?; if append { self.p.r3.extend(v) } else { self.p.r3 = v } },
            _ => return None,
         }
         Some(())
      }
      fn run(&mut self) { self.p.run() }
      fn run_here(&mut self) { self.p.run() }
      fn run_timeout(&mut self, k: usize) -> Option<bool> { let _ = k; None }
      fn dump(&self) -> String { vec![dump_rel(0, self.p.r0.iter().map(Row::render).collect()), dump_rel(1, self.p.r1.iter().map(Row::render).collect()), dump_rel(2, self.p.r2.iter().map(Row::render).collect()), dump_rel(3, self.p.r3.iter().map(Row::render).collect())].join(" | ") }
      fn iters(&self) -> String { format!("iters {}", self.p.scc_iters.iter().map(|x| x.to_string()).collect::<Vec<_>>().join(" ")) }
   }
}

fn main() {
   common::main_loop(&[("bn1p", bn1p::make as common::Factory), ("br2p", br2p::make as common::Factory), ("w3", w3::make as common::Factory)]);
}
