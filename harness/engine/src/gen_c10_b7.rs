#[path = "common.rs"]
mod common;
#[allow(unused, non_snake_case, clippy::all)]
pub mod bn1p {
   use ascent::*;
   use ascent::aggregators::*;
   use ascent::lattice::{Dual, set::Set};
   use crate::common::*;
   ascent_par! {
      pub struct Prog;
      relation r0(i64, i64);
      relation r1(i64, i64);
      relation r2(i64);
      relation r3(i64);
      relation r4(i64);
      #[ds(ascent_byods_rels::eqrel)] relation r5(i64, i64);
      relation r6(i64, i64);
      relation r7(i64, i64);
      relation r8(i64, i64);
      relation r9(i64, i64);
      relation r10(i64);
      relation r11(i64, i64);
      relation r12(i64, i64);
      relation r13(i64, i64);
      relation r14(i64);
      relation r15(i64, i64);
      r5(v0, v1) <-- r0(v0, v1);
      r5(v1, v0) <-- r1(v0, v1);
      r6(v0, v1) <-- r5(v0, v1);
      r7(v0, v1) <-- r2(v0), r5(v0, v1);
      r8(1, v1) <-- r5(1, v1);
      r9(v0, v1) <-- r5(v0, v1), r10(v0);
      r11(v0, v1) <-- r3(v1), r5(v0, v1);
      r12(v0, 1) <-- r5(v0, 1);
      r13(v0, v1) <-- r5(v0, v1), r14(v1);
      r15(v1, v4) <-- r6(v0, v1), r5(((*v1) + 1), v2), r11(v3, v4);
   }
   pub struct Inst { p: Prog, pool: Option<ascent::rayon::ThreadPool> }
   pub fn make(pool: Option<usize>) -> Box<dyn Driver> {
      let pool = pool.map(|n| ascent::rayon::ThreadPoolBuilder::new().num_threads(n).build().unwrap());
      let p = match &pool { Some(pl) => pl.install(|| Default::default()), None => Default::default() };
      Box::new(Inst { p, pool })
   }
   impl Driver for Inst {
      fn load(&mut self, rel: usize, rows: &[Sexp], append: bool) -> Option<()> {
         match rel {
         0 => { let v: Vec<(i64,i64,)> = parse_rows(rows)?; if !append { self.p.r0 = Default::default(); } for x in v { self.p.r0.push(x); } },
         1 => { let v: Vec<(i64,i64,)> = parse_rows(rows)?; if !append { self.p.r1 = Default::default(); } for x in v { self.p.r1.push(x); } },
         2 => { let v: Vec<(i64,)> = parse_rows(rows)?; if !append { self.p.r2 = Default::default(); } for x in v { self.p.r2.push(x); } },
         3 => { let v: Vec<(i64,)> = parse_rows(rows)?; if !append { self.p.r3 = Default::default(); } for x in v { self.p.r3.push(x); } },
         4 => { let v: Vec<(i64,)> = parse_rows(rows)?; if !append { self.p.r4 = Default::default(); } for x in v { self.p.r4.push(x); } },
         5 => return None,
         6 => { let v: Vec<(i64,i64,)> = parse_rows(rows)?; if !append { self.p.r6 = Default::default(); } for x in v { self.p.r6.push(x); } },
         7 => { let v: Vec<(i64,i64,)> = parse_rows(rows)?; if !append { self.p.r7 = Default::default(); } for x in v { self.p.r7.push(x); } },
         8 => { let v: Vec<(i64,i64,)> = parse_rows(rows)?; if !append { self.p.r8 = Default::default(); } for x in v { self.p.r8.push(x); } },
         9 => { let v: Vec<(i64,i64,)> = parse_rows(rows)?; if !append { self.p.r9 = Default::default(); } for x in v { self.p.r9.push(x); } },
         10 => { let v: Vec<(i64,)> = parse_rows(rows)?; if !append { self.p.r10 = Default::default(); } for x in v { self.p.r10.push(x); } },
         11 => { let v: Vec<(i64,i64,)> = parse_rows(rows)?; if !append { self.p.r11 = Default::default(); } for x in v { self.p.r11.push(x); } },
         12 => { let v: Vec<(i64,i64,)> = parse_rows(rows)?; if !append { self.p.r12 = Default::default(); } for x in v { self.p.r12.push(x); } },
         13 => { let v: Vec<(i64,i64,)> = parse_rows(rows)?; if !append { self.p.r13 = Default::default(); } for x in v { self.p.r13.push(x); } },
         14 => { let v: Vec<(i64,)> = parse_rows(rows)?; if !append { self.p.r14 = Default::default(); } for x in v { self.p.r14.push(x); } },
         15 => { let v: Vec<(i64,i64,)> = parse_rows(rows)?; if !append { self.p.r15 = Default::default(); } for x in v { self.p.r15.push(x); } },
            _ => return None,
         }
         Some(())
      }
      fn run(&mut self) { match &self.pool { Some(pl) => { let p = &mut self.p; pl.install(|| p.run()) }, None => self.p.run() } }
      fn run_here(&mut self) { self.p.run() }
      fn run_timeout(&mut self, k: usize) -> Option<bool> { let _ = k; None }
      fn dump(&self) -> String { vec![dump_rel(0, self.p.r0.iter().map(|x| x.render()).collect()), dump_rel(1, self.p.r1.iter().map(|x| x.render()).collect()), dump_rel(2, self.p.r2.iter().map(|x| x.render()).collect()), dump_rel(3, self.p.r3.iter().map(|x| x.render()).collect()), dump_rel(4, self.p.r4.iter().map(|x| x.render()).collect()), dump_rel(5, self.p.r5.iter().map(|x| x.render()).collect()), dump_rel(6, self.p.r6.iter().map(|x| x.render()).collect()), dump_rel(7, self.p.r7.iter().map(|x| x.render()).collect()), dump_rel(8, self.p.r8.iter().map(|x| x.render()).collect()), dump_rel(9, self.p.r9.iter().map(|x| x.render()).collect()), dump_rel(10, self.p.r10.iter().map(|x| x.render()).collect()), dump_rel(11, self.p.r11.iter().map(|x| x.render()).collect()), dump_rel(12, self.p.r12.iter().map(|x| x.render()).collect()), dump_rel(13, self.p.r13.iter().map(|x| x.render()).collect()), dump_rel(14, self.p.r14.iter().map(|x| x.render()).collect()), dump_rel(15, self.p.r15.iter().map(|x| x.render()).collect())].join(" | ") }
      fn iters(&self) -> String { format!("iters {}", self.p.scc_iters.iter().map(|x| x.to_string()).collect::<Vec<_>>().join(" ")) }
   }
}

#[allow(unused, non_snake_case, clippy::all)]
pub mod br2p {
   use ascent::*;
   use ascent::aggregators::*;
   use ascent::lattice::{Dual, set::Set};
   use crate::common::*;
   ascent_par! {
      pub struct Prog;
      relation r0(i64, i64);
      relation r1(i64, i64);
      relation r2(i64);
      relation r3(i64);
      relation r4(i64);
      #[ds(ascent_byods_rels::eqrel)] relation r5(i64, i64);
      relation r6(i64, i64);
      relation r7(i64, i64);
      relation r8(i64, i64);
      relation r9(i64, i64);
      relation r10(i64, i64);
      relation r11(i64, i64);
      relation r12(i64, i64);
      relation r13(i64);
      relation r14(i64, i64);
      relation r15(i64, i64);
      relation r16(i64, i64);
      relation r17(i64, i64);
      relation r18(i64, i64);
      relation r19(i64, i64);
      relation r20(i64);
      relation r21(i64, i64);
      relation r22(i64, i64);
      relation r23(i64);
      relation r24(i64);
      r5(v0, v1) <-- r4(v0), r0(v0, v1);
      r4(v1) <-- r4(v0), r5(v0, v1);
      r5(v0, v1) <-- r1(v0, v1);
      r6(v0, v1) <-- r5(v0, v1);
      r5(v0, v1) <-- r6(v0, v1);
      r7(v0, v1) <-- r5(v0, v1);
      r8(v0, v1) <-- r2(v0), r5(v0, v1);
      r5(v0, v1) <-- r8(v0, v1);
      r9(v0, v1) <-- r2(v0), r5(v0, v1);
      r10(3, v1) <-- r5(3, v1);
      r5(v0, v1) <-- r10(v0, v1);
      r11(2, v1) <-- r5(2, v1);
      r12(v0, v1) <-- r5(v0, v1), r13(v0);
      r5(v0, v1) <-- r12(v0, v1);
      r14(v0, v1) <-- r5(v0, v1), r13(v0);
      r15(v0, v1) <-- r3(v1), r5(v0, v1);
      r5(v0, v1) <-- r15(v0, v1);
      r16(v0, v1) <-- r3(v1), r5(v0, v1);
      r17(v0, 2) <-- r5(v0, 2);
      r5(v0, v1) <-- r17(v0, v1);
      r18(v0, 1) <-- r5(v0, 1);
      r19(v0, v1) <-- r5(v0, v1), r20(v1);
      r5(v0, v1) <-- r19(v0, v1);
      r21(v0, v1) <-- r5(v0, v1), r20(v1);
      r22(v1, v1) <-- r19(0, 3), r5(v0, v1);
      r23(v0) <-- r5(v0, v1), r19(v1, 1);
      r24(1) <-- r5(v0, v1), r18(v1, v2) if ((*v0) < 1) let v3 = ((*v0) + 0);
   }
   pub struct Inst { p: Prog, pool: Option<ascent::rayon::ThreadPool> }
   pub fn make(pool: Option<usize>) -> Box<dyn Driver> {
      let pool = pool.map(|n| ascent::rayon::ThreadPoolBuilder::new().num_threads(n).build().unwrap());
      let p = match &pool { Some(pl) => pl.install(|| Default::default()), None => Default::default() };
      Box::new(Inst { p, pool })
   }
   impl Driver for Inst {
      fn load(&mut self, rel: usize, rows: &[Sexp], append: bool) -> Option<()> {
         match rel {
         0 => { let v: Vec<(i64,i64,)> = parse_rows(rows)?; if !append { self.p.r0 = Default::default(); } for x in v { self.p.r0.push(x); } },
         1 => { let v: Vec<(i64,i64,)> = parse_rows(rows)?; if !append { self.p.r1 = Default::default(); } for x in v { self.p.r1.push(x); } },
         2 => { let v: Vec<(i64,)> = parse_rows(rows)?; if !append { self.p.r2 = Default::default(); } for x in v { self.p.r2.push(x); } },
         3 => { let v: Vec<(i64,)> = parse_rows(rows)?; if !append { self.p.r3 = Default::default(); } for x in v { self.p.r3.push(x); } },
         4 => { let v: Vec<(i64,)> = parse_rows(rows)?; if !append { self.p.r4 = Default::default(); } for x in v { self.p.r4.push(x); } },
         5 => return None,
         6 => { let v: Vec<(i64,i64,)> = parse_rows(rows)?; if !append { self.p.r6 = Default::default(); } for x in v { self.p.r6.push(x); } },
         7 => { let v: Vec<(i64,i64,)> = parse_rows(rows)?; if !append { self.p.r7 = Default::default(); } for x in v { self.p.r7.push(x); } },
         8 => { let v: Vec<(i64,i64,)> = parse_rows(rows)?; if !append { self.p.r8 = Default::default(); } for x in v { self.p.r8.push(x); } },
         9 => { let v: Vec<(i64,i64,)> = parse_rows(rows)?; if !append { self.p.r9 = Default::default(); } for x in v { self.p.r9.push(x); } },
         10 => { let v: Vec<(i64,i64,)> = parse_rows(rows)?; if !append { self.p.r10 = Default::default(); } for x in v { self.p.r10.push(x); } },
         11 => { let v: Vec<(i64,i64,)> = parse_rows(rows)?; if !append { self.p.r11 = Default::default(); } for x in v { self.p.r11.push(x); } },
         12 => { let v: Vec<(i64,i64,)> = parse_rows(rows)?; if !append { self.p.r12 = Default::default(); } for x in v { self.p.r12.push(x); } },
         13 => { let v: Vec<(i64,)> = parse_rows(rows)?; if !append { self.p.r13 = Default::default(); } for x in v { self.p.r13.push(x); } },
         14 => { let v: Vec<(i64,i64,)> = parse_rows(rows)?; if !append { self.p.r14 = Default::default(); } for x in v { self.p.r14.push(x); } },
         15 => { let v: Vec<(i64,i64,)> = parse_rows(rows)?; if !append { self.p.r15 = Default::default(); } for x in v { self.p.r15.push(x); } },
         16 => { let v: Vec<(i64,i64,)> = parse_rows(rows)?; if !append { self.p.r16 = Default::default(); } for x in v { self.p.r16.push(x); } },
         17 => { let v: Vec<(i64,i64,)> = parse_rows(rows)?; if !append { self.p.r17 = Default::default(); } for x in v { self.p.r17.push(x); } },
         18 => { let v: Vec<(i64,i64,)> = parse_rows(rows)?; if !append { self.p.r18 = Default::default(); } for x in v { self.p.r18.push(x); } },
         19 => { let v: Vec<(i64,i64,)> = parse_rows(rows)?; if !append { self.p.r19 = Default::default(); } for x in v { self.p.r19.push(x); } },
         20 => { let v: Vec<(i64,)> = parse_rows(rows)?; if !append { self.p.r20 = Default::default(); } for x in v { self.p.r20.push(x); } },
         21 => { let v: Vec<(i64,i64,)> = parse_rows(rows)?; if !append { self.p.r21 = Default::default(); } for x in v { self.p.r21.push(x); } },
         22 => { let v: Vec<(i64,i64,)> = parse_rows(rows)?; if !append { self.p.r22 = Default::default(); } for x in v { self.p.r22.push(x); } },
         23 => { let v: Vec<(i64,)> = parse_rows(rows)?; if !append { self.p.r23 = Default::default(); } for x in v { self.p.r23.push(x); } },
         24 => { let v: Vec<(i64,)> = parse_rows(rows)?; if !append { self.p.r24 = Default::default(); } for x in v { self.p.r24.push(x); } },
            _ => return None,
         }
         Some(())
      }
      fn run(&mut self) { match &self.pool { Some(pl) => { let p = &mut self.p; pl.install(|| p.run()) }, None => self.p.run() } }
      fn run_here(&mut self) { self.p.run() }
      fn run_timeout(&mut self, k: usize) -> Option<bool> { let _ = k; None }
      fn dump(&self) -> String { vec![dump_rel(0, self.p.r0.iter().map(|x| x.render()).collect()), dump_rel(1, self.p.r1.iter().map(|x| x.render()).collect()), dump_rel(2, self.p.r2.iter().map(|x| x.render()).collect()), dump_rel(3, self.p.r3.iter().map(|x| x.render()).collect()), dump_rel(4, self.p.r4.iter().map(|x| x.render()).collect()), dump_rel(5, self.p.r5.iter().map(|x| x.render()).collect()), dump_rel(6, self.p.r6.iter().map(|x| x.render()).collect()), dump_rel(7, self.p.r7.iter().map(|x| x.render()).collect()), dump_rel(8, self.p.r8.iter().map(|x| x.render()).collect()), dump_rel(9, self.p.r9.iter().map(|x| x.render()).collect()), dump_rel(10, self.p.r10.iter().map(|x| x.render()).collect()), dump_rel(11, self.p.r11.iter().map(|x| x.render()).collect()), dump_rel(12, self.p.r12.iter().map(|x| x.render()).collect()), dump_rel(13, self.p.r13.iter().map(|x| x.render()).collect()), dump_rel(14, self.p.r14.iter().map(|x| x.render()).collect()), dump_rel(15, self.p.r15.iter().map(|x| x.render()).collect()), dump_rel(16, self.p.r16.iter().map(|x| x.render()).collect()), dump_rel(17, self.p.r17.iter().map(|x| x.render()).collect()), dump_rel(18, self.p.r18.iter().map(|x| x.render()).collect()), dump_rel(19, self.p.r19.iter().map(|x| x.render()).collect()), dump_rel(20, self.p.r20.iter().map(|x| x.render()).collect()), dump_rel(21, self.p.r21.iter().map(|x| x.render()).collect()), dump_rel(22, self.p.r22.iter().map(|x| x.render()).collect()), dump_rel(23, self.p.r23.iter().map(|x| x.render()).collect()), dump_rel(24, self.p.r24.iter().map(|x| x.render()).collect())].join(" | ") }
      fn iters(&self) -> String { format!("iters {}", self.p.scc_iters.iter().map(|x| x.to_string()).collect::<Vec<_>>().join(" ")) }
   }
}

#[allow(unused, non_snake_case, clippy::all)]
pub mod tr3 {
   use ascent::*;
   use ascent::aggregators::*;
   use ascent::lattice::{Dual, set::Set};
   use crate::common::*;
   ascent! {
      pub struct Prog;
      relation r0(i64, i64, i64);
      relation r1(i64, i64, i64);
      relation r2(i64);
      relation r3(i64);
      relation r4(i64);
      relation r5(i64, i64);
      relation r6(i64, i64);
      #[ds(ascent_byods_rels::eqrel)] relation r7(i64, i64, i64);
      relation r8(i64, i64, i64);
      relation r9(i64, i64, i64);
      relation r10(i64, i64, i64);
      relation r11(i64, i64, i64);
      relation r12(i64, i64, i64);
      relation r13(i64, i64, i64);
      relation r14(i64, i64, i64);
      relation r15(i64);
      relation r16(i64, i64, i64);
      relation r17(i64, i64, i64);
      relation r18(i64, i64, i64);
      relation r19(i64, i64, i64);
      relation r20(i64, i64, i64);
      relation r21(i64);
      relation r22(i64, i64, i64);
      relation r23(i64, i64, i64);
      relation r24(i64, i64, i64);
      relation r25(i64, i64, i64);
      relation r26(i64, i64, i64);
      relation r27(i64, i64);
      relation r28(i64, i64, i64);
      relation r29(i64, i64, i64);
      relation r30(i64, i64, i64);
      relation r31(i64, i64, i64);
      relation r32(i64, i64, i64);
      relation r33(i64, i64, i64);
      relation r34(i64, i64);
      relation r35(i64, i64, i64);
      relation r36(i64, i64, i64);
      relation r37(i64, i64, i64);
      relation r38(i64, i64, i64);
      relation r39(i64, i64, i64);
      relation r40(i64, i64, i64);
      relation r41(i64, i64, i64);
      relation r42(i64, i64, i64);
      relation r43(i64, i64, i64);
      relation r44(i64, i64, i64);
      relation r45(i64, i64, i64);
      relation r46(i64, i64, i64);
      relation r47(i64);
      relation r48(i64, i64);
      relation r49(i64, i64, i64);
      r7(v9, v0, v1) <-- r6(v9, v0), r0(v9, v0, v1);
      r6(v9, v0) <-- r6(v9, v1), r7(v9, v0, v1);
      r6(v8, v0) <-- r6(v9, v0), r5(v9, v8);
      r8(v0, v1, v2) <-- r7(v0, v1, v2);
      r7(v0, v1, v2) <-- r8(v0, v1, v2);
      r9(v0, v1, v2) <-- r7(v0, v1, v2);
      r10(v0, v1, v2) <-- r4(v0), r7(v0, v1, v2);
      r7(v0, v1, v2) <-- r10(v0, v1, v2);
      r11(v0, v1, v2) <-- r4(v0), r7(v0, v1, v2);
      r12(2, v1, v2) <-- r7(2, v1, v2);
      r7(v0, v1, v2) <-- r12(v0, v1, v2);
      r13(2, v1, v2) <-- r7(2, v1, v2);
      r14(v0, v1, v2) <-- r7(v0, v1, v2), r15(v0);
      r16(v0, v1, v2) <-- r2(v1), r7(v0, v1, v2);
      r7(v0, v1, v2) <-- r16(v0, v1, v2);
      r17(v0, v1, v2) <-- r2(v1), r7(v0, v1, v2);
      r18(v0, 0, v2) <-- r7(v0, 0, v2);
      r7(v0, v1, v2) <-- r18(v0, v1, v2);
      r19(v0, 0, v2) <-- r7(v0, 0, v2);
      r20(v0, v1, v2) <-- r7(v0, v1, v2), r21(v1);
      r22(v0, v1, v2) <-- r4(v0), r2(v1), r7(v0, v1, v2);
      r7(v0, v1, v2) <-- r22(v0, v1, v2);
      r23(v0, v1, v2) <-- r4(v0), r2(v1), r7(v0, v1, v2);
      r24(0, 0, v2) <-- r7(0, 0, v2);
      r7(v0, v1, v2) <-- r24(v0, v1, v2);
      r25(2, 0, v2) <-- r7(2, 0, v2);
      r26(v0, v1, v2) <-- r27(v0, v1), r7(v0, v1, v2);
      r28(v0, v1, v2) <-- r7(v0, v1, v2), r27(v0, v1);
      r29(v0, v1, v2) <-- r4(v0), r3(v2), r7(v0, v1, v2);
      r7(v0, v1, v2) <-- r29(v0, v1, v2);
      r30(v0, v1, v2) <-- r4(v0), r3(v2), r7(v0, v1, v2);
      r31(2, v1, 3) <-- r7(2, v1, 3);
      r7(v0, v1, v2) <-- r31(v0, v1, v2);
      r32(0, v1, 3) <-- r7(0, v1, 3);
      r33(v0, v1, v2) <-- r34(v0, v2), r7(v0, v1, v2);
      r35(v0, v1, v2) <-- r7(v0, v1, v2), r34(v0, v2);
      r36(v0, v1, v2) <-- r2(v1), r3(v2), r7(v0, v1, v2);
      r7(v0, v1, v2) <-- r36(v0, v1, v2);
      r37(v0, v1, v2) <-- r2(v1), r3(v2), r7(v0, v1, v2);
      r38(v0, 3, 0) <-- r7(v0, 3, 0);
      r7(v0, v1, v2) <-- r38(v0, v1, v2);
      r39(v0, 1, 3) <-- r7(v0, 1, 3);
      r40(v0, v1, v2) <-- r4(v0), r2(v1), r3(v2), r7(v0, v1, v2);
      r7(v0, v1, v2) <-- r40(v0, v1, v2);
      r41(v0, v1, v2) <-- r4(v0), r2(v1), r3(v2), r7(v0, v1, v2);
      r42(0, 1, 3) <-- r7(0, 1, 3);
      r7(v0, v1, v2) <-- r42(v0, v1, v2);
      r43(2, 0, 2) <-- r7(2, 0, 2);
      r44(v0, v1, v2) <-- r45(v0, v1, v2), r7(v0, v1, v2);
      r46(v0, v1, v2) <-- r7(v0, v1, v2), r45(v0, v1, v2);
      r47(v1) <-- r7(0, v0, v1), r23(v2, ((*v0) + 0), 3);
      r48(v0, v0) <-- r20(v0, 2, 1), r7(((*v0) + 0), v0, 2);
      r49(((*v1) + 1), v0, 0) <-- r41(v0, 3, v1), r7(((*v0) + 0), ((*v1) + 0), v1) if ((*v1) <= 2) let v2 = ((*v0) + 1), if ((*v1) < 6);
   }
   pub struct Inst { p: Prog, pool: Option<ascent::rayon::ThreadPool> }
   pub fn make(pool: Option<usize>) -> Box<dyn Driver> {
      let pool = pool.map(|n| ascent::rayon::ThreadPoolBuilder::new().num_threads(n).build().unwrap());
      let p = Default::default();
      Box::new(Inst { p, pool })
   }
   impl Driver for Inst {
      fn load(&mut self, rel: usize, rows: &[Sexp], append: bool) -> Option<()> {
         match rel {
         0 => { let v: Vec<(i64,i64,i64,)> = parse_rows(rows)?; if append { self.p.r0.extend(v) } else { self.p.r0 = v } },
         1 => { let v: Vec<(i64,i64,i64,)> = parse_rows(rows)?; if append { self.p.r1.extend(v) } else { self.p.r1 = v } },
         2 => { let v: Vec<(i64,)> = parse_rows(rows)?; if append { self.p.r2.extend(v) } else { self.p.r2 = v } },
         3 => { let v: Vec<(i64,)> = parse_rows(rows)?; if append { self.p.r3.extend(v) } else { self.p.r3 = v } },
         4 => { let v: Vec<(i64,)> = parse_rows(rows)?; if append { self.p.r4.extend(v) } else { self.p.r4 = v } },
         5 => { let v: Vec<(i64,i64,)> = parse_rows(rows)?; if append { self.p.r5.extend(v) } else { self.p.r5 = v } },
         6 => { let v: Vec<(i64,i64,)> = parse_rows(rows)?; if append { self.p.r6.extend(v) } else { self.p.r6 = v } },
         7 => return None,
         8 => { let v: Vec<(i64,i64,i64,)> = parse_rows(rows)?; if append { self.p.r8.extend(v) } else { self.p.r8 = v } },
         9 => { let v: Vec<(i64,i64,i64,)> = parse_rows(rows)?; if append { self.p.r9.extend(v) } else { self.p.r9 = v } },
         10 => { let v: Vec<(i64,i64,i64,)> = parse_rows(rows)?; if append { self.p.r10.extend(v) } else { self.p.r10 = v } },
         11 => { let v: Vec<(i64,i64,i64,)> = parse_rows(rows)?; if append { self.p.r11.extend(v) } else { self.p.r11 = v } },
         12 => { let v: Vec<(i64,i64,i64,)> = parse_rows(rows)?; if append { self.p.r12.extend(v) } else { self.p.r12 = v } },
         13 => { let v: Vec<(i64,i64,i64,)> = parse_rows(rows)?; if append { self.p.r13.extend(v) } else { self.p.r13 = v } },
         14 => { let v: Vec<(i64,i64,i64,)> = parse_rows(rows)?; if append { self.p.r14.extend(v) } else { self.p.r14 = v } },
         15 => { let v: Vec<(i64,)> = parse_rows(rows)?; if append { self.p.r15.extend(v) } else { self.p.r15 = v } },
         16 => { let v: Vec<(i64,i64,i64,)> = parse_rows(rows)?; if append { self.p.r16.extend(v) } else { self.p.r16 = v } },
         17 => { let v: Vec<(i64,i64,i64,)> = parse_rows(rows)?; if append { self.p.r17.extend(v) } else { self.p.r17 = v } },
         18 => { let v: Vec<(i64,i64,i64,)> = parse_rows(rows)?; if append { self.p.r18.extend(v) } else { self.p.r18 = v } },
         19 => { let v: Vec<(i64,i64,i64,)> = parse_rows(rows)?; if append { self.p.r19.extend(v) } else { self.p.r19 = v } },
         20 => { let v: Vec<(i64,i64,i64,)> = parse_rows(rows)?; if append { self.p.r20.extend(v) } else { self.p.r20 = v } },
         21 => { let v: Vec<(i64,)> = parse_rows(rows)?; if append { self.p.r21.extend(v) } else { self.p.r21 = v } },
         22 => { let v: Vec<(i64,i64,i64,)> = parse_rows(rows)?; if append { self.p.r22.extend(v) } else { self.p.r22 = v } },
         23 => { let v: Vec<(i64,i64,i64,)> = parse_rows(rows)?; if append { self.p.r23.extend(v) } else { self.p.r23 = v } },
         24 => { let v: Vec<(i64,i64,i64,)> = parse_rows(rows)?; if append { self.p.r24.extend(v) } else { self.p.r24 = v } },
         25 => { let v: Vec<(i64,i64,i64,)> = parse_rows(rows)?; if append { self.p.r25.extend(v) } else { self.p.r25 = v } },
         26 => { let v: Vec<(i64,i64,i64,)> = parse_rows(rows)?; if append { self.p.r26.extend(v) } else { self.p.r26 = v } },
         27 => { let v: Vec<(i64,i64,)> = parse_rows(rows)?; if append { self.p.r27.extend(v) } else { self.p.r27 = v } },
         28 => { let v: Vec<(i64,i64,i64,)> = parse_rows(rows)?; if append { self.p.r28.extend(v) } else { self.p.r28 = v } },
         29 => { let v: Vec<(i64,i64,i64,)> = parse_rows(rows)?; if append { self.p.r29.extend(v) } else { self.p.r29 = v } },
         30 => { let v: Vec<(i64,i64,i64,)> = parse_rows(rows)?; if append { self.p.r30.extend(v) } else { self.p.r30 = v } },
         31 => { let v: Vec<(i64,i64,i64,)> = parse_rows(rows)?; if append { self.p.r31.extend(v) } else { self.p.r31 = v } },
         32 => { let v: Vec<(i64,i64,i64,)> = parse_rows(rows)?; if append { self.p.r32.extend(v) } else { self.p.r32 = v } },
         33 => { let v: Vec<(i64,i64,i64,)> = parse_rows(rows)?; if append { self.p.r33.extend(v) } else { self.p.r33 = v } },
         34 => { let v: Vec<(i64,i64,)> = parse_rows(rows)?; if append { self.p.r34.extend(v) } else { self.p.r34 = v } },
         35 => { let v: Vec<(i64,i64,i64,)> = parse_rows(rows)?; if append { self.p.r35.extend(v) } else { self.p.r35 = v } },
         36 => { let v: Vec<(i64,i64,i64,)> = parse_rows(rows)?; if append { self.p.r36.extend(v) } else { self.p.r36 = v } },
         37 => { let v: Vec<(i64,i64,i64,)> = parse_rows(rows)?; if append { self.p.r37.extend(v) } else { self.p.r37 = v } },
         38 => { let v: Vec<(i64,i64,i64,)> = parse_rows(rows)?; if append { self.p.r38.extend(v) } else { self.p.r38 = v } },
         39 => { let v: Vec<(i64,i64,i64,)> = parse_rows(rows)?; if append { self.p.r39.extend(v) } else { self.p.r39 = v } },
         40 => { let v: Vec<(i64,i64,i64,)> = parse_rows(rows)?; if append { self.p.r40.extend(v) } else { self.p.r40 = v } },
         41 => { let v: Vec<(i64,i64,i64,)> = parse_rows(rows)?; if append { self.p.r41.extend(v) } else { self.p.r41 = v } },
         42 => { let v: Vec<(i64,i64,i64,)> = parse_rows(rows)?; if append { self.p.r42.extend(v) } else { self.p.r42 = v } },
         43 => { let v: Vec<(i64,i64,i64,)> = parse_rows(rows)?; if append { self.p.r43.extend(v) } else { self.p.r43 = v } },
         44 => { let v: Vec<(i64,i64,i64,)> = parse_rows(rows)?; if append { self.p.r44.extend(v) } else { self.p.r44 = v } },
         45 => { let v: Vec<(i64,i64,i64,)> = parse_rows(rows)?; if append { self.p.r45.extend(v) } else { self.p.r45 = v } },
         46 => { let v: Vec<(i64,i64,i64,)> = parse_rows(rows)?; if append { self.p.r46.extend(v) } else { self.p.r46 = v } },
         47 => { let v: Vec<(i64,)> = parse_rows(rows)?; if append { self.p.r47.extend(v) } else { self.p.r47 = v } },
         48 => { let v: Vec<(i64,i64,)> = parse_rows(rows)?; if append { self.p.r48.extend(v) } else { self.p.r48 = v } },
         49 => { let v: Vec<(i64,i64,i64,)> = parse_rows(rows)?; if append { self.p.r49.extend(v) } else { self.p.r49 = v } },
            _ => return None,
         }
         Some(())
      }
      fn run(&mut self) { self.p.run() }
      fn run_here(&mut self) { self.p.run() }
      fn run_timeout(&mut self, k: usize) -> Option<bool> { let _ = k; None }
      fn dump(&self) -> String { vec![dump_rel(0, self.p.r0.iter().map(Row::render).collect()), dump_rel(1, self.p.r1.iter().map(Row::render).collect()), dump_rel(2, self.p.r2.iter().map(Row::render).collect()), dump_rel(3, self.p.r3.iter().map(Row::render).collect()), dump_rel(4, self.p.r4.iter().map(Row::render).collect()), dump_rel(5, self.p.r5.iter().map(Row::render).collect()), dump_rel(6, self.p.r6.iter().map(Row::render).collect()), dump_rel(7, self.p.r7.iter().map(Row::render).collect()), dump_rel(8, self.p.r8.iter().map(Row::render).collect()), dump_rel(9, self.p.r9.iter().map(Row::render).collect()), dump_rel(10, self.p.r10.iter().map(Row::render).collect()), dump_rel(11, self.p.r11.iter().map(Row::render).collect()), dump_rel(12, self.p.r12.iter().map(Row::render).collect()), dump_rel(13, self.p.r13.iter().map(Row::render).collect()), dump_rel(14, self.p.r14.iter().map(Row::render).collect()), dump_rel(15, self.p.r15.iter().map(Row::render).collect()), dump_rel(16, self.p.r16.iter().map(Row::render).collect()), dump_rel(17, self.p.r17.iter().map(Row::render).collect()), dump_rel(18, self.p.r18.iter().map(Row::render).collect()), dump_rel(19, self.p.r19.iter().map(Row::render).collect()), dump_rel(20, self.p.r20.iter().map(Row::render).collect()), dump_rel(21, self.p.r21.iter().map(Row::render).collect()), dump_rel(22, self.p.r22.iter().map(Row::render).collect()), dump_rel(23, self.p.r23.iter().map(Row::render).collect()), dump_rel(24, self.p.r24.iter().map(Row::render).collect()), dump_rel(25, self.p.r25.iter().map(Row::render).collect()), dump_rel(26, self.p.r26.iter().map(Row::render).collect()), dump_rel(27, self.p.r27.iter().map(Row::render).collect()), dump_rel(28, self.p.r28.iter().map(Row::render).collect()), dump_rel(29, self.p.r29.iter().map(Row::render).collect()), dump_rel(30, self.p.r30.iter().map(Row::render).collect()), dump_rel(31, self.p.r31.iter().map(Row::render).collect()), dump_rel(32, self.p.r32.iter().map(Row::render).collect()), dump_rel(33, self.p.r33.iter().map(Row::render).collect()), dump_rel(34, self.p.r34.iter().map(Row::render).collect()), dump_rel(35, self.p.r35.iter().map(Row::render).collect()), dump_rel(36, self.p.r36.iter().map(Row::render).collect()), dump_rel(37, self.p.r37.iter().map(Row::render).collect()), dump_rel(38, self.p.r38.iter().map(Row::render).collect()), dump_rel(39, self.p.r39.iter().map(Row::render).collect()), dump_rel(40, self.p.r40.iter().map(Row::render).collect()), dump_rel(41, self.p.r41.iter().map(Row::render).collect()), dump_rel(42, self.p.r42.iter().map(Row::render).collect()), dump_rel(43, self.p.r43.iter().map(Row::render).collect()), dump_rel(44, self.p.r44.iter().map(Row::render).collect()), dump_rel(45, self.p.r45.iter().map(Row::render).collect()), dump_rel(46, self.p.r46.iter().map(Row::render).collect()), dump_rel(47, self.p.r47.iter().map(Row::render).collect()), dump_rel(48, self.p.r48.iter().map(Row::render).collect()), dump_rel(49, self.p.r49.iter().map(Row::render).collect())].join(" | ") }
      fn iters(&self) -> String { format!("iters {}", self.p.scc_iters.iter().map(|x| x.to_string()).collect::<Vec<_>>().join(" ")) }
   }
}

#[allow(unused, non_snake_case, clippy::all)]
pub mod bn5p {
   use ascent::*;
   use ascent::aggregators::*;
   use ascent::lattice::{Dual, set::Set};
   use crate::common::*;
   ascent_par! {
      pub struct Prog;
      relation r0(i64, i64);
      relation r1(i64, i64);
      relation r2(i64);
      relation r3(i64);
      relation r4(i64);
      #[ds(ascent_byods_rels::eqrel)] relation r5(i64, i64);
      relation r6(i64, i64);
      relation r7(i64, i64);
      relation r8(i64, i64);
      relation r9(i64, i64);
      relation r10(i64);
      relation r11(i64, i64);
      relation r12(i64, i64);
      relation r13(i64, i64);
      relation r14(i64);
      relation r15(i64, i64);
      r5(v0, v1) <-- r0(v0, v1);
      r5(v1, v0) <-- r1(v0, v1);
      r5(v0, v2) <-- r5(v0, v1), r1(v1, v2);
      r6(v0, v1) <-- r5(v0, v1);
      r7(v0, v1) <-- r2(v0), r5(v0, v1);
      r8(0, v1) <-- r5(0, v1);
      r9(v0, v1) <-- r5(v0, v1), r10(v0);
      r11(v0, v1) <-- r3(v1), r5(v0, v1);
      r12(v0, 2) <-- r5(v0, 2);
      r13(v0, v1) <-- r5(v0, v1), r14(v1);
      r15(v2, v1) <-- r3(2), r5(v0, v1), r13(v2, v3);
   }
   pub struct Inst { p: Prog, pool: Option<ascent::rayon::ThreadPool> }
   pub fn make(pool: Option<usize>) -> Box<dyn Driver> {
      let pool = pool.map(|n| ascent::rayon::ThreadPoolBuilder::new().num_threads(n).build().unwrap());
      let p = match &pool { Some(pl) => pl.install(|| Default::default()), None => Default::default() };
      Box::new(Inst { p, pool })
   }
   impl Driver for Inst {
      fn load(&mut self, rel: usize, rows: &[Sexp], append: bool) -> Option<()> {
         match rel {
         0 => { let v: Vec<(i64,i64,)> = parse_rows(rows)?; if !append { self.p.r0 = Default::default(); } for x in v { self.p.r0.push(x); } },
         1 => { let v: Vec<(i64,i64,)> = parse_rows(rows)?; if !append { self.p.r1 = Default::default(); } for x in v { self.p.r1.push(x); } },
         2 => { let v: Vec<(i64,)> = parse_rows(rows)?; if !append { self.p.r2 = Default::default(); } for x in v { self.p.r2.push(x); } },
         3 => { let v: Vec<(i64,)> = parse_rows(rows)?; if !append { self.p.r3 = Default::default(); } for x in v { self.p.r3.push(x); } },
         4 => { let v: Vec<(i64,)> = parse_rows(rows)?; if !append { self.p.r4 = Default::default(); } for x in v { self.p.r4.push(x); } },
         5 => return None,
         6 => { let v: Vec<(i64,i64,)> = parse_rows(rows)?; if !append { self.p.r6 = Default::default(); } for x in v { self.p.r6.push(x); } },
         7 => { let v: Vec<(i64,i64,)> = parse_rows(rows)?; if !append { self.p.r7 = Default::default(); } for x in v { self.p.r7.push(x); } },
         8 => { let v: Vec<(i64,i64,)> = parse_rows(rows)?; if !append { self.p.r8 = Default::default(); } for x in v { self.p.r8.push(x); } },
         9 => { let v: Vec<(i64,i64,)> = parse_rows(rows)?; if !append { self.p.r9 = Default::default(); } for x in v { self.p.r9.push(x); } },
         10 => { let v: Vec<(i64,)> = parse_rows(rows)?; if !append { self.p.r10 = Default::default(); } for x in v { self.p.r10.push(x); } },
         11 => { let v: Vec<(i64,i64,)> = parse_rows(rows)?; if !append { self.p.r11 = Default::default(); } for x in v { self.p.r11.push(x); } },
         12 => { let v: Vec<(i64,i64,)> = parse_rows(rows)?; if !append { self.p.r12 = Default::default(); } for x in v { self.p.r12.push(x); } },
         13 => { let v: Vec<(i64,i64,)> = parse_rows(rows)?; if !append { self.p.r13 = Default::default(); } for x in v { self.p.r13.push(x); } },
         14 => { let v: Vec<(i64,)> = parse_rows(rows)?; if !append { self.p.r14 = Default::default(); } for x in v { self.p.r14.push(x); } },
         15 => { let v: Vec<(i64,i64,)> = parse_rows(rows)?; if !append { self.p.r15 = Default::default(); } for x in v { self.p.r15.push(x); } },
            _ => return None,
         }
         Some(())
      }
      fn run(&mut self) { match &self.pool { Some(pl) => { let p = &mut self.p; pl.install(|| p.run()) }, None => self.p.run() } }
      fn run_here(&mut self) { self.p.run() }
      fn run_timeout(&mut self, k: usize) -> Option<bool> { let _ = k; None }
      fn dump(&self) -> String { vec![dump_rel(0, self.p.r0.iter().map(|x| x.render()).collect()), dump_rel(1, self.p.r1.iter().map(|x| x.render()).collect()), dump_rel(2, self.p.r2.iter().map(|x| x.render()).collect()), dump_rel(3, self.p.r3.iter().map(|x| x.render()).collect()), dump_rel(4, self.p.r4.iter().map(|x| x.render()).collect()), dump_rel(5, self.p.r5.iter().map(|x| x.render()).collect()), dump_rel(6, self.p.r6.iter().map(|x| x.render()).collect()), dump_rel(7, self.p.r7.iter().map(|x| x.render()).collect()), dump_rel(8, self.p.r8.iter().map(|x| x.render()).collect()), dump_rel(9, self.p.r9.iter().map(|x| x.render()).collect()), dump_rel(10, self.p.r10.iter().map(|x| x.render()).collect()), dump_rel(11, self.p.r11.iter().map(|x| x.render()).collect()), dump_rel(12, self.p.r12.iter().map(|x| x.render()).collect()), dump_rel(13, self.p.r13.iter().map(|x| x.render()).collect()), dump_rel(14, self.p.r14.iter().map(|x| x.render()).collect()), dump_rel(15, self.p.r15.iter().map(|x| x.render()).collect())].join(" | ") }
      fn iters(&self) -> String { format!("iters {}", self.p.scc_iters.iter().map(|x| x.to_string()).collect::<Vec<_>>().join(" ")) }
   }
}

#[allow(unused, non_snake_case, clippy::all)]
pub mod br6p {
   use ascent::*;
   use ascent::aggregators::*;
   use ascent::lattice::{Dual, set::Set};
   use crate::common::*;
   ascent_par! {
      pub struct Prog;
      relation r0(i64, i64);
      relation r1(i64, i64);
      relation r2(i64);
      relation r3(i64);
      relation r4(i64);
      #[ds(ascent_byods_rels::eqrel)] relation r5(i64, i64);
      relation r6(i64, i64);
      relation r7(i64, i64);
      relation r8(i64, i64);
      relation r9(i64, i64);
      relation r10(i64, i64);
      relation r11(i64, i64);
      relation r12(i64, i64);
      relation r13(i64);
      relation r14(i64, i64);
      relation r15(i64, i64);
      relation r16(i64, i64);
      relation r17(i64, i64);
      relation r18(i64, i64);
      relation r19(i64, i64);
      relation r20(i64);
      relation r21(i64, i64);
      relation r22(i64, i64);
      r5(v0, v1) <-- r4(v0), r0(v0, v1);
      r4(v1) <-- r4(v0), r5(v0, v1);
      r6(v0, v1) <-- r5(v0, v1);
      r5(v0, v1) <-- r6(v0, v1);
      r7(v0, v1) <-- r5(v0, v1);
      r8(v0, v1) <-- r2(v0), r5(v0, v1);
      r5(v0, v1) <-- r8(v0, v1);
      r9(v0, v1) <-- r2(v0), r5(v0, v1);
      r10(1, v1) <-- r5(1, v1);
      r5(v0, v1) <-- r10(v0, v1);
      r11(3, v1) <-- r5(3, v1);
      r12(v0, v1) <-- r5(v0, v1), r13(v0);
      r5(v0, v1) <-- r12(v0, v1);
      r14(v0, v1) <-- r5(v0, v1), r13(v0);
      r15(v0, v1) <-- r3(v1), r5(v0, v1);
      r5(v0, v1) <-- r15(v0, v1);
      r16(v0, v1) <-- r3(v1), r5(v0, v1);
      r17(v0, 3) <-- r5(v0, 3);
      r5(v0, v1) <-- r17(v0, v1);
      r18(v0, 0) <-- r5(v0, 0);
      r19(v0, v1) <-- r5(v0, v1), r20(v1);
      r5(v0, v1) <-- r19(v0, v1);
      r21(v0, v1) <-- r5(v0, v1), r20(v1);
      r22(v0, v1) <-- r1(0, 3), r5(v0, v1) if ((*v1) < 2) let v2 = ((*v1) + 1);
   }
   pub struct Inst { p: Prog, pool: Option<ascent::rayon::ThreadPool> }
   pub fn make(pool: Option<usize>) -> Box<dyn Driver> {
      let pool = pool.map(|n| ascent::rayon::ThreadPoolBuilder::new().num_threads(n).build().unwrap());
      let p = match &pool { Some(pl) => pl.install(|| Default::default()), None => Default::default() };
      Box::new(Inst { p, pool })
   }
   impl Driver for Inst {
      fn load(&mut self, rel: usize, rows: &[Sexp], append: bool) -> Option<()> {
         match rel {
         0 => { let v: Vec<(i64,i64,)> = parse_rows(rows)?; if !append { self.p.r0 = Default::default(); } for x in v { self.p.r0.push(x); } },
         1 => { let v: Vec<(i64,i64,)> = parse_rows(rows)?; if !append { self.p.r1 = Default::default(); } for x in v { self.p.r1.push(x); } },
         2 => { let v: Vec<(i64,)> = parse_rows(rows)?; if !append { self.p.r2 = Default::default(); } for x in v { self.p.r2.push(x); } },
         3 => { let v: Vec<(i64,)> = parse_rows(rows)?; if !append { self.p.r3 = Default::default(); } for x in v { self.p.r3.push(x); } },
         4 => { let v: Vec<(i64,)> = parse_rows(rows)?; if !append { self.p.r4 = Default::default(); } for x in v { self.p.r4.push(x); } },
         5 => return None,
         6 => { let v: Vec<(i64,i64,)> = parse_rows(rows)?; if !append { self.p.r6 = Default::default(); } for x in v { self.p.r6.push(x); } },
         7 => { let v: Vec<(i64,i64,)> = parse_rows(rows)?; if !append { self.p.r7 = Default::default(); } for x in v { self.p.r7.push(x); } },
         8 => { let v: Vec<(i64,i64,)> = parse_rows(rows)?; if !append { self.p.r8 = Default::default(); } for x in v { self.p.r8.push(x); } },
         9 => { let v: Vec<(i64,i64,)> = parse_rows(rows)?; if !append { self.p.r9 = Default::default(); } for x in v { self.p.r9.push(x); } },
         10 => { let v: Vec<(i64,i64,)> = parse_rows(rows)?; if !append { self.p.r10 = Default::default(); } for x in v { self.p.r10.push(x); } },
         11 => { let v: Vec<(i64,i64,)> = parse_rows(rows)?; if !append { self.p.r11 = Default::default(); } for x in v { self.p.r11.push(x); } },
         12 => { let v: Vec<(i64,i64,)> = parse_rows(rows)?; if !append { self.p.r12 = Default::default(); } for x in v { self.p.r12.push(x); } },
         13 => { let v: Vec<(i64,)> = parse_rows(rows)?; if !append { self.p.r13 = Default::default(); } for x in v { self.p.r13.push(x); } },
         14 => { let v: Vec<(i64,i64,)> = parse_rows(rows)?; if !append { self.p.r14 = Default::default(); } for x in v { self.p.r14.push(x); } },
         15 => { let v: Vec<(i64,i64,)> = parse_rows(rows)?; if !append { self.p.r15 = Default::default(); } for x in v { self.p.r15.push(x); } },
         16 => { let v: Vec<(i64,i64,)> = parse_rows(rows)?; if !append { self.p.r16 = Default::default(); } for x in v { self.p.r16.push(x); } },
         17 => { let v: Vec<(i64,i64,)> = parse_rows(rows)?; if !append { self.p.r17 = Default::default(); } for x in v { self.p.r17.push(x); } },
         18 => { let v: Vec<(i64,i64,)> = parse_rows(rows)?; if !append { self.p.r18 = Default::default(); } for x in v { self.p.r18.push(x); } },
         19 => { let v: Vec<(i64,i64,)> = parse_rows(rows)?; if !append { self.p.r19 = Default::default(); } for x in v { self.p.r19.push(x); } },
         20 => { let v: Vec<(i64,)> = parse_rows(rows)?; if !append { self.p.r20 = Default::default(); } for x in v { self.p.r20.push(x); } },
         21 => { let v: Vec<(i64,i64,)> = parse_rows(rows)?; if !append { self.p.r21 = Default::default(); } for x in v { self.p.r21.push(x); } },
         22 => { let v: Vec<(i64,i64,)> = parse_rows(rows)?; if !append { self.p.r22 = Default::default(); } for x in v { self.p.r22.push(x); } },
            _ => return None,
         }
         Some(())
      }
      fn run(&mut self) { match &self.pool { Some(pl) => { let p = &mut self.p; pl.install(|| p.run()) }, None => self.p.run() } }
      fn run_here(&mut self) { self.p.run() }
      fn run_timeout(&mut self, k: usize) -> Option<bool> { let _ = k; None }
      fn dump(&self) -> String { vec![dump_rel(0, self.p.r0.iter().map(|x| x.render()).collect()), dump_rel(1, self.p.r1.iter().map(|x| x.render()).collect()), dump_rel(2, self.p.r2.iter().map(|x| x.render()).collect()), dump_rel(3, self.p.r3.iter().map(|x| x.render()).collect()), dump_rel(4, self.p.r4.iter().map(|x| x.render()).collect()), dump_rel(5, self.p.r5.iter().map(|x| x.render()).collect()), dump_rel(6, self.p.r6.iter().map(|x| x.render()).collect()), dump_rel(7, self.p.r7.iter().map(|x| x.render()).collect()), dump_rel(8, self.p.r8.iter().map(|x| x.render()).collect()), dump_rel(9, self.p.r9.iter().map(|x| x.render()).collect()), dump_rel(10, self.p.r10.iter().map(|x| x.render()).collect()), dump_rel(11, self.p.r11.iter().map(|x| x.render()).collect()), dump_rel(12, self.p.r12.iter().map(|x| x.render()).collect()), dump_rel(13, self.p.r13.iter().map(|x| x.render()).collect()), dump_rel(14, self.p.r14.iter().map(|x| x.render()).collect()), dump_rel(15, self.p.r15.iter().map(|x| x.render()).collect()), dump_rel(16, self.p.r16.iter().map(|x| x.render()).collect()), dump_rel(17, self.p.r17.iter().map(|x| x.render()).collect()), dump_rel(18, self.p.r18.iter().map(|x| x.render()).collect()), dump_rel(19, self.p.r19.iter().map(|x| x.render()).collect()), dump_rel(20, self.p.r20.iter().map(|x| x.render()).collect()), dump_rel(21, self.p.r21.iter().map(|x| x.render()).collect()), dump_rel(22, self.p.r22.iter().map(|x| x.render()).collect())].join(" | ") }
      fn iters(&self) -> String { format!("iters {}", self.p.scc_iters.iter().map(|x| x.to_string()).collect::<Vec<_>>().join(" ")) }
   }
}

#[allow(unused, non_snake_case, clippy::all)]
pub mod tr7 {
   use ascent::*;
   use ascent::aggregators::*;
   use ascent::lattice::{Dual, set::Set};
   use crate::common::*;
   ascent! {
      pub struct Prog;
      relation r0(i64, i64, i64);
      relation r1(i64, i64, i64);
      relation r2(i64);
      relation r3(i64);
      relation r4(i64);
      relation r5(i64, i64);
      relation r6(i64, i64);
      #[ds(ascent_byods_rels::eqrel)] relation r7(i64, i64, i64);
      relation r8(i64, i64, i64);
      relation r9(i64, i64, i64);
      relation r10(i64, i64, i64);
      relation r11(i64, i64, i64);
      relation r12(i64, i64, i64);
      relation r13(i64, i64, i64);
      relation r14(i64, i64, i64);
      relation r15(i64);
      relation r16(i64, i64, i64);
      relation r17(i64, i64, i64);
      relation r18(i64, i64, i64);
      relation r19(i64, i64, i64);
      relation r20(i64, i64, i64);
      relation r21(i64);
      relation r22(i64, i64, i64);
      relation r23(i64, i64, i64);
      relation r24(i64, i64, i64);
      relation r25(i64, i64, i64);
      relation r26(i64, i64, i64);
      relation r27(i64, i64);
      relation r28(i64, i64, i64);
      relation r29(i64, i64, i64);
      relation r30(i64, i64, i64);
      relation r31(i64, i64, i64);
      relation r32(i64, i64, i64);
      relation r33(i64, i64, i64);
      relation r34(i64, i64);
      relation r35(i64, i64, i64);
      relation r36(i64, i64, i64);
      relation r37(i64, i64, i64);
      relation r38(i64, i64, i64);
      relation r39(i64, i64, i64);
      relation r40(i64, i64, i64);
      relation r41(i64, i64, i64);
      relation r42(i64, i64, i64);
      relation r43(i64, i64, i64);
      relation r44(i64, i64, i64);
      relation r45(i64, i64, i64);
      relation r46(i64, i64, i64);
      relation r47(i64, i64, i64);
      r7(v9, v0, v1) <-- r6(v9, v0), r0(v9, v0, v1);
      r6(v9, v0) <-- r6(v9, v1), r7(v9, v0, v1);
      r6(v8, v0) <-- r6(v9, v0), r5(v9, v8);
      r7(v9, v2, v3) <-- r7(v9, v0, v1), r1(v9, v0, v2), r1(v9, v1, v3);
      r8(v0, v1, v2) <-- r7(v0, v1, v2);
      r7(v0, v1, v2) <-- r8(v0, v1, v2);
      r9(v0, v1, v2) <-- r7(v0, v1, v2);
      r10(v0, v1, v2) <-- r4(v0), r7(v0, v1, v2);
      r7(v0, v1, v2) <-- r10(v0, v1, v2);
      r11(v0, v1, v2) <-- r4(v0), r7(v0, v1, v2);
      r12(2, v1, v2) <-- r7(2, v1, v2);
      r7(v0, v1, v2) <-- r12(v0, v1, v2);
      r13(0, v1, v2) <-- r7(0, v1, v2);
      r14(v0, v1, v2) <-- r7(v0, v1, v2), r15(v0);
      r16(v0, v1, v2) <-- r2(v1), r7(v0, v1, v2);
      r7(v0, v1, v2) <-- r16(v0, v1, v2);
      r17(v0, v1, v2) <-- r2(v1), r7(v0, v1, v2);
      r18(v0, 1, v2) <-- r7(v0, 1, v2);
      r7(v0, v1, v2) <-- r18(v0, v1, v2);
      r19(v0, 3, v2) <-- r7(v0, 3, v2);
      r20(v0, v1, v2) <-- r7(v0, v1, v2), r21(v1);
      r22(v0, v1, v2) <-- r4(v0), r2(v1), r7(v0, v1, v2);
      r7(v0, v1, v2) <-- r22(v0, v1, v2);
      r23(v0, v1, v2) <-- r4(v0), r2(v1), r7(v0, v1, v2);
      r24(1, 0, v2) <-- r7(1, 0, v2);
      r7(v0, v1, v2) <-- r24(v0, v1, v2);
      r25(2, 2, v2) <-- r7(2, 2, v2);
      r26(v0, v1, v2) <-- r27(v0, v1), r7(v0, v1, v2);
      r28(v0, v1, v2) <-- r7(v0, v1, v2), r27(v0, v1);
      r29(v0, v1, v2) <-- r4(v0), r3(v2), r7(v0, v1, v2);
      r7(v0, v1, v2) <-- r29(v0, v1, v2);
      r30(v0, v1, v2) <-- r4(v0), r3(v2), r7(v0, v1, v2);
      r31(0, v1, 1) <-- r7(0, v1, 1);
      r7(v0, v1, v2) <-- r31(v0, v1, v2);
      r32(1, v1, 2) <-- r7(1, v1, 2);
      r33(v0, v1, v2) <-- r34(v0, v2), r7(v0, v1, v2);
      r35(v0, v1, v2) <-- r7(v0, v1, v2), r34(v0, v2);
      r36(v0, v1, v2) <-- r2(v1), r3(v2), r7(v0, v1, v2);
      r7(v0, v1, v2) <-- r36(v0, v1, v2);
      r37(v0, v1, v2) <-- r2(v1), r3(v2), r7(v0, v1, v2);
      r38(v0, 2, 0) <-- r7(v0, 2, 0);
      r7(v0, v1, v2) <-- r38(v0, v1, v2);
      r39(v0, 2, 0) <-- r7(v0, 2, 0);
      r40(v0, v1, v2) <-- r4(v0), r2(v1), r3(v2), r7(v0, v1, v2);
      r7(v0, v1, v2) <-- r40(v0, v1, v2);
      r41(v0, v1, v2) <-- r4(v0), r2(v1), r3(v2), r7(v0, v1, v2);
      r42(1, 1, 3) <-- r7(1, 1, 3);
      r7(v0, v1, v2) <-- r42(v0, v1, v2);
      r43(1, 0, 1) <-- r7(1, 0, 1);
      r44(v0, v1, v2) <-- r45(v0, v1, v2), r7(v0, v1, v2);
      r46(v0, v1, v2) <-- r7(v0, v1, v2), r45(v0, v1, v2);
      r7(((*v0) + 1), v0, v1) <-- r7(2, v0, v1), r43(v0, v0, 3), if ((*v0) < 6);
   }
   pub struct Inst { p: Prog, pool: Option<ascent::rayon::ThreadPool> }
   pub fn make(pool: Option<usize>) -> Box<dyn Driver> {
      let pool = pool.map(|n| ascent::rayon::ThreadPoolBuilder::new().num_threads(n).build().unwrap());
      let p = Default::default();
      Box::new(Inst { p, pool })
   }
   impl Driver for Inst {
      fn load(&mut self, rel: usize, rows: &[Sexp], append: bool) -> Option<()> {
         match rel {
         0 => { let v: Vec<(i64,i64,i64,)> = parse_rows(rows)?; if append { self.p.r0.extend(v) } else { self.p.r0 = v } },
         1 => { let v: Vec<(i64,i64,i64,)> = parse_rows(rows)?; if append { self.p.r1.extend(v) } else { self.p.r1 = v } },
         2 => { let v: Vec<(i64,)> = parse_rows(rows)?; if append { self.p.r2.extend(v) } else { self.p.r2 = v } },
         3 => { let v: Vec<(i64,)> = parse_rows(rows)?; if append { self.p.r3.extend(v) } else { self.p.r3 = v } },
         4 => { let v: Vec<(i64,)> = parse_rows(rows)?; if append { self.p.r4.extend(v) } else { self.p.r4 = v } },
         5 => { let v: Vec<(i64,i64,)> = parse_rows(rows)?; if append { self.p.r5.extend(v) } else { self.p.r5 = v } },
         6 => { let v: Vec<(i64,i64,)> = parse_rows(rows)?; if append { self.p.r6.extend(v) } else { self.p.r6 = v } },
         7 => return None,
         8 => { let v: Vec<(i64,i64,i64,)> = parse_rows(rows)?; if append { self.p.r8.extend(v) } else { self.p.r8 = v } },
         9 => { let v: Vec<(i64,i64,i64,)> = parse_rows(rows)?; if append { self.p.r9.extend(v) } else { self.p.r9 = v } },
         10 => { let v: Vec<(i64,i64,i64,)> = parse_rows(rows)?; if append { self.p.r10.extend(v) } else { self.p.r10 = v } },
         11 => { let v: Vec<(i64,i64,i64,)> = parse_rows(rows)?; if append { self.p.r11.extend(v) } else { self.p.r11 = v } },
         12 => { let v: Vec<(i64,i64,i64,)> = parse_rows(rows)?; if append { self.p.r12.extend(v) } else { self.p.r12 = v } },
         13 => { let v: Vec<(i64,i64,i64,)> = parse_rows(rows)?; if append { self.p.r13.extend(v) } else { self.p.r13 = v } },
         14 => { let v: Vec<(i64,i64,i64,)> = parse_rows(rows)?; if append { self.p.r14.extend(v) } else { self.p.r14 = v } },
         15 => { let v: Vec<(i64,)> = parse_rows(rows)?; if append { self.p.r15.extend(v) } else { self.p.r15 = v } },
         16 => { let v: Vec<(i64,i64,i64,)> = parse_rows(rows)?; if append { self.p.r16.extend(v) } else { self.p.r16 = v } },
         17 => { let v: Vec<(i64,i64,i64,)> = parse_rows(rows)?; if append { self.p.r17.extend(v) } else { self.p.r17 = v } },
         18 => { let v: Vec<(i64,i64,i64,)> = parse_rows(rows)?; if append { self.p.r18.extend(v) } else { self.p.r18 = v } },
         19 => { let v: Vec<(i64,i64,i64,)> = parse_rows(rows)?; if append { self.p.r19.extend(v) } else { self.p.r19 = v } },
         20 => { let v: Vec<(i64,i64,i64,)> = parse_rows(rows)?; if append { self.p.r20.extend(v) } else { self.p.r20 = v } },
         21 => { let v: Vec<(i64,)> = parse_rows(rows)?; if append { self.p.r21.extend(v) } else { self.p.r21 = v } },
         22 => { let v: Vec<(i64,i64,i64,)> = parse_rows(rows)?; if append { self.p.r22.extend(v) } else { self.p.r22 = v } },
         23 => { let v: Vec<(i64,i64,i64,)> = parse_rows(rows)?; if append { self.p.r23.extend(v) } else { self.p.r23 = v } },
         24 => { let v: Vec<(i64,i64,i64,)> = parse_rows(rows)?; if append { self.p.r24.extend(v) } else { self.p.r24 = v } },
         25 => { let v: Vec<(i64,i64,i64,)> = parse_rows(rows)?; if append { self.p.r25.extend(v) } else { self.p.r25 = v } },
         26 => { let v: Vec<(i64,i64,i64,)> = parse_rows(rows)?; if append { self.p.r26.extend(v) } else { self.p.r26 = v } },
         27 => { let v: Vec<(i64,i64,)> = parse_rows(rows)?; if append { self.p.r27.extend(v) } else { self.p.r27 = v } },
         28 => { let v: Vec<(i64,i64,i64,)> = parse_rows(rows)?; if append { self.p.r28.extend(v) } else { self.p.r28 = v } },
         29 => { let v: Vec<(i64,i64,i64,)> = parse_rows(rows)?; if append { self.p.r29.extend(v) } else { self.p.r29 = v } },
         30 => { let v: Vec<(i64,i64,i64,)> = parse_rows(rows)?; if append { self.p.r30.extend(v) } else { self.p.r30 = v } },
         31 => { let v: Vec<(i64,i64,i64,)> = parse_rows(rows)?; if append { self.p.r31.extend(v) } else { self.p.r31 = v } },
         32 => { let v: Vec<(i64,i64,i64,)> = parse_rows(rows)?; if append { self.p.r32.extend(v) } else { self.p.r32 = v } },
         33 => { let v: Vec<(i64,i64,i64,)> = parse_rows(rows)?; if append { self.p.r33.extend(v) } else { self.p.r33 = v } },
         34 => { let v: Vec<(i64,i64,)> = parse_rows(rows)?; if append { self.p.r34.extend(v) } else { self.p.r34 = v } },
         35 => { let v: Vec<(i64,i64,i64,)> = parse_rows(rows)?; if append { self.p.r35.extend(v) } else { self.p.r35 = v } },
         36 => { let v: Vec<(i64,i64,i64,)> = parse_rows(rows)?; if append { self.p.r36.extend(v) } else { self.p.r36 = v } },
         37 => { let v: Vec<(i64,i64,i64,)> = parse_rows(rows)?; if append { self.p.r37.extend(v) } else { self.p.r37 = v } },
         38 => { let v: Vec<(i64,i64,i64,)> = parse_rows(rows)?; if append { self.p.r38.extend(v) } else { self.p.r38 = v } },
         39 => { let v: Vec<(i64,i64,i64,)> = parse_rows(rows)?; if append { self.p.r39.extend(v) } else { self.p.r39 = v } },
         40 => { let v: Vec<(i64,i64,i64,)> = parse_rows(rows)?; if append { self.p.r40.extend(v) } else { self.p.r40 = v } },
         41 => { let v: Vec<(i64,i64,i64,)> = parse_rows(rows)?; if append { self.p.r41.extend(v) } else { self.p.r41 = v } },
         42 => { let v: Vec<(i64,i64,i64,)> = parse_rows(rows)?; if append { self.p.r42.extend(v) } else { self.p.r42 = v } },
         43 => { let v: Vec<(i64,i64,i64,)> = parse_rows(rows)?; if append { self.p.r43.extend(v) } else { self.p.r43 = v } },
         44 => { let v: Vec<(i64,i64,i64,)> = parse_rows(rows)?; if append { self.p.r44.extend(v) } else { self.p.r44 = v } },
         45 => { let v: Vec<(i64,i64,i64,)> = parse_rows(rows)?; if append { self.p.r45.extend(v) } else { self.p.r45 = v } },
         46 => { let v: Vec<(i64,i64,i64,)> = parse_rows(rows)?; if append { self.p.r46.extend(v) } else { self.p.r46 = v } },
         47 => { let v: Vec<(i64,i64,i64,)> = parse_rows(rows)?; if append { self.p.r47.extend(v) } else { self.p.r47 = v } },
            _ => return None,
         }
         Some(())
      }
      fn run(&mut self) { self.p.run() }
      fn run_here(&mut self) { self.p.run() }
      fn run_timeout(&mut self, k: usize) -> Option<bool> { let _ = k; None }
      fn dump(&self) -> String { vec![dump_rel(0, self.p.r0.iter().map(Row::render).collect()), dump_rel(1, self.p.r1.iter().map(Row::render).collect()), dump_rel(2, self.p.r2.iter().map(Row::render).collect()), dump_rel(3, self.p.r3.iter().map(Row::render).collect()), dump_rel(4, self.p.r4.iter().map(Row::render).collect()), dump_rel(5, self.p.r5.iter().map(Row::render).collect()), dump_rel(6, self.p.r6.iter().map(Row::render).collect()), dump_rel(7, self.p.r7.iter().map(Row::render).collect()), dump_rel(8, self.p.r8.iter().map(Row::render).collect()), dump_rel(9, self.p.r9.iter().map(Row::render).collect()), dump_rel(10, self.p.r10.iter().map(Row::render).collect()), dump_rel(11, self.p.r11.iter().map(Row::render).collect()), dump_rel(12, self.p.r12.iter().map(Row::render).collect()), dump_rel(13, self.p.r13.iter().map(Row::render).collect()), dump_rel(14, self.p.r14.iter().map(Row::render).collect()), dump_rel(15, self.p.r15.iter().map(Row::render).collect()), dump_rel(16, self.p.r16.iter().map(Row::render).collect()), dump_rel(17, self.p.r17.iter().map(Row::render).collect()), dump_rel(18, self.p.r18.iter().map(Row::render).collect()), dump_rel(19, self.p.r19.iter().map(Row::render).collect()), dump_rel(20, self.p.r20.iter().map(Row::render).collect()), dump_rel(21, self.p.r21.iter().map(Row::render).collect()), dump_rel(22, self.p.r22.iter().map(Row::render).collect()), dump_rel(23, self.p.r23.iter().map(Row::render).collect()), dump_rel(24, self.p.r24.iter().map(Row::render).collect()), dump_rel(25, self.p.r25.iter().map(Row::render).collect()), dump_rel(26, self.p.r26.iter().map(Row::render).collect()), dump_rel(27, self.p.r27.iter().map(Row::render).collect()), dump_rel(28, self.p.r28.iter().map(Row::render).collect()), dump_rel(29, self.p.r29.iter().map(Row::render).collect()), dump_rel(30, self.p.r30.iter().map(Row::render).collect()), dump_rel(31, self.p.r31.iter().map(Row::render).collect()), dump_rel(32, self.p.r32.iter().map(Row::render).collect()), dump_rel(33, self.p.r33.iter().map(Row::render).collect()), dump_rel(34, self.p.r34.iter().map(Row::render).collect()), dump_rel(35, self.p.r35.iter().map(Row::render).collect()), dump_rel(36, self.p.r36.iter().map(Row::render).collect()), dump_rel(37, self.p.r37.iter().map(Row::render).collect()), dump_rel(38, self.p.r38.iter().map(Row::render).collect()), dump_rel(39, self.p.r39.iter().map(Row::render).collect()), dump_rel(40, self.p.r40.iter().map(Row::render).collect()), dump_rel(41, self.p.r41.iter().map(Row::render).collect()), dump_rel(42, self.p.r42.iter().map(Row::render).collect()), dump_rel(43, self.p.r43.iter().map(Row::render).collect()), dump_rel(44, self.p.r44.iter().map(Row::render).collect()), dump_rel(45, self.p.r45.iter().map(Row::render).collect()), dump_rel(46, self.p.r46.iter().map(Row::render).collect()), dump_rel(47, self.p.r47.iter().map(Row::render).collect())].join(" | ") }
      fn iters(&self) -> String { format!("iters {}", self.p.scc_iters.iter().map(|x| x.to_string()).collect::<Vec<_>>().join(" ")) }
   }
}

#[allow(unused, non_snake_case, clippy::all)]
pub mod tj1 {
   use ascent::*;
   use ascent::aggregators::*;
   use ascent::lattice::{Dual, set::Set};
   use crate::common::*;
   ascent! {
      pub struct Prog;
      relation r0(i64, i64, i64);
      relation r1(i64, i64, i64);
      relation r2(i64);
      relation r3(i64);
      relation r4(i64);
      relation r5(i64, i64);
      relation r6(i64, i64);
      #[ds(ascent_byods_rels::eqrel)] relation r7(i64, i64, i64);
      relation r8(i64, i64, i64);
      relation r9(i64, i64);
      relation r10(i64, i64, i64);
      r7(v9, v0, v1) <-- r0(v9, v0, v1);
      r8(v0, v1, v2) <-- r9(v1, v2), r7(v0, v1, v2);
      r10(v0, v1, v2) <-- r7(v0, v1, v2), r9(v1, v2);
   }
   pub struct Inst { p: Prog, pool: Option<ascent::rayon::ThreadPool> }
   pub fn make(pool: Option<usize>) -> Box<dyn Driver> {
      let pool = pool.map(|n| ascent::rayon::ThreadPoolBuilder::new().num_threads(n).build().unwrap());
      let p = Default::default();
      Box::new(Inst { p, pool })
   }
   impl Driver for Inst {
      fn load(&mut self, rel: usize, rows: &[Sexp], append: bool) -> Option<()> {
         match rel {
         0 => { let v: Vec<(i64,i64,i64,)> = parse_rows(rows)?; if append { self.p.r0.extend(v) } else { self.p.r0 = v } },
         1 => { let v: Vec<(i64,i64,i64,)> = parse_rows(rows)?; if append { self.p.r1.extend(v) } else { self.p.r1 = v } },
         2 => { let v: Vec<(i64,)> = parse_rows(rows)?; if append { self.p.r2.extend(v) } else { self.p.r2 = v } },
         3 => { let v: Vec<(i64,)> = parse_rows(rows)?; if append { self.p.r3.extend(v) } else { self.p.r3 = v } },
         4 => { let v: Vec<(i64,)> = parse_rows(rows)?; if append { self.p.r4.extend(v) } else { self.p.r4 = v } },
         5 => { let v: Vec<(i64,i64,)> = parse_rows(rows)?; if append { self.p.r5.extend(v) } else { self.p.r5 = v } },
         6 => { let v: Vec<(i64,i64,)> = parse_rows(rows)?; if append { self.p.r6.extend(v) } else { self.p.r6 = v } },
         7 => return None,
         8 => { let v: Vec<(i64,i64,i64,)> = parse_rows(rows)?; if append { self.p.r8.extend(v) } else { self.p.r8 = v } },
         9 => { let v: Vec<(i64,i64,)> = parse_rows(rows)?; if append { self.p.r9.extend(v) } else { self.p.r9 = v } },
         10 => { let v: Vec<(i64,i64,i64,)> = parse_rows(rows)?; if append { self.p.r10.extend(v) } else { self.p.r10 = v } },
            _ => return None,
         }
         Some(())
      }
      fn run(&mut self) { self.p.run() }
      fn run_here(&mut self) { self.p.run() }
      fn run_timeout(&mut self, k: usize) -> Option<bool> { let _ = k; None }
      fn dump(&self) -> String { vec![dump_rel(0, self.p.r0.iter().map(Row::render).collect()), dump_rel(1, self.p.r1.iter().map(Row::render).collect()), dump_rel(2, self.p.r2.iter().map(Row::render).collect()), dump_rel(3, self.p.r3.iter().map(Row::render).collect()), dump_rel(4, self.p.r4.iter().map(Row::render).collect()), dump_rel(5, self.p.r5.iter().map(Row::render).collect()), dump_rel(6, self.p.r6.iter().map(Row::render).collect()), dump_rel(7, self.p.r7.iter().map(Row::render).collect()), dump_rel(8, self.p.r8.iter().map(Row::render).collect()), dump_rel(9, self.p.r9.iter().map(Row::render).collect()), dump_rel(10, self.p.r10.iter().map(Row::render).collect())].join(" | ") }
      fn iters(&self) -> String { format!("iters {}", self.p.scc_iters.iter().map(|x| x.to_string()).collect::<Vec<_>>().join(" ")) }
   }
}

#[allow(unused, non_snake_case, clippy::all)]
pub mod w3 {
   use ascent::*;
   use ascent::aggregators::*;
   use ascent::lattice::{Dual, set::Set};
   use crate::common::*;
   ascent! {
      pub struct Prog;
      relation r0(i64, i64, i64);
      relation r1(i64, i64, i64);
      #[ds(ascent_byods_rels::eqrel)] relation r2(i64, i64, i64);
      relation r3(i64, i64, i64);
      r2(v0, v1, v2) <-- r0(v0, v1, v2);
      r2(v0, v1, v2) <-- r1(v0, v1, v2);
      r3(v0, v1, v2) <-- r2(v0, v1, v2);
   }
   pub struct Inst { p: Prog, pool: Option<ascent::rayon::ThreadPool> }
   pub fn make(pool: Option<usize>) -> Box<dyn Driver> {
      let pool = pool.map(|n| ascent::rayon::ThreadPoolBuilder::new().num_threads(n).build().unwrap());
      let p = Default::default();
      Box::new(Inst { p, pool })
   }
   impl Driver for Inst {
      fn load(&mut self, rel: usize, rows: &[Sexp], append: bool) -> Option<()> {
         match rel {
         0 => { let v: Vec<(i64,i64,i64,)> = parse_rows(rows)?; if append { self.p.r0.extend(v) } else { self.p.r0 = v } },
         1 => { let v: Vec<(i64,i64,i64,)> = parse_rows(rows)?; if append { self.p.r1.extend(v) } else { self.p.r1 = v } },
         2 => return None,
         3 => { let v: Vec<(i64,i64,i64,)> = parse_rows(rows)?; if append { self.p.r3.extend(v) } else { self.p.r3 = v } },
            _ => return None,
         }
         Some(())
      }
      fn run(&mut self) { self.p.run() }
      fn run_here(&mut self) { self.p.run() }
      fn run_timeout(&mut self, k: usize) -> Option<bool> { let _ = k; None }
      fn dump(&self) -> String { vec![dump_rel(0, self.p.r0.iter().map(Row::render).collect()), dump_rel(1, self.p.r1.iter().map(Row::render).collect()), dump_rel(2, self.p.r2.iter().map(Row::render).collect()), dump_rel(3, self.p.r3.iter().map(Row::render).collect())].join(" | ") }
      fn iters(&self) -> String { format!("iters {}", self.p.scc_iters.iter().map(|x| x.to_string()).collect::<Vec<_>>().join(" ")) }
   }
}

fn main() {
   common::main_loop(&[("bn1p", bn1p::make as common::Factory), ("br2p", br2p::make as common::Factory), ("tr3", tr3::make as common::Factory), ("bn5p", bn5p::make as common::Factory), ("br6p", br6p::make as common::Factory), ("tr7", tr7::make as common::Factory), ("tj1", tj1::make as common::Factory), ("w3", w3::make as common::Factory)]);
}
