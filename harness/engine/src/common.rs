//! Shared by every generated tie-B binary: s-expressions, value codecs, the instance driver trait
//! and the line-protocol main loop (`eng …` lines; see tools/vlib/eng.py).
#![allow(dead_code)]
use ascent::lattice::set::Set;
use ascent::lattice::Dual;
use std::collections::HashMap;
use std::io::{BufRead, Write};

#[derive(Clone, Debug, PartialEq, Eq)]
pub enum Sexp {
   Atom(String),
   List(Vec<Sexp>),
}
impl Sexp {
   pub fn atom(&self) -> Option<&str> {
      match self {
         Sexp::Atom(s) => Some(s),
         _ => None,
      }
   }
   pub fn list(&self) -> Option<&[Sexp]> {
      match self {
         Sexp::List(v) => Some(v),
         _ => None,
      }
   }
}
pub fn parse_line(s: &str) -> Option<Vec<Sexp>> {
   let mut stack: Vec<Vec<Sexp>> = vec![vec![]];
   let mut cur = String::new();
   fn flush(cur: &mut String, stack: &mut Vec<Vec<Sexp>>) {
      if !cur.is_empty() {
         stack.last_mut().unwrap().push(Sexp::Atom(std::mem::take(cur)));
      }
   }
   for c in s.chars() {
      match c {
         '(' => {
            flush(&mut cur, &mut stack);
            stack.push(vec![]);
         },
         ')' => {
            flush(&mut cur, &mut stack);
            let top = stack.pop()?;
            stack.last_mut()?.push(Sexp::List(top));
         },
         ' ' | '\t' | '\n' | '\r' => flush(&mut cur, &mut stack),
         c => cur.push(c),
      }
   }
   flush(&mut cur, &mut stack);
   if stack.len() == 1 { stack.pop() } else { None }
}

/// column values: same text on both sides of the tie
pub trait Col: Sized {
   fn parse(s: &Sexp) -> Option<Self>;
   fn render(&self) -> String;
}
impl Col for i64 {
   fn parse(s: &Sexp) -> Option<Self> { s.atom()?.parse().ok() }
   fn render(&self) -> String { format!("{}", self) }
}
impl Col for i32 {
   fn parse(s: &Sexp) -> Option<Self> { s.atom()?.parse().ok() }
   fn render(&self) -> String { format!("{}", self) }
}
impl Col for String {
   fn parse(s: &Sexp) -> Option<Self> { Some(s.atom()?.to_string()) }
   fn render(&self) -> String { self.clone() }
}
impl<T: Col> Col for Dual<T> {
   fn parse(s: &Sexp) -> Option<Self> { Some(Dual(T::parse(s)?)) }
   fn render(&self) -> String { self.0.render() }
}
impl Col for Set<i64> {
   fn parse(s: &Sexp) -> Option<Self> {
      let l = s.list()?;
      if l.first()?.atom()? != "set" {
         return None;
      }
      let mut r = Set::default();
      for x in &l[1..] {
         r.0.insert(i64::parse(x)?);
      }
      Some(r)
   }
   fn render(&self) -> String {
      let mut s = String::from("(set");
      for x in self.0.iter() {
         s.push_str(&format!(" {}", x));
      }
      s.push(')');
      s
   }
}
impl Col for ascent::lattice::bounded_set::BoundedSet<3, i64> {
   // `(set ..)` for a set of at most three elements, `none` for TOP
   fn parse(s: &Sexp) -> Option<Self> {
      if s.atom() == Some("none") {
         return Some(Self::TOP);
      }
      Some(Self::from_set(Set::<i64>::parse(s)?))
   }
   fn render(&self) -> String {
      if self.is_top() {
         return "none".into();
      }
      let mut xs: Vec<i64> = (-64..=64).filter(|x| self.contains(x)).collect();
      xs.sort();
      let mut s = String::from("(set");
      for x in xs {
         s.push_str(&format!(" {}", x));
      }
      s.push(')');
      s
   }
}
impl<T: Col> Col for Option<T> {
   fn parse(s: &Sexp) -> Option<Self> {
      if s.atom() == Some("none") {
         return Some(None);
      }
      let l = s.list()?;
      if l.len() == 2 && l[0].atom()? == "some" { Some(Some(T::parse(&l[1])?)) } else { None }
   }
   fn render(&self) -> String {
      match self {
         None => "none".into(),
         Some(x) => format!("(some {})", x.render()),
      }
   }
}

pub trait Row: Sized {
   fn parse(s: &Sexp) -> Option<Self>;
   fn render(&self) -> String;
}
macro_rules! row_impl {
   ($n:expr; $($T:ident $i:tt),*) => {
      impl<$($T: Col),*> Row for ($($T,)*) {
         fn parse(s: &Sexp) -> Option<Self> {
            let l = s.list()?;
            if l.len() != $n { return None; }
            Some(($($T::parse(&l[$i])?,)*))
         }
         fn render(&self) -> String {
            let v: Vec<String> = vec![$(self.$i.render()),*];
            format!("({})", v.join(" "))
         }
      }
   };
}
row_impl!(1; A 0);
row_impl!(2; A 0, B 1);
row_impl!(3; A 0, B 1, C 2);
row_impl!(4; A 0, B 1, C 2, D 3);
row_impl!(0;);
row_impl!(5; A 0, B 1, C 2, D 3, E 4);
row_impl!(6; A 0, B 1, C 2, D 3, E 4, F 5);
row_impl!(7; A 0, B 1, C 2, D 3, E 4, F 5, G 6);
row_impl!(8; A 0, B 1, C 2, D 3, E 4, F 5, G 6, H 7);

pub fn parse_rows<R: Row>(xs: &[Sexp]) -> Option<Vec<R>> { xs.iter().map(R::parse).collect() }

/// `r<i>: (1 2)*1 (3 4)*2` — rows sorted as text, with multiplicities
pub fn dump_rel(i: usize, mut rows: Vec<String>) -> String {
   rows.sort();
   let mut out = format!("r{}:", i);
   let mut j = 0;
   while j < rows.len() {
      let mut k = j;
      while k < rows.len() && rows[k] == rows[j] {
         k += 1;
      }
      out.push_str(&format!(" {}*{}", rows[j], k - j));
      j = k;
   }
   out
}

pub trait Driver {
   fn load(&mut self, rel: usize, rows: &[Sexp], append: bool) -> Option<()>;
   fn run(&mut self);
   /// run with the virtual deadline firing at the k-th clock reading; None if the program has no run_timeout
   fn run_timeout(&mut self, k: usize) -> Option<bool>;
   fn dump(&self) -> String;
   fn iters(&self) -> String;
   /// run() inside a freshly built rayon pool of `n` threads (whatever pool the instance was constructed in)
   fn run_in(&mut self, n: usize) {
      let pool = pool_of(n);
      // the instance is used by exactly one pool thread for the duration of the call
      struct Whole<T: ?Sized>(*mut T);
      unsafe impl<T: ?Sized> Send for Whole<T> {}
      let w = Whole(self as *mut Self);
      pool.install(move || {
         let w = w;
         unsafe { (*w.0).run_here() }
      });
   }
   /// run() in the rayon context current at the call
   fn run_here(&mut self);
}

pub type Factory = fn(par_pool: Option<usize>) -> Box<dyn Driver>;

pub fn main_loop(progs: &[(&str, Factory)]) {
   std::panic::set_hook(Box::new(|_| {}));
   let stdin = std::io::stdin();
   let stdout = std::io::stdout();
   let mut out = std::io::BufWriter::new(stdout.lock());
   let mut insts: HashMap<String, Box<dyn Driver>> = HashMap::new();
   for line in stdin.lock().lines() {
      let line = line.unwrap();
      let toks = match parse_line(&line) {
         Some(t) => t,
         None => {
            writeln!(out, "bad-line").unwrap();
            continue;
         },
      };
      let res = std::panic::catch_unwind(std::panic::AssertUnwindSafe(|| -> Option<String> {
         if toks.first()?.atom()? != "eng" {
            return None;
         }
         let op = toks.get(1)?.atom()?;
         match op {
            "prog" => {
               let id = toks.get(2)?.atom()?;
               if progs.iter().any(|(n, _)| *n == id) { Some("ok".into()) } else { Some("unknown-prog".into()) }
            },
            "new" => {
               let inst = toks.get(2)?.atom()?.to_string();
               let pid = toks.get(3)?.atom()?;
               let f = progs.iter().find(|(n, _)| *n == pid)?.1;
               let pool = match toks.get(5) {
                  Some(n) => Some(n.atom()?.parse().ok()?),
                  None => None,
               };
               insts.insert(inst, f(pool));
               Some("ok".into())
            },
            "load" | "push" => {
               let inst = insts.get_mut(toks.get(2)?.atom()?)?;
               let rel: usize = toks.get(3)?.atom()?.strip_prefix('r')?.parse().ok()?;
               inst.load(rel, &toks[4..], op == "push")?;
               Some("ok".into())
            },
            // `runp`: the Lean side evaluates the same program with the physical-index engine model (Model/EnginePhys.lean);
            // for the real code both are `run()`
            // `runpp <inst> <threads>`: the Lean side is the parallel physical-index engine model; the real instance runs in its own pool
            "run" | "runp" | "runpp" | "runpl" | "runppl" => {
               insts.get_mut(toks.get(2)?.atom()?)?.run();
               Some("ok".into())
            },
            // `runtop`: the Lean side is the physical-index engine model's run_timeout; for the real code it is run_timeout
            "runto" | "runtop" | "runtopl" | "runtopp" | "runtoppl" => {
               let k: usize = toks.get(3)?.atom()?.parse().ok()?;
               let r = insts.get_mut(toks.get(2)?.atom()?)?.run_timeout(k)?;
               Some(format!("{}", r))
            },
            "runin" => {
               let n: usize = toks.get(3)?.atom()?.parse().ok()?;
               insts.get_mut(toks.get(2)?.atom()?)?.run_in(n);
               Some("ok".into())
            },
            "perturb" => {
               let seed: u64 = toks.get(2)?.atom()?.parse().ok()?;
               ascent::internal::verif::set_perturbation(seed);
               Some("ok".into())
            },
            "conc" => {
               // run() of several instances at the same time, each on its own OS thread
               let names: Vec<String> = toks[2..].iter().map(|t| t.atom().map(|s| s.to_string())).collect::<Option<_>>()?;
               let mut taken: Vec<(String, Box<dyn Driver>)> = vec![];
               for n in names {
                  let d = insts.remove(&n)?;
                  taken.push((n, d));
               }
               let barrier = std::sync::Barrier::new(taken.len());
               // each instance is handed as a whole to exactly one thread for the duration of its run()
               struct Whole<'a>(&'a mut Box<dyn Driver>);
               unsafe impl Send for Whole<'_> {}
               let results: Vec<bool> = std::thread::scope(|s| {
                  let hs: Vec<_> = taken
                     .iter_mut()
                     .map(|(_, d)| {
                        let barrier = &barrier;
                        let w = Whole(d);
                        s.spawn(move || {
                           let w = w;
                           barrier.wait();
                           std::panic::catch_unwind(std::panic::AssertUnwindSafe(|| w.0.run())).is_ok()
                        })
                     })
                     .collect();
                  hs.into_iter().map(|h| h.join().unwrap_or(false)).collect()
               });
               for (n, d) in taken {
                  insts.insert(n, d);
               }
               Some(if results.iter().all(|b| *b) { "ok".into() } else { "panic in a concurrent run".into() })
            },
            "concmk" => {
               // several instances CONSTRUCTED and run at the same time, each on its own OS thread and in its own pool size:
               // `concmk (<inst> <prog> <pool> <delay ms>)+` — the construction of a later instance (first use of a larger pool)
               // falls into the middle of the run() of an earlier one
               let mut specs: Vec<(String, Factory, usize, u64)> = vec![];
               let mut i = 2;
               while toks.get(i + 3).is_some() {
                  let inst = toks.get(i)?.atom()?.to_string();
                  let pid = toks.get(i + 1)?.atom()?;
                  let f = progs.iter().find(|(n, _)| *n == pid)?.1;
                  let pool: usize = toks.get(i + 2)?.atom()?.parse().ok()?;
                  let delay: u64 = toks.get(i + 3)?.atom()?.parse().ok()?;
                  specs.push((inst, f, pool, delay));
                  i += 4;
               }
               let barrier = std::sync::Barrier::new(specs.len());
               struct Sendable(Option<Box<dyn Driver>>);
               unsafe impl Send for Sendable {}
               let results: Vec<Sendable> = std::thread::scope(|s| {
                  let hs: Vec<_> = specs
                     .iter()
                     .map(|(_, f, pool, delay)| {
                        let barrier = &barrier;
                        let (f, pool, delay) = (*f, *pool, *delay);
                        s.spawn(move || {
                           barrier.wait();
                           std::thread::sleep(std::time::Duration::from_millis(delay));
                           Sendable(
                              std::panic::catch_unwind(std::panic::AssertUnwindSafe(|| {
                                 let mut d = f(Some(pool));
                                 d.run();
                                 d
                              }))
                              .ok(),
                           )
                        })
                     })
                     .collect();
                  hs.into_iter().map(|h| h.join().unwrap_or(Sendable(None))).collect()
               });
               let mut all_ok = true;
               for ((n, _, _, _), r) in specs.into_iter().zip(results) {
                  match r.0 {
                     Some(d) => {
                        insts.insert(n, d);
                     },
                     None => all_ok = false,
                  }
               }
               Some(if all_ok { "ok".into() } else { "panic in a concurrently constructed instance".into() })
            },
            "dump" => Some(insts.get(toks.get(2)?.atom()?)?.dump()),
            "iters" => Some(insts.get(toks.get(2)?.atom()?)?.iters()),
            _ => None,
         }
      }));
      match res {
         Ok(Some(s)) => writeln!(out, "{}", s).unwrap(),
         Ok(None) => writeln!(out, "bad-op").unwrap(),
         Err(e) => {
            let msg = e.downcast_ref::<String>().cloned().or_else(|| e.downcast_ref::<&str>().map(|s| s.to_string())).unwrap_or_default();
            writeln!(out, "panic {}", msg.replace('\n', " ")).unwrap()
         },
      }
   }
   out.flush().unwrap();
}

/// one rayon pool per size, shared by all instances of the process (a pool per instance exhausts the OS thread limit in long runs:
/// `ThreadPoolBuildError { WouldBlock }` was a false alarm of the thorough tier)
pub fn pool_of(n: usize) -> std::sync::Arc<ascent::rayon::ThreadPool> {
   use std::collections::HashMap;
   use std::sync::{Arc, Mutex, OnceLock};
   static POOLS: OnceLock<Mutex<HashMap<usize, Arc<ascent::rayon::ThreadPool>>>> = OnceLock::new();
   let mut m = POOLS.get_or_init(|| Mutex::new(HashMap::new())).lock().unwrap();
   m.entry(n).or_insert_with(|| Arc::new(ascent::rayon::ThreadPoolBuilder::new().num_threads(n).build().unwrap())).clone()
}

/// a user-defined aggregator that yields TWO values, the least and the greatest of the column (nothing on an empty group): a rule fires once per value
pub fn minmax<'a>(inp: impl Iterator<Item = (&'a i64,)>) -> impl Iterator<Item = i64> {
   let v: Vec<i64> = inp.map(|(x,)| *x).collect();
   match (v.iter().min(), v.iter().max()) {
      (Some(a), Some(b)) => vec![*a, *b].into_iter(),
      _ => vec![].into_iter(),
   }
}

/// a user-defined aggregator with TWO bound arguments: `agg it = argmin(cost, item) in offer(.., item, .., cost, ..)` yields the `item` of the
/// lexicographically least `(cost, item)` pair (nothing on an empty group)
pub fn argmin<'a>(inp: impl Iterator<Item = (&'a i64, &'a i64)>) -> impl Iterator<Item = i64> {
   inp.map(|(c, i)| (*c, *i)).min().map(|(_, i)| i).into_iter()
}

/// `a * b` computed by a NESTED Ascent program: another program instance (compiled with `#![generate_run_timeout]`) constructed and run to completion with `run()` on the
/// calling thread, from inside a rule of the program that is being evaluated (tools/vlib: printer sugar `nested_mul` of the engine checks). One tuple per iteration, so the
/// inner run goes through `a * b` iterations of its recursive stratum.
pub fn nested_mul(a: i64, b: i64) -> i64 {
   if !(0..=12).contains(&a) || !(0..=12).contains(&b) {
      return a * b;
   }
   let mut p = nested::Mul::default();
   p.lim = vec![(a, b)];
   p.run();
   p.m.len() as i64
}

#[allow(unused, non_snake_case, clippy::all)]
mod nested {
   ascent::ascent! {
      #![generate_run_timeout]
      pub struct Mul;
      relation lim(i64, i64);
      relation m(i64, i64);
      m(0, 0) <-- lim(a, b), if *a > 0 && *b > 0;
      m(*i, *j + 1) <-- m(i, j), lim(_, b), if *j + 1 < *b;
      m(*i + 1, 0) <-- m(i, j), lim(a, b), if *j + 1 == *b && *i + 1 < *a;
   }
}
