#[path = "common.rs"]
mod common;
#[allow(unused, non_snake_case, clippy::all)]
pub mod t1 {
   use ascent::*;
   use ascent::aggregators::*;
   use ascent::lattice::{Dual, set::Set};
   use crate::common::*;
   ascent! {
      pub struct Prog;
      relation r0(i64, i64, i64);
      relation r1(i64, i64, i64);
      relation r2(i64);
      relation r3(i64);
      relation r4(i64);
      relation r5(i64, i64);
      relation r6(i64, i64);
      relation r7(i64, i64);
      relation r8(i64, i64, i64);
      #[ds(ascent_byods_rels::trrel)] relation r9(i64, i64, i64);
      relation r10(i64, i64, i64);
      relation r11(i64, i64, i64);
      relation r12(i64, i64, i64);
      relation r13(i64, i64, i64);
      relation r14(i64, i64, i64);
      relation r15(i64, i64, i64);
      relation r16(i64, i64, i64);
      relation r17(i64, i64, i64);
      relation r18(i64, i64, i64);
      relation r19(i64, i64);
      relation r20(i64, i64, i64);
      relation r21(i64, i64, i64);
      relation r22(i64, i64, i64);
      relation r23(i64, i64);
      r9(v9, v0, v1) <-- r0(v9, v0, v1);
      r9(v9, v1, v0) <-- r1(v9, v0, v1);
      r10(v0, v1, v2) <-- r9(v0, v1, v2);
      r11(v0, v1, v2) <-- r2(v0), r9(v0, v1, v2);
      r12(v0, v1, v2) <-- r3(v1), r9(v0, v1, v2);
      r13(v0, v1, v2) <-- r4(v2), r9(v0, v1, v2);
      r14(v0, v1, v2) <-- r5(v0, v1), r9(v0, v1, v2);
      r15(v0, v1, v2) <-- r6(v0, v2), r9(v0, v1, v2);
      r16(v0, v1, v2) <-- r7(v1, v2), r9(v0, v1, v2);
      r17(v0, v1, v2) <-- r8(v0, v1, v2), r9(v0, v1, v2);
      r18(v0, v1, 0) <-- r9(v0, v1, 0);
      r19(v9, v0) <-- r9(v9, v0, v0);
      r20(v9, v0, v2) <-- r9(v9, v0, v1), r9(v9, v1, v2);
      r21(v0, v1, v2) <-- r9(v0, v1, v2), r6(v0, v2);
      r22(v0, v1, v2) <-- r9(v0, v1, v2), r8(v0, v1, v2);
      r23(v9, v0) <-- r5(v9, v0);
      r23(v9, v1) <-- r23(v9, v0), r9(v9, v0, v1);
   }
   pub struct Inst { p: Prog, pool: Option<ascent::rayon::ThreadPool> }
   pub fn make(pool: Option<usize>) -> Box<dyn Driver> {
      let pool = pool.map(|n| ascent::rayon::ThreadPoolBuilder::new().num_threads(n).build().unwrap());
      let p = match &pool { Some(pl) => pl.install(|| Default::default()), None => Default::default() };
      Box::new(Inst { p, pool })
   }
   impl Driver for Inst {
      fn load(&mut self, rel: usize, rows: &[Sexp], append: bool) -> Option<()> {
         match rel {
         0 => { let v: Vec<(i64,i64,i64,)> = parse_rows(rows)?; if append { self.p.r0.extend(v) } else { self.p.r0 = v } },
         1 => { let v: Vec<(i64,i64,i64,)> = parse_rows(rows)?; if append { self.p.r1.extend(v) } else { self.p.r1 = v } },
         2 => { let v: Vec<(i64,)> = parse_rows(rows)?; if append { self.p.r2.extend(v) } else { self.p.r2 = v } },
         3 => { let v: Vec<(i64,)> = parse_rows(rows)?; if append { self.p.r3.extend(v) } else { self.p.r3 = v } },
         4 => { let v: Vec<(i64,)> = parse_rows(rows)?; if append { self.p.r4.extend(v) } else { self.p.r4 = v } },
         5 => { let v: Vec<(i64,i64,)> = parse_rows(rows)?; if append { self.p.r5.extend(v) } else { self.p.r5 = v } },
         6 => { let v: Vec<(i64,i64,)> = parse_rows(rows)?; if append { self.p.r6.extend(v) } else { self.p.r6 = v } },
         7 => { let v: Vec<(i64,i64,)> = parse_rows(rows)?; if append { self.p.r7.extend(v) } else { self.p.r7 = v } },
         8 => { let v: Vec<(i64,i64,i64,)> = parse_rows(rows)?; if append { self.p.r8.extend(v) } else { self.p.r8 = v } },
         9 => return None,
         10 => { let v: Vec<(i64,i64,i64,)> = parse_rows(rows)?; if append { self.p.r10.extend(v) } else { self.p.r10 = v } },
         11 => { let v: Vec<(i64,i64,i64,)> = parse_rows(rows)?; if append { self.p.r11.extend(v) } else { self.p.r11 = v } },
         12 => { let v: Vec<(i64,i64,i64,)> = parse_rows(rows)?; if append { self.p.r12.extend(v) } else { self.p.r12 = v } },
         13 => { let v: Vec<(i64,i64,i64,)> = parse_rows(rows)?; if append { self.p.r13.extend(v) } else { self.p.r13 = v } },
         14 => { let v: Vec<(i64,i64,i64,)> = parse_rows(rows)?; if append { self.p.r14.extend(v) } else { self.p.r14 = v } },
         15 => { let v: Vec<(i64,i64,i64,)> = parse_rows(rows)?; if append { self.p.r15.extend(v) } else { self.p.r15 = v } },
         16 => { let v: Vec<(i64,i64,i64,)> = parse_rows(rows)?; if append { self.p.r16.extend(v) } else { self.p.r16 = v } },
         17 => { let v: Vec<(i64,i64,i64,)> = parse_rows(rows)?; if append { self.p.r17.extend(v) } else { self.p.r17 = v } },
         18 => { let v: Vec<(i64,i64,i64,)> = parse_rows(rows)?; if append { self.p.r18.extend(v) } else { self.p.r18 = v } },
         19 => { let v: Vec<(i64,i64,)> = parse_rows(rows)?; if append { self.p.r19.extend(v) } else { self.p.r19 = v } },
         20 => { let v: Vec<(i64,i64,i64,)> = parse_rows(rows)?; if append { self.p.r20.extend(v) } else { self.p.r20 = v } },
         21 => { let v: Vec<(i64,i64,i64,)> = parse_rows(rows)?; if append { self.p.r21.extend(v) } else { self.p.r21 = v } },
         22 => { let v: Vec<(i64,i64,i64,)> = parse_rows(rows)?; if append { self.p.r22.extend(v) } else { self.p.r22 = v } },
         23 => { let v: Vec<(i64,i64,)> = parse_rows(rows)?; if append { self.p.r23.extend(v) } else { self.p.r23 = v } },
            _ => return None,
         }
         Some(())
      }
      fn run(&mut self) {
         // the provider prints to stdout (stray println! in TrRelIndNone::index_get): keep fd 1 clean while the program runs
         use std::io::Write;
         use std::os::unix::io::AsRawFd;
         extern "C" { fn dup(fd: i32) -> i32; fn dup2(a: i32, b: i32) -> i32; fn close(fd: i32) -> i32; }
         struct Restore(i32);
         impl Drop for Restore { fn drop(&mut self) { std::io::stdout().flush().ok(); unsafe { dup2(self.0, 1); close(self.0); } } }
         std::io::stdout().flush().ok();
         let null = std::fs::OpenOptions::new().write(true).open("/dev/null").unwrap();
         let _g = unsafe { let saved = dup(1); dup2(null.as_raw_fd(), 1); Restore(saved) };
         self.p.run()
      }
      fn run_here(&mut self) { self.p.run() }
      fn run_timeout(&mut self, k: usize) -> Option<bool> { let _ = k; None }
      fn dump(&self) -> String { vec![dump_rel(0, self.p.r0.iter().map(Row::render).collect()), dump_rel(1, self.p.r1.iter().map(Row::render).collect()), dump_rel(2, self.p.r2.iter().map(Row::render).collect()), dump_rel(3, self.p.r3.iter().map(Row::render).collect()), dump_rel(4, self.p.r4.iter().map(Row::render).collect()), dump_rel(5, self.p.r5.iter().map(Row::render).collect()), dump_rel(6, self.p.r6.iter().map(Row::render).collect()), dump_rel(7, self.p.r7.iter().map(Row::render).collect()), dump_rel(8, self.p.r8.iter().map(Row::render).collect()), dump_rel(9, self.p.r9.iter().map(Row::render).collect()), dump_rel(10, self.p.r10.iter().map(Row::render).collect()), dump_rel(11, self.p.r11.iter().map(Row::render).collect()), dump_rel(12, self.p.r12.iter().map(Row::render).collect()), dump_rel(13, self.p.r13.iter().map(Row::render).collect()), dump_rel(14, self.p.r14.iter().map(Row::render).collect()), dump_rel(15, self.p.r15.iter().map(Row::render).collect()), dump_rel(16, self.p.r16.iter().map(Row::render).collect()), dump_rel(17, self.p.r17.iter().map(Row::render).collect()), dump_rel(18, self.p.r18.iter().map(Row::render).collect()), dump_rel(19, self.p.r19.iter().map(Row::render).collect()), dump_rel(20, self.p.r20.iter().map(Row::render).collect()), dump_rel(21, self.p.r21.iter().map(Row::render).collect()), dump_rel(22, self.p.r22.iter().map(Row::render).collect()), dump_rel(23, self.p.r23.iter().map(Row::render).collect())].join(" | ") }
      fn iters(&self) -> String { format!("iters {}", self.p.scc_iters.iter().map(|x| x.to_string()).collect::<Vec<_>>().join(" ")) }
   }
}

#[allow(unused, non_snake_case, clippy::all)]
pub mod w1 {
   use ascent::*;
   use ascent::aggregators::*;
   use ascent::lattice::{Dual, set::Set};
   use crate::common::*;
   ascent! {
      pub struct Prog;
      relation r0(i64, i64, i64);
      relation r1(i64, i64);
      #[ds(ascent_byods_rels::trrel)] relation r2(i64, i64, i64);
      relation r3(i64, i64, i64);
      r2(v9, v0, v1) <-- r0(v9, v0, v1);
      r3(v9, v0, v1) <-- r1(v0, v1), r2(v9, v0, v1);
   }
   pub struct Inst { p: Prog, pool: Option<ascent::rayon::ThreadPool> }
   pub fn make(pool: Option<usize>) -> Box<dyn Driver> {
      let pool = pool.map(|n| ascent::rayon::ThreadPoolBuilder::new().num_threads(n).build().unwrap());
      let p = match &pool { Some(pl) => pl.install(|| Default::default()), None => Default::default() };
      Box::new(Inst { p, pool })
   }
   impl Driver for Inst {
      fn load(&mut self, rel: usize, rows: &[Sexp], append: bool) -> Option<()> {
         match rel {
         0 => { let v: Vec<(i64,i64,i64,)> = parse_rows(rows)?; if append { self.p.r0.extend(v) } else { self.p.r0 = v } },
         1 => { let v: Vec<(i64,i64,)> = parse_rows(rows)?; if append { self.p.r1.extend(v) } else { self.p.r1 = v } },
         2 => return None,
         3 => { let v: Vec<(i64,i64,i64,)> = parse_rows(rows)?; if append { self.p.r3.extend(v) } else { self.p.r3 = v } },
            _ => return None,
         }
         Some(())
      }
      fn run(&mut self) {
         // the provider prints to stdout (stray println! in TrRelIndNone::index_get): keep fd 1 clean while the program runs
         use std::io::Write;
         use std::os::unix::io::AsRawFd;
         extern "C" { fn dup(fd: i32) -> i32; fn dup2(a: i32, b: i32) -> i32; fn close(fd: i32) -> i32; }
         struct Restore(i32);
         impl Drop for Restore { fn drop(&mut self) { std::io::stdout().flush().ok(); unsafe { dup2(self.0, 1); close(self.0); } } }
         std::io::stdout().flush().ok();
         let null = std::fs::OpenOptions::new().write(true).open("/dev/null").unwrap();
         let _g = unsafe { let saved = dup(1); dup2(null.as_raw_fd(), 1); Restore(saved) };
         self.p.run()
      }
      fn run_here(&mut self) { self.p.run() }
      fn run_timeout(&mut self, k: usize) -> Option<bool> { let _ = k; None }
      fn dump(&self) -> String { vec![dump_rel(0, self.p.r0.iter().map(Row::render).collect()), dump_rel(1, self.p.r1.iter().map(Row::render).collect()), dump_rel(2, self.p.r2.iter().map(Row::render).collect()), dump_rel(3, self.p.r3.iter().map(Row::render).collect())].join(" | ") }
      fn iters(&self) -> String { format!("iters {}", self.p.scc_iters.iter().map(|x| x.to_string()).collect::<Vec<_>>().join(" ")) }
   }
}

fn main() {
   common::main_loop(&[("t1", t1::make as common::Factory), ("w1", w1::make as common::Factory)]);
}
