#[path = "common.rs"]
mod common;
#[allow(unused, non_snake_case, clippy::all)]
pub mod g3x {
   use ascent::*;
   use ascent::aggregators::*;
   use ascent::lattice::{Dual, set::Set};
   use crate::common::*;
   ascent! {
      pub struct Prog;
      relation r0(i64, i64);
      relation r1(i64, Option<i64>);
      relation r2(i64);
      relation r3(i64, i64, i64);
      relation r4(i64, i64);
      relation r5(i64);
      relation r6(i64, Option<i64>);
      relation r7(i64);
      r5(v0) <-- r0(v0, v100), r2(v101) if (v101.clone() == v0.clone());
      r6(0, Some(v0.clone())) <-- agg () = not() in r3(2, 3, 2), r2(v0);
      r6(0, Some(v0.clone())) <-- agg () = not() in r3(2, 3, 2), r7(v0);
      r7(v0) <-- r5(v102) if (v102.clone() == 2), r4(v0, v1), r2(v103) if (v103.clone() == v0.clone());
      r7(v6) <-- r3(v1, v0, v104) if (v104.clone() == v1.clone()), r3(v105, v4, v5) if (v105.clone() == 0) if (v0.clone() <= 4), r6(v6, v106) if let Some(v7) = v106.clone();
      r6(v0, Some(v5.clone())) <-- r3(v1, v0, v104) if (v104.clone() == v1.clone()), r3(v105, v4, v5) if (v105.clone() == 0) if (v0.clone() <= 4), r6(v6, v106) if let Some(v7) = v106.clone();
      r7(v6) <-- r3(v1, v0, v107) if (v107.clone() == v1.clone()), r3(v108, v4, v5) if (v108.clone() == 0) if (v0.clone() <= 4), r3(v109, v7, v6) if (v109.clone() == 1) if (v1.clone() < v5.clone()) let v8 = std::cmp::min((v7.clone() + v5.clone()), 6), r1(v110, v9);
      r6(v0, Some(v5.clone())) <-- r3(v1, v0, v107) if (v107.clone() == v1.clone()), r3(v108, v4, v5) if (v108.clone() == 0) if (v0.clone() <= 4), r3(v109, v7, v6) if (v109.clone() == 1) if (v1.clone() < v5.clone()) let v8 = std::cmp::min((v7.clone() + v5.clone()), 6), r1(v110, v9);
      r7(v6) <-- r3(v1, v0, v111) if (v111.clone() == v1.clone()), r3(v112, v4, v5) if (v112.clone() == 0) if (v0.clone() <= 4), r3(v10, v6, v11), r0(v113, v114) if (v113.clone() == v5.clone());
      r6(v0, Some(v5.clone())) <-- r3(v1, v0, v111) if (v111.clone() == v1.clone()), r3(v112, v4, v5) if (v112.clone() == 0) if (v0.clone() <= 4), r3(v10, v6, v11), r0(v113, v114) if (v113.clone() == v5.clone());
      r7(v6) <-- r3(v1, v0, v115) if (v115.clone() == v1.clone()), r3(v116, v4, v5) if (v116.clone() == 0) if (v0.clone() <= 4), r3(v10, v6, v11) if (v6.clone() != 3), r7(v12);
      r6(v0, Some(v5.clone())) <-- r3(v1, v0, v115) if (v115.clone() == v1.clone()), r3(v116, v4, v5) if (v116.clone() == 0) if (v0.clone() <= 4), r3(v10, v6, v11) if (v6.clone() != 3), r7(v12);
      r7(v6) <-- r3(v1, v2, v0), r6(v3, v117) if (v117.clone() == Some(v3.clone())), r3(v118, v4, v5) if (v118.clone() == 0) if (v0.clone() <= 4), r6(v6, v119) if let Some(v7) = v119.clone();
      r6(v0, Some(v5.clone())) <-- r3(v1, v2, v0), r6(v3, v117) if (v117.clone() == Some(v3.clone())), r3(v118, v4, v5) if (v118.clone() == 0) if (v0.clone() <= 4), r6(v6, v119) if let Some(v7) = v119.clone();
      r7(v6) <-- r3(v1, v2, v0), r6(v3, v120) if (v120.clone() == Some(v3.clone())), r3(v121, v4, v5) if (v121.clone() == 0) if (v0.clone() <= 4), r3(v122, v7, v6) if (v122.clone() == 1) if (v1.clone() < v5.clone()) let v8 = std::cmp::min((v7.clone() + v5.clone()), 6), r1(v123, v9);
      r6(v0, Some(v5.clone())) <-- r3(v1, v2, v0), r6(v3, v120) if (v120.clone() == Some(v3.clone())), r3(v121, v4, v5) if (v121.clone() == 0) if (v0.clone() <= 4), r3(v122, v7, v6) if (v122.clone() == 1) if (v1.clone() < v5.clone()) let v8 = std::cmp::min((v7.clone() + v5.clone()), 6), r1(v123, v9);
      r7(v6) <-- r3(v1, v2, v0), r6(v3, v124) if (v124.clone() == Some(v3.clone())), r3(v125, v4, v5) if (v125.clone() == 0) if (v0.clone() <= 4), r3(v10, v6, v11), r0(v126, v127) if (v126.clone() == v5.clone());
      r6(v0, Some(v5.clone())) <-- r3(v1, v2, v0), r6(v3, v124) if (v124.clone() == Some(v3.clone())), r3(v125, v4, v5) if (v125.clone() == 0) if (v0.clone() <= 4), r3(v10, v6, v11), r0(v126, v127) if (v126.clone() == v5.clone());
      r7(v6) <-- r3(v1, v2, v0), r6(v3, v128) if (v128.clone() == Some(v3.clone())), r3(v129, v4, v5) if (v129.clone() == 0) if (v0.clone() <= 4), r3(v10, v6, v11) if (v6.clone() != 3), r7(v12);
      r6(v0, Some(v5.clone())) <-- r3(v1, v2, v0), r6(v3, v128) if (v128.clone() == Some(v3.clone())), r3(v129, v4, v5) if (v129.clone() == 0) if (v0.clone() <= 4), r3(v10, v6, v11) if (v6.clone() != 3), r7(v12);
      r7(v6) <-- r3(v0, v1, v2), r3(v130, v4, v5) if (v130.clone() == 0) if (v0.clone() <= 4), r6(v6, v131) if let Some(v7) = v131.clone();
      r6(v0, Some(v5.clone())) <-- r3(v0, v1, v2), r3(v130, v4, v5) if (v130.clone() == 0) if (v0.clone() <= 4), r6(v6, v131) if let Some(v7) = v131.clone();
      r7(v6) <-- r3(v0, v1, v2), r3(v132, v4, v5) if (v132.clone() == 0) if (v0.clone() <= 4), r3(v133, v7, v6) if (v133.clone() == 1) if (v1.clone() < v5.clone()) let v8 = std::cmp::min((v7.clone() + v5.clone()), 6), r1(v134, v9);
      r6(v0, Some(v5.clone())) <-- r3(v0, v1, v2), r3(v132, v4, v5) if (v132.clone() == 0) if (v0.clone() <= 4), r3(v133, v7, v6) if (v133.clone() == 1) if (v1.clone() < v5.clone()) let v8 = std::cmp::min((v7.clone() + v5.clone()), 6), r1(v134, v9);
      r7(v6) <-- r3(v0, v1, v2), r3(v135, v4, v5) if (v135.clone() == 0) if (v0.clone() <= 4), r3(v10, v6, v11), r0(v136, v137) if (v136.clone() == v5.clone());
      r6(v0, Some(v5.clone())) <-- r3(v0, v1, v2), r3(v135, v4, v5) if (v135.clone() == 0) if (v0.clone() <= 4), r3(v10, v6, v11), r0(v136, v137) if (v136.clone() == v5.clone());
      r7(v6) <-- r3(v0, v1, v2), r3(v138, v4, v5) if (v138.clone() == 0) if (v0.clone() <= 4), r3(v10, v6, v11) if (v6.clone() != 3), r7(v12);
      r6(v0, Some(v5.clone())) <-- r3(v0, v1, v2), r3(v138, v4, v5) if (v138.clone() == 0) if (v0.clone() <= 4), r3(v10, v6, v11) if (v6.clone() != 3), r7(v12);
      r7(v0) <-- if let Some(v0) = Some(2);
   }
   pub struct Inst { p: Prog, pool: Option<ascent::rayon::ThreadPool> }
   pub fn make(pool: Option<usize>) -> Box<dyn Driver> {
      let pool = pool.map(|n| ascent::rayon::ThreadPoolBuilder::new().num_threads(n).build().unwrap());
      let p = match &pool { Some(pl) => pl.install(|| Default::default()), None => Default::default() };
      Box::new(Inst { p, pool })
   }
   impl Driver for Inst {
      fn load(&mut self, rel: usize, rows: &[Sexp], append: bool) -> Option<()> {
         match rel {
         0 => { let v: Vec<(i64,i64,)> = parse_rows(rows)?; if append { self.p.r0.extend(v) } else { self.p.r0 = v } },
         1 => { let v: Vec<(i64,Option<i64>,)> = parse_rows(rows)?; if append { self.p.r1.extend(v) } else { self.p.r1 = v } },
         2 => { let v: Vec<(i64,)> = parse_rows(rows)?; if append { self.p.r2.extend(v) } else { self.p.r2 = v } },
         3 => { let v: Vec<(i64,i64,i64,)> = parse_rows(rows)?; if append { self.p.r3.extend(v) } else { self.p.r3 = v } },
         4 => { let v: Vec<(i64,i64,)> = parse_rows(rows)?; if append { self.p.r4.extend(v) } else { self.p.r4 = v } },
         5 => { let v: Vec<(i64,)> = parse_rows(rows)?; if append { self.p.r5.extend(v) } else { self.p.r5 = v } },
         6 => { let v: Vec<(i64,Option<i64>,)> = parse_rows(rows)?; if append { self.p.r6.extend(v) } else { self.p.r6 = v } },
         7 => { let v: Vec<(i64,)> = parse_rows(rows)?; if append { self.p.r7.extend(v) } else { self.p.r7 = v } },
            _ => return None,
         }
         Some(())
      }
      fn run(&mut self) { match &self.pool { Some(pl) => { let p = &mut self.p; pl.install(|| p.run()) }, None => self.p.run() } }
      fn run_here(&mut self) { self.p.run() }
      fn run_timeout(&mut self, k: usize) -> Option<bool> { let _ = k; None }
      fn dump(&self) -> String { vec![dump_rel(0, self.p.r0.iter().map(Row::render).collect()), dump_rel(1, self.p.r1.iter().map(Row::render).collect()), dump_rel(2, self.p.r2.iter().map(Row::render).collect()), dump_rel(3, self.p.r3.iter().map(Row::render).collect()), dump_rel(4, self.p.r4.iter().map(Row::render).collect()), dump_rel(5, self.p.r5.iter().map(Row::render).collect()), dump_rel(6, self.p.r6.iter().map(Row::render).collect()), dump_rel(7, self.p.r7.iter().map(Row::render).collect())].join(" | ") }
      fn iters(&self) -> String { format!("iters {}", self.p.scc_iters.iter().map(|x| x.to_string()).collect::<Vec<_>>().join(" ")) }
   }
}

#[allow(unused, non_snake_case, clippy::all)]
pub mod g7x {
   use ascent::*;
   use ascent::aggregators::*;
   use ascent::lattice::{Dual, set::Set};
   use crate::common::*;
   ascent! {
      pub struct Prog;
      relation r0(i64, i64);
      relation r1(i64, Option<i64>);
      relation r2(i64);
      relation r3(i64, i64, i64);
      relation r4(i64);
      relation r5(i64);
      relation r6(i64, i64, i64);
      relation r7(i64, i64);
      r5(v0) <-- r3(v1, v0, v100) if (v100.clone() == (v1.clone() + v1.clone())) if (v1.clone() == 5) let v2 = std::cmp::min((v1.clone() + v1.clone()), 6);
      r5(v0) <-- r0(v1, v0);
      r6(v0, v0, v0) <-- r1(v0, v1) if (v0.clone() < 5) let v2 = std::cmp::min(std::cmp::max(v0.clone(), 1), 6), r3(v101, v102, v103) if (v101.clone() == v0.clone()) if (v102.clone() == v0.clone()) if (v103.clone() == v2.clone()), r1(v6, v5), r5(v7), r4(v104) if (v104.clone() == (v0.clone() + 1));
      r6(v0, v0, v0) <-- r1(v0, v1) if (v0.clone() < 5) let v2 = std::cmp::min(std::cmp::max(v0.clone(), 1), 6), r3(v105, v106, v107) if (v105.clone() == v0.clone()) if (v106.clone() == v0.clone()) if (v107.clone() == v2.clone()), r1(v108, v5) if (v108.clone() == v0.clone()), r4(v109) if (v109.clone() == (v0.clone() + 1));
      r6(v0, v0, v0) <-- r1(v0, v1) if (v0.clone() < 5) let v3 = std::cmp::min(std::cmp::max(v0.clone(), 1), 6), r4(v4) if (v3.clone() <= v0.clone()), r1(v6, v5), r5(v7), r4(v110) if (v110.clone() == (v0.clone() + 1));
      r6(v0, v0, v0) <-- r1(v0, v1) if (v0.clone() < 5) let v3 = std::cmp::min(std::cmp::max(v0.clone(), 1), 6), r4(v4) if (v3.clone() <= v0.clone()), r1(v111, v5) if (v111.clone() == v0.clone()), r4(v112) if (v112.clone() == (v0.clone() + 1));
      r7(v1, v1) <-- r0(v113, v0) if (v113.clone() == 3), for v1 in 2..3, r5(v114);
      r7(v0, v0) <-- r1(v0, v1), r3(v115, v2, v3) if (v115.clone() == 0);
      r5(v0) <-- r1(v0, v1), r3(v115, v2, v3) if (v115.clone() == 0);
      r7(v0, v0) <-- r1(v0, v1);
      r5(v0) <-- r1(v0, v1);
      r6(v1, v1, v1) <-- r1(v116, v0) if (v116.clone() == 2), r3(v117, v118, v1) if (v117.clone() == 0) if (v118.clone() == 0), r5(v119) if (v119.clone() == v1.clone());
      r6(v1, v1, v1) <-- r1(v120, v0) if (v120.clone() == 2), r3(v1, v2, v3), r5(v121) if (v121.clone() == v1.clone());
      r6(v1, v1, v1) <-- r1(v122, v0) if (v122.clone() == 2), r1(v1, v123) if let Some(v4) = v123.clone() if (v1.clone() == 4) let v5 = std::cmp::min(std::cmp::max(v4.clone(), 0), 6), r5(v124) if (v124.clone() == v1.clone());
      r6((v0.clone() + 1), v0, 1) <-- agg () = not() in r4(0), r6(v125, v126, v0) if (v126.clone() == 3), if (v0.clone() < 5);
      r6(1, 2, 2);
   }
   pub struct Inst { p: Prog, pool: Option<ascent::rayon::ThreadPool> }
   pub fn make(pool: Option<usize>) -> Box<dyn Driver> {
      let pool = pool.map(|n| ascent::rayon::ThreadPoolBuilder::new().num_threads(n).build().unwrap());
      let p = match &pool { Some(pl) => pl.install(|| Default::default()), None => Default::default() };
      Box::new(Inst { p, pool })
   }
   impl Driver for Inst {
      fn load(&mut self, rel: usize, rows: &[Sexp], append: bool) -> Option<()> {
         match rel {
         0 => { let v: Vec<(i64,i64,)> = parse_rows(rows)?; if append { self.p.r0.extend(v) } else { self.p.r0 = v } },
         1 => { let v: Vec<(i64,Option<i64>,)> = parse_rows(rows)?; if append { self.p.r1.extend(v) } else { self.p.r1 = v } },
         2 => { let v: Vec<(i64,)> = parse_rows(rows)?; if append { self.p.r2.extend(v) } else { self.p.r2 = v } },
         3 => { let v: Vec<(i64,i64,i64,)> = parse_rows(rows)?; if append { self.p.r3.extend(v) } else { self.p.r3 = v } },
         4 => { let v: Vec<(i64,)> = parse_rows(rows)?; if append { self.p.r4.extend(v) } else { self.p.r4 = v } },
         5 => { let v: Vec<(i64,)> = parse_rows(rows)?; if append { self.p.r5.extend(v) } else { self.p.r5 = v } },
         6 => { let v: Vec<(i64,i64,i64,)> = parse_rows(rows)?; if append { self.p.r6.extend(v) } else { self.p.r6 = v } },
         7 => { let v: Vec<(i64,i64,)> = parse_rows(rows)?; if append { self.p.r7.extend(v) } else { self.p.r7 = v } },
            _ => return None,
         }
         Some(())
      }
      fn run(&mut self) { match &self.pool { Some(pl) => { let p = &mut self.p; pl.install(|| p.run()) }, None => self.p.run() } }
      fn run_here(&mut self) { self.p.run() }
      fn run_timeout(&mut self, k: usize) -> Option<bool> { let _ = k; None }
      fn dump(&self) -> String { vec![dump_rel(0, self.p.r0.iter().map(Row::render).collect()), dump_rel(1, self.p.r1.iter().map(Row::render).collect()), dump_rel(2, self.p.r2.iter().map(Row::render).collect()), dump_rel(3, self.p.r3.iter().map(Row::render).collect()), dump_rel(4, self.p.r4.iter().map(Row::render).collect()), dump_rel(5, self.p.r5.iter().map(Row::render).collect()), dump_rel(6, self.p.r6.iter().map(Row::render).collect()), dump_rel(7, self.p.r7.iter().map(Row::render).collect())].join(" | ") }
      fn iters(&self) -> String { format!("iters {}", self.p.scc_iters.iter().map(|x| x.to_string()).collect::<Vec<_>>().join(" ")) }
   }
}

#[allow(unused, non_snake_case, clippy::all)]
pub mod g11x {
   use ascent::*;
   use ascent::aggregators::*;
   use ascent::lattice::{Dual, set::Set};
   use crate::common::*;
   ascent! {
      pub struct Prog;
      relation r0(i64, i64);
      relation r1(i64, Option<i64>);
      relation r2(i64);
      relation r3(i64, i64, i64);
      relation r4(i64, i64);
      relation r5(i64, Option<i64>);
      relation r6(i64);
      relation r7(i64);
      relation r8(i64, Option<i64>);
      r5(v2, Some(v2.clone())) <-- r0(v0, v100) if (v100.clone() == std::cmp::max(v0.clone(), 3)), r2(v1), r1(v2, v101) if let Some(v3) = v101.clone();
      r6((v0.clone() + 1)) <-- r4(v102, v0) if (v102.clone() == 3), let v1 = std::cmp::min(std::cmp::min(v0.clone(), 2), 6), if (v0.clone() < 5);
      r7(3) <-- r4(v103, v0), r4(v2, v1) if (v0.clone() <= 5), for v3 in 2..3, r4(v5, v104) if (v104.clone() == v0.clone());
      r7(3) <-- r4(v105, v0), r8(v1, v106) if let Some(v2) = v106.clone(), r6(v107) if (v107.clone() == v0.clone()) if (v2.clone() <= v1.clone()), r4(v5, v108) if (v108.clone() == v0.clone());
      r7(3) <-- r4(v109, v0), r4(v2, v1), if let Some(v4) = None::<i64>, r4(v5, v110) if (v110.clone() == v0.clone());
      r8((v0.clone() + 1), Some(v0.clone())) <-- r8(v0, v111), if (v0.clone() < 5);
      r6(v0) <-- agg () = not() in r4(2, 2), agg () = not() in r3(2, 0, 0), r1(v0, v112) if (v112.clone() == Some(std::cmp::min(v0.clone(), 4))), if (v0.clone() < 5);
      r5((v0.clone() + 1), Some(v0.clone())) <-- agg () = not() in r4(2, 2), agg () = not() in r3(2, 0, 0), r1(v0, v112) if (v112.clone() == Some(std::cmp::min(v0.clone(), 4))), if (v0.clone() < 5);
      r7(v0) <-- r5(v113, v114), r7(v0), r2(v1);
      r7(v0) <-- r8(v0, v115) if (v115.clone() == Some(std::cmp::max(v0.clone(), 2)));
      r7(v0) <-- r8(v0, v116) if (v116.clone() == None::<i64>), agg () = not() in r1(v0.clone(), _);
      r6(0) <-- r7(v117) if (v117.clone() == 0), r0(v0, v118) if (v118.clone() == v0.clone()), r6(v119);
      r8(1, Some(1));
   }
   pub struct Inst { p: Prog, pool: Option<ascent::rayon::ThreadPool> }
   pub fn make(pool: Option<usize>) -> Box<dyn Driver> {
      let pool = pool.map(|n| ascent::rayon::ThreadPoolBuilder::new().num_threads(n).build().unwrap());
      let p = match &pool { Some(pl) => pl.install(|| Default::default()), None => Default::default() };
      Box::new(Inst { p, pool })
   }
   impl Driver for Inst {
      fn load(&mut self, rel: usize, rows: &[Sexp], append: bool) -> Option<()> {
         match rel {
         0 => { let v: Vec<(i64,i64,)> = parse_rows(rows)?; if append { self.p.r0.extend(v) } else { self.p.r0 = v } },
         1 => { let v: Vec<(i64,Option<i64>,)> = parse_rows(rows)?; if append { self.p.r1.extend(v) } else { self.p.r1 = v } },
         2 => { let v: Vec<(i64,)> = parse_rows(rows)?; if append { self.p.r2.extend(v) } else { self.p.r2 = v } },
         3 => { let v: Vec<(i64,i64,i64,)> = parse_rows(rows)?; if append { self.p.r3.extend(v) } else { self.p.r3 = v } },
         4 => { let v: Vec<(i64,i64,)> = parse_rows(rows)?; if append { self.p.r4.extend(v) } else { self.p.r4 = v } },
         5 => { let v: Vec<(i64,Option<i64>,)> = parse_rows(rows)?; if append { self.p.r5.extend(v) } else { self.p.r5 = v } },
         6 => { let v: Vec<(i64,)> = parse_rows(rows)?; if append { self.p.r6.extend(v) } else { self.p.r6 = v } },
         7 => { let v: Vec<(i64,)> = parse_rows(rows)?; if append { self.p.r7.extend(v) } else { self.p.r7 = v } },
         8 => { let v: Vec<(i64,Option<i64>,)> = parse_rows(rows)?; if append { self.p.r8.extend(v) } else { self.p.r8 = v } },
            _ => return None,
         }
         Some(())
      }
      fn run(&mut self) { match &self.pool { Some(pl) => { let p = &mut self.p; pl.install(|| p.run()) }, None => self.p.run() } }
      fn run_here(&mut self) { self.p.run() }
      fn run_timeout(&mut self, k: usize) -> Option<bool> { let _ = k; None }
      fn dump(&self) -> String { vec![dump_rel(0, self.p.r0.iter().map(Row::render).collect()), dump_rel(1, self.p.r1.iter().map(Row::render).collect()), dump_rel(2, self.p.r2.iter().map(Row::render).collect()), dump_rel(3, self.p.r3.iter().map(Row::render).collect()), dump_rel(4, self.p.r4.iter().map(Row::render).collect()), dump_rel(5, self.p.r5.iter().map(Row::render).collect()), dump_rel(6, self.p.r6.iter().map(Row::render).collect()), dump_rel(7, self.p.r7.iter().map(Row::render).collect()), dump_rel(8, self.p.r8.iter().map(Row::render).collect())].join(" | ") }
      fn iters(&self) -> String { format!("iters {}", self.p.scc_iters.iter().map(|x| x.to_string()).collect::<Vec<_>>().join(" ")) }
   }
}

#[allow(unused, non_snake_case, clippy::all)]
pub mod n1x {
   use ascent::*;
   use ascent::aggregators::*;
   use ascent::lattice::{Dual, set::Set};
   use crate::common::*;
   ascent! {
      pub struct Prog;
      relation r0(i64, i64);
      relation r1(i64);
      lattice r2(i64, i64);
      relation r3(i64);
      relation r4(i64);
      relation r5(i64, i64);
      r2(v0, v1) <-- r0(v0, v1);
      r3(v0) <-- r0(v0, v100), r2(v101, v102) if (v101.clone() == v0.clone()) if (v102.clone() == 3);
      r4(v0) <-- r1(v0), r2(v103, v104) if (v103.clone() == v0.clone()) if (v104.clone() == v0.clone());
      r3(v0) <-- r1(v0), r2(v105, v106) if (v105.clone() == v0.clone()) if (v106.clone() == (v0.clone() + 2));
      r4(v0) <-- r1(v0), r2(v107, v1) if (v107.clone() == v0.clone()) if (v1.clone() <= 1);
   }
   pub struct Inst { p: Prog, pool: Option<ascent::rayon::ThreadPool> }
   pub fn make(pool: Option<usize>) -> Box<dyn Driver> {
      let pool = pool.map(|n| ascent::rayon::ThreadPoolBuilder::new().num_threads(n).build().unwrap());
      let p = match &pool { Some(pl) => pl.install(|| Default::default()), None => Default::default() };
      Box::new(Inst { p, pool })
   }
   impl Driver for Inst {
      fn load(&mut self, rel: usize, rows: &[Sexp], append: bool) -> Option<()> {
         match rel {
         0 => { let v: Vec<(i64,i64,)> = parse_rows(rows)?; if append { self.p.r0.extend(v) } else { self.p.r0 = v } },
         1 => { let v: Vec<(i64,)> = parse_rows(rows)?; if append { self.p.r1.extend(v) } else { self.p.r1 = v } },
         2 => { let v: Vec<(i64,i64,)> = parse_rows(rows)?; if append { self.p.r2.extend(v) } else { self.p.r2 = v } },
         3 => { let v: Vec<(i64,)> = parse_rows(rows)?; if append { self.p.r3.extend(v) } else { self.p.r3 = v } },
         4 => { let v: Vec<(i64,)> = parse_rows(rows)?; if append { self.p.r4.extend(v) } else { self.p.r4 = v } },
         5 => { let v: Vec<(i64,i64,)> = parse_rows(rows)?; if append { self.p.r5.extend(v) } else { self.p.r5 = v } },
            _ => return None,
         }
         Some(())
      }
      fn run(&mut self) { match &self.pool { Some(pl) => { let p = &mut self.p; pl.install(|| p.run()) }, None => self.p.run() } }
      fn run_here(&mut self) { self.p.run() }
      fn run_timeout(&mut self, k: usize) -> Option<bool> { let _ = k; None }
      fn dump(&self) -> String { vec![dump_rel(0, self.p.r0.iter().map(Row::render).collect()), dump_rel(1, self.p.r1.iter().map(Row::render).collect()), dump_rel(2, self.p.r2.iter().map(Row::render).collect()), dump_rel(3, self.p.r3.iter().map(Row::render).collect()), dump_rel(4, self.p.r4.iter().map(Row::render).collect()), dump_rel(5, self.p.r5.iter().map(Row::render).collect())].join(" | ") }
      fn iters(&self) -> String { format!("iters {}", self.p.scc_iters.iter().map(|x| x.to_string()).collect::<Vec<_>>().join(" ")) }
   }
}

#[allow(unused, non_snake_case, clippy::all)]
pub mod c1x {
   use ascent::*;
   use ascent::aggregators::*;
   use ascent::lattice::{Dual, set::Set};
   use crate::common::*;
   ascent! {
      pub struct Prog;
      relation r0(i64, i64);
      relation r1(i64);
      relation r2(i64, i64);
      relation r3(i64, i64);
      r2(w1, expr_replaced_) <-- r0(w1, v1001) if (v1001.clone() == (w1.clone() + 1)), r1(expr_replaced_);
      r3(w1, v1) <-- r2(w1, v1), r0(v1002, v1003) if (v1002.clone() == v1.clone());
   }
   pub struct Inst { p: Prog, pool: Option<ascent::rayon::ThreadPool> }
   pub fn make(pool: Option<usize>) -> Box<dyn Driver> {
      let pool = pool.map(|n| ascent::rayon::ThreadPoolBuilder::new().num_threads(n).build().unwrap());
      let p = match &pool { Some(pl) => pl.install(|| Default::default()), None => Default::default() };
      Box::new(Inst { p, pool })
   }
   impl Driver for Inst {
      fn load(&mut self, rel: usize, rows: &[Sexp], append: bool) -> Option<()> {
         match rel {
         0 => { let v: Vec<(i64,i64,)> = parse_rows(rows)?; if append { self.p.r0.extend(v) } else { self.p.r0 = v } },
         1 => { let v: Vec<(i64,)> = parse_rows(rows)?; if append { self.p.r1.extend(v) } else { self.p.r1 = v } },
         2 => { let v: Vec<(i64,i64,)> = parse_rows(rows)?; if append { self.p.r2.extend(v) } else { self.p.r2 = v } },
         3 => { let v: Vec<(i64,i64,)> = parse_rows(rows)?; if append { self.p.r3.extend(v) } else { self.p.r3 = v } },
            _ => return None,
         }
         Some(())
      }
      fn run(&mut self) { match &self.pool { Some(pl) => { let p = &mut self.p; pl.install(|| p.run()) }, None => self.p.run() } }
      fn run_here(&mut self) { self.p.run() }
      fn run_timeout(&mut self, k: usize) -> Option<bool> { let _ = k; None }
      fn dump(&self) -> String { vec![dump_rel(0, self.p.r0.iter().map(Row::render).collect()), dump_rel(1, self.p.r1.iter().map(Row::render).collect()), dump_rel(2, self.p.r2.iter().map(Row::render).collect()), dump_rel(3, self.p.r3.iter().map(Row::render).collect())].join(" | ") }
      fn iters(&self) -> String { format!("iters {}", self.p.scc_iters.iter().map(|x| x.to_string()).collect::<Vec<_>>().join(" ")) }
   }
}

fn main() {
   common::main_loop(&[("g3x", g3x::make as common::Factory), ("g7x", g7x::make as common::Factory), ("g11x", g11x::make as common::Factory), ("n1x", n1x::make as common::Factory), ("c1x", c1x::make as common::Factory)]);
}
