#[path = "common.rs"]
mod common;
#[allow(unused, non_snake_case, clippy::all)]
pub mod q1 {
   use ascent::*;
   use ascent::aggregators::*;
   use ascent::lattice::{Dual, set::Set};
   use crate::common::*;
   ascent_par! {
      pub struct Prog;
      relation r0(i64, i64);
      relation r1(i64, i64);
      relation r2(i64);
      relation r3(i64, i64);
      relation r4(i64, i64);
      r2(((*v0) + 1)) <-- r1(v0, v1) if ((*v0) != 6) let v2 = ((*v1) + 1), if ((*v0) < 6);
      r3(0, v0) <-- let v0 = 0, r1(0, v0) if (v0 <= 4) let v1 = (v0 + 1), if (v0 <= 6);
      r4((v0 + 1), 0) <-- if let Some(v0) = None::<i64>, r2(v0) if (v0 <= 1), r3(v0, v1), if ((*v1) != 1), if (v0 < 6);
      r4(v0, v1) <-- let v9 = 0, r0(v0, v1), r0(v1, v9);
      r4(v0, v0) <-- for v0 in [2, 2, 4], r0(v0, v0);
      r3(v3, ((*v0) + 1)) <-- r0(v0, v1), r0(v2, v3), r2(v3), if ((*v0) < 6);
      r2(0) <-- let v0 = 0, r1(v0, v1), r4(0, v0), r4(v2, v3) if (v0 != 5) let v4 = (v0 + 1);
      r2(v0) <-- for v0 in [0, 2];
   }
   pub struct Inst { p: Prog, pool: Option<ascent::rayon::ThreadPool> }
   pub fn make(pool: Option<usize>) -> Box<dyn Driver> {
      let pool = pool.map(|n| ascent::rayon::ThreadPoolBuilder::new().num_threads(n).build().unwrap());
      let p = match &pool { Some(pl) => pl.install(|| Default::default()), None => Default::default() };
      Box::new(Inst { p, pool })
   }
   impl Driver for Inst {
      fn load(&mut self, rel: usize, rows: &[Sexp], append: bool) -> Option<()> {
         match rel {
         0 => { let v: Vec<(i64,i64,)> = parse_rows(rows)?; if !append { self.p.r0 = Default::default(); } for x in v { self.p.r0.push(x); } },
         1 => { let v: Vec<(i64,i64,)> = parse_rows(rows)?; if !append { self.p.r1 = Default::default(); } for x in v { self.p.r1.push(x); } },
         2 => { let v: Vec<(i64,)> = parse_rows(rows)?; if !append { self.p.r2 = Default::default(); } for x in v { self.p.r2.push(x); } },
         3 => { let v: Vec<(i64,i64,)> = parse_rows(rows)?; if !append { self.p.r3 = Default::default(); } for x in v { self.p.r3.push(x); } },
         4 => { let v: Vec<(i64,i64,)> = parse_rows(rows)?; if !append { self.p.r4 = Default::default(); } for x in v { self.p.r4.push(x); } },
            _ => return None,
         }
         Some(())
      }
      fn run(&mut self) { match &self.pool { Some(pl) => { let p = &mut self.p; pl.install(|| p.run()) }, None => self.p.run() } }
      fn run_here(&mut self) { self.p.run() }
      fn run_timeout(&mut self, k: usize) -> Option<bool> { let _ = k; None }
      fn dump(&self) -> String { vec![dump_rel(0, self.p.r0.iter().map(|x| x.render()).collect()), dump_rel(1, self.p.r1.iter().map(|x| x.render()).collect()), dump_rel(2, self.p.r2.iter().map(|x| x.render()).collect()), dump_rel(3, self.p.r3.iter().map(|x| x.render()).collect()), dump_rel(4, self.p.r4.iter().map(|x| x.render()).collect())].join(" | ") }
      fn iters(&self) -> String { format!("iters {}", self.p.scc_iters.iter().map(|x| x.to_string()).collect::<Vec<_>>().join(" ")) }
   }
}

#[allow(unused, non_snake_case, clippy::all)]
pub mod q5 {
   use ascent::*;
   use ascent::aggregators::*;
   use ascent::lattice::{Dual, set::Set};
   use crate::common::*;
   ascent_par! {
      pub struct Prog;
      relation r0(i64, i64);
      relation r1(i64, i64);
      relation r2(i64);
      relation r3(i64, i64);
      r2(v0) <-- r0(v0, v1);
      r2(2) <-- r2(v0) if ((*v0) != 1), r2(v1) if ((*v1) < 6) let v2 = ((*v1) + 0);
      r1(v0, v1) <-- let v9 = 3, r1(v0, v1), r3(v1, v9);
      r0(v1, v0) <-- r0(v0, 1), r0(v1, ((*v0) + 0));
      r1((v0 + 1), v0) <-- if let Some(v0) = Some(2), r1(v0, 1), r1(v0, 1), if (v0 < 6), if (v0 <= 6);
   }
   pub struct Inst { p: Prog, pool: Option<ascent::rayon::ThreadPool> }
   pub fn make(pool: Option<usize>) -> Box<dyn Driver> {
      let pool = pool.map(|n| ascent::rayon::ThreadPoolBuilder::new().num_threads(n).build().unwrap());
      let p = match &pool { Some(pl) => pl.install(|| Default::default()), None => Default::default() };
      Box::new(Inst { p, pool })
   }
   impl Driver for Inst {
      fn load(&mut self, rel: usize, rows: &[Sexp], append: bool) -> Option<()> {
         match rel {
         0 => { let v: Vec<(i64,i64,)> = parse_rows(rows)?; if !append { self.p.r0 = Default::default(); } for x in v { self.p.r0.push(x); } },
         1 => { let v: Vec<(i64,i64,)> = parse_rows(rows)?; if !append { self.p.r1 = Default::default(); } for x in v { self.p.r1.push(x); } },
         2 => { let v: Vec<(i64,)> = parse_rows(rows)?; if !append { self.p.r2 = Default::default(); } for x in v { self.p.r2.push(x); } },
         3 => { let v: Vec<(i64,i64,)> = parse_rows(rows)?; if !append { self.p.r3 = Default::default(); } for x in v { self.p.r3.push(x); } },
            _ => return None,
         }
         Some(())
      }
      fn run(&mut self) { match &self.pool { Some(pl) => { let p = &mut self.p; pl.install(|| p.run()) }, None => self.p.run() } }
      fn run_here(&mut self) { self.p.run() }
      fn run_timeout(&mut self, k: usize) -> Option<bool> { let _ = k; None }
      fn dump(&self) -> String { vec![dump_rel(0, self.p.r0.iter().map(|x| x.render()).collect()), dump_rel(1, self.p.r1.iter().map(|x| x.render()).collect()), dump_rel(2, self.p.r2.iter().map(|x| x.render()).collect()), dump_rel(3, self.p.r3.iter().map(|x| x.render()).collect())].join(" | ") }
      fn iters(&self) -> String { format!("iters {}", self.p.scc_iters.iter().map(|x| x.to_string()).collect::<Vec<_>>().join(" ")) }
   }
}

#[allow(unused, non_snake_case, clippy::all)]
pub mod q9 {
   use ascent::*;
   use ascent::aggregators::*;
   use ascent::lattice::{Dual, set::Set};
   use crate::common::*;
   ascent_par! {
      pub struct Prog;
      relation r0(i64, i64);
      relation r1(i64, i64);
      relation r2(i64, i64, i64);
      r1(v3, v1) <-- r0(v0, v1) if ((*v1) <= 6) let v2 = ((*v0) + 0), let v3 = 4, r2((v2 + 1), v2, v4), if (v3 <= 6);
      r2(v1, ((*v3) + 1), v4) <-- for v0 in [3], r1(v1, v2), r2(v0, v3, v4) if ((*v1) < 2), if ((*v3) < 6);
      r1(v0, v2) <-- r1(v0, v1), r0(v1, v2), r1(v2, v3);
      r1(v0, v1) <-- r0(v0, v1) if ((*v0) < 5), r0(v1, v2) if ((*v2) != (*v1));
      r2(((*v3) + 1), v1, v0) <-- r0(v0, v1), r1(v2, v3), if ((*v3) < 6);
      r1(v5, v2) <-- if let Some(v0) = Some(2), r1(v1, v2), r2(v1, v0, v3), r1(v4, v0), for v5 in [3];
      r2(v0, v1, v1) <-- r0(2, 0), r0(v0, v1);
   }
   pub struct Inst { p: Prog, pool: Option<ascent::rayon::ThreadPool> }
   pub fn make(pool: Option<usize>) -> Box<dyn Driver> {
      let pool = pool.map(|n| ascent::rayon::ThreadPoolBuilder::new().num_threads(n).build().unwrap());
      let p = match &pool { Some(pl) => pl.install(|| Default::default()), None => Default::default() };
      Box::new(Inst { p, pool })
   }
   impl Driver for Inst {
      fn load(&mut self, rel: usize, rows: &[Sexp], append: bool) -> Option<()> {
         match rel {
         0 => { let v: Vec<(i64,i64,)> = parse_rows(rows)?; if !append { self.p.r0 = Default::default(); } for x in v { self.p.r0.push(x); } },
         1 => { let v: Vec<(i64,i64,)> = parse_rows(rows)?; if !append { self.p.r1 = Default::default(); } for x in v { self.p.r1.push(x); } },
         2 => { let v: Vec<(i64,i64,i64,)> = parse_rows(rows)?; if !append { self.p.r2 = Default::default(); } for x in v { self.p.r2.push(x); } },
            _ => return None,
         }
         Some(())
      }
      fn run(&mut self) { match &self.pool { Some(pl) => { let p = &mut self.p; pl.install(|| p.run()) }, None => self.p.run() } }
      fn run_here(&mut self) { self.p.run() }
      fn run_timeout(&mut self, k: usize) -> Option<bool> { let _ = k; None }
      fn dump(&self) -> String { vec![dump_rel(0, self.p.r0.iter().map(|x| x.render()).collect()), dump_rel(1, self.p.r1.iter().map(|x| x.render()).collect()), dump_rel(2, self.p.r2.iter().map(|x| x.render()).collect())].join(" | ") }
      fn iters(&self) -> String { format!("iters {}", self.p.scc_iters.iter().map(|x| x.to_string()).collect::<Vec<_>>().join(" ")) }
   }
}

#[allow(unused, non_snake_case, clippy::all)]
pub mod q13 {
   use ascent::*;
   use ascent::aggregators::*;
   use ascent::lattice::{Dual, set::Set};
   use crate::common::*;
   ascent_par! {
      pub struct Prog;
      relation r0(i64, i64);
      relation r1(i64, i64);
      relation r2(i64, i64);
      relation r3(i64, i64);
      relation r4(i64, i64);
      relation r5(i64, i64);
      r4(v0, v2) <-- r3(v0, v1), r0(v1, v2), r0(v2, v3);
      r5(v0, v1) <-- r2(1, 3), r5(v0, v1) if ((*v0) != 5);
      r4((v0 + 1), v0) <-- if let Some(v0) = Some(1), r2(v1, v0), r1(v1, v1) if (v0 < 1), r1(v1, v2), if (v0 < 6), if (v0 <= 6);
      r2(v1, v2) <-- r4(2, v0), r2(v1, v2), if ((*v0) <= 5);
      r3(v4, v1) <-- for v0 in 0..4, r5(v0, v1), r1(v2, v3), let v4 = (*v2), if (v4 <= 6);
   }
   pub struct Inst { p: Prog, pool: Option<ascent::rayon::ThreadPool> }
   pub fn make(pool: Option<usize>) -> Box<dyn Driver> {
      let pool = pool.map(|n| ascent::rayon::ThreadPoolBuilder::new().num_threads(n).build().unwrap());
      let p = match &pool { Some(pl) => pl.install(|| Default::default()), None => Default::default() };
      Box::new(Inst { p, pool })
   }
   impl Driver for Inst {
      fn load(&mut self, rel: usize, rows: &[Sexp], append: bool) -> Option<()> {
         match rel {
         0 => { let v: Vec<(i64,i64,)> = parse_rows(rows)?; if !append { self.p.r0 = Default::default(); } for x in v { self.p.r0.push(x); } },
         1 => { let v: Vec<(i64,i64,)> = parse_rows(rows)?; if !append { self.p.r1 = Default::default(); } for x in v { self.p.r1.push(x); } },
         2 => { let v: Vec<(i64,i64,)> = parse_rows(rows)?; if !append { self.p.r2 = Default::default(); } for x in v { self.p.r2.push(x); } },
         3 => { let v: Vec<(i64,i64,)> = parse_rows(rows)?; if !append { self.p.r3 = Default::default(); } for x in v { self.p.r3.push(x); } },
         4 => { let v: Vec<(i64,i64,)> = parse_rows(rows)?; if !append { self.p.r4 = Default::default(); } for x in v { self.p.r4.push(x); } },
         5 => { let v: Vec<(i64,i64,)> = parse_rows(rows)?; if !append { self.p.r5 = Default::default(); } for x in v { self.p.r5.push(x); } },
            _ => return None,
         }
         Some(())
      }
      fn run(&mut self) { match &self.pool { Some(pl) => { let p = &mut self.p; pl.install(|| p.run()) }, None => self.p.run() } }
      fn run_here(&mut self) { self.p.run() }
      fn run_timeout(&mut self, k: usize) -> Option<bool> { let _ = k; None }
      fn dump(&self) -> String { vec![dump_rel(0, self.p.r0.iter().map(|x| x.render()).collect()), dump_rel(1, self.p.r1.iter().map(|x| x.render()).collect()), dump_rel(2, self.p.r2.iter().map(|x| x.render()).collect()), dump_rel(3, self.p.r3.iter().map(|x| x.render()).collect()), dump_rel(4, self.p.r4.iter().map(|x| x.render()).collect()), dump_rel(5, self.p.r5.iter().map(|x| x.render()).collect())].join(" | ") }
      fn iters(&self) -> String { format!("iters {}", self.p.scc_iters.iter().map(|x| x.to_string()).collect::<Vec<_>>().join(" ")) }
   }
}

fn main() {
   common::main_loop(&[("q1", q1::make as common::Factory), ("q5", q5::make as common::Factory), ("q9", q9::make as common::Factory), ("q13", q13::make as common::Factory)]);
}
