#[path = "common.rs"]
mod common;
#[allow(unused, non_snake_case, clippy::all)]
pub mod p4 {
   use ascent::*;
   use ascent::aggregators::*;
   use ascent::lattice::{Dual, set::Set};
   use crate::common::*;
   ascent! {
      pub struct Prog;
      relation r0(i64, i64);
      relation r1(i64, i64, i64);
      relation r2(i64);
      relation r3(i64, i64);
      relation r4(i64, i64);
      r3(v0, v1) <-- r0(v0, v1), r4(((*v0) + 1), v2);
      r3(v0, v1) <-- r3(v0, v1), r3(v0, v0), r3(v1, v2);
      r1(v0, ((*v0) + 1), v0) <-- r4(v0, 0), if ((*v0) < 6);
      r3(v1, v1) <-- r1(v0, v1, v2), r3(v2, v3), if ((*v2) <= 6), r3(((*v0) + 0), v4), if ((*v1) < 5);
      r2(v0) <-- r4(v0, 1) if ((*v0) < 2) let v1 = ((*v0) + 1), r0(v2, ((*v0) + 1)) if ((*v2) < 5), for v3 in [2, 1, 2];
      r2(v2) <-- r3(v0, v1), r3(v0, v2), r3(((*v2) + 0), v3) if ((*v3) <= 4);
   }
   pub struct Inst { p: Prog, pool: Option<ascent::rayon::ThreadPool> }
   pub fn make(pool: Option<usize>) -> Box<dyn Driver> {
      let pool = pool.map(|n| ascent::rayon::ThreadPoolBuilder::new().num_threads(n).build().unwrap());
      let p = match &pool { Some(pl) => pl.install(|| Default::default()), None => Default::default() };
      Box::new(Inst { p, pool })
   }
   impl Driver for Inst {
      fn load(&mut self, rel: usize, rows: &[Sexp], append: bool) -> Option<()> {
         match rel {
         0 => { let v: Vec<(i64,i64,)> = parse_rows(rows)?; if append { self.p.r0.extend(v) } else { self.p.r0 = v } },
         1 => { let v: Vec<(i64,i64,i64,)> = parse_rows(rows)?; if append { self.p.r1.extend(v) } else { self.p.r1 = v } },
         2 => { let v: Vec<(i64,)> = parse_rows(rows)?; if append { self.p.r2.extend(v) } else { self.p.r2 = v } },
         3 => { let v: Vec<(i64,i64,)> = parse_rows(rows)?; if append { self.p.r3.extend(v) } else { self.p.r3 = v } },
         4 => { let v: Vec<(i64,i64,)> = parse_rows(rows)?; if append { self.p.r4.extend(v) } else { self.p.r4 = v } },
            _ => return None,
         }
         Some(())
      }
      fn run(&mut self) { match &self.pool { Some(pl) => { let p = &mut self.p; pl.install(|| p.run()) }, None => self.p.run() } }
      fn run_here(&mut self) { self.p.run() }
      fn run_timeout(&mut self, k: usize) -> Option<bool> { let _ = k; None }
      fn dump(&self) -> String { vec![dump_rel(0, self.p.r0.iter().map(Row::render).collect()), dump_rel(1, self.p.r1.iter().map(Row::render).collect()), dump_rel(2, self.p.r2.iter().map(Row::render).collect()), dump_rel(3, self.p.r3.iter().map(Row::render).collect()), dump_rel(4, self.p.r4.iter().map(Row::render).collect())].join(" | ") }
      fn iters(&self) -> String { format!("iters {}", self.p.scc_iters.iter().map(|x| x.to_string()).collect::<Vec<_>>().join(" ")) }
   }
}

#[allow(unused, non_snake_case, clippy::all)]
pub mod p12 {
   use ascent::*;
   use ascent::aggregators::*;
   use ascent::lattice::{Dual, set::Set};
   use crate::common::*;
   ascent! {
      pub struct Prog;
      relation r0(i64, i64);
      relation r1(i64, i64);
      relation r2(i64, i64);
      r2(v0, (v0 + 1)) <-- for v0 in [1, 1, 2], r1(1, v1), if (v0 < 6);
      r2(v0, ((*v1) + 1)) <-- if let Some(v0) = None::<i64>, r2(v0, (v0 + 0)), r2(v1, 0), if (v0 <= 6), if ((*v1) < 6);
      r2(v0, v2) <-- r1(v0, v1), r0(v1, v2), r1(v2, v3);
      r2((v0 + 1), v0) <-- let v0 = 1, if (v0 < 6), if (v0 <= 6);
      r2(3, 0);
   }
   pub struct Inst { p: Prog, pool: Option<ascent::rayon::ThreadPool> }
   pub fn make(pool: Option<usize>) -> Box<dyn Driver> {
      let pool = pool.map(|n| ascent::rayon::ThreadPoolBuilder::new().num_threads(n).build().unwrap());
      let p = match &pool { Some(pl) => pl.install(|| Default::default()), None => Default::default() };
      Box::new(Inst { p, pool })
   }
   impl Driver for Inst {
      fn load(&mut self, rel: usize, rows: &[Sexp], append: bool) -> Option<()> {
         match rel {
         0 => { let v: Vec<(i64,i64,)> = parse_rows(rows)?; if append { self.p.r0.extend(v) } else { self.p.r0 = v } },
         1 => { let v: Vec<(i64,i64,)> = parse_rows(rows)?; if append { self.p.r1.extend(v) } else { self.p.r1 = v } },
         2 => { let v: Vec<(i64,i64,)> = parse_rows(rows)?; if append { self.p.r2.extend(v) } else { self.p.r2 = v } },
            _ => return None,
         }
         Some(())
      }
      fn run(&mut self) { match &self.pool { Some(pl) => { let p = &mut self.p; pl.install(|| p.run()) }, None => self.p.run() } }
      fn run_here(&mut self) { self.p.run() }
      fn run_timeout(&mut self, k: usize) -> Option<bool> { let _ = k; None }
      fn dump(&self) -> String { vec![dump_rel(0, self.p.r0.iter().map(Row::render).collect()), dump_rel(1, self.p.r1.iter().map(Row::render).collect()), dump_rel(2, self.p.r2.iter().map(Row::render).collect())].join(" | ") }
      fn iters(&self) -> String { format!("iters {}", self.p.scc_iters.iter().map(|x| x.to_string()).collect::<Vec<_>>().join(" ")) }
   }
}

#[allow(unused, non_snake_case, clippy::all)]
pub mod p20 {
   use ascent::*;
   use ascent::aggregators::*;
   use ascent::lattice::{Dual, set::Set};
   use crate::common::*;
   ascent! {
      pub struct Prog;
      relation r0(i64, i64);
      relation r1(i64);
      relation r2(i64);
      relation r3(i64, i64);
      relation r4(i64, i64);
      r2(v0) <-- r1(v0);
      r2(1) <-- if let Some(v0) = Some(1), r2(v1) if ((*v1) < 5), r1(v1);
      r3(v0, v1) <-- r4(v0, v1), r0(v1, v1);
      r4(v0, v0) <-- let v0 = 3, r1(1) if (v0 <= 5), r2(v1), if (v0 <= 6);
      r0(v0, v0) <-- r3(v0, v1);
      r2(v0) <-- r3(1, v0);
   }
   pub struct Inst { p: Prog, pool: Option<ascent::rayon::ThreadPool> }
   pub fn make(pool: Option<usize>) -> Box<dyn Driver> {
      let pool = pool.map(|n| ascent::rayon::ThreadPoolBuilder::new().num_threads(n).build().unwrap());
      let p = match &pool { Some(pl) => pl.install(|| Default::default()), None => Default::default() };
      Box::new(Inst { p, pool })
   }
   impl Driver for Inst {
      fn load(&mut self, rel: usize, rows: &[Sexp], append: bool) -> Option<()> {
         match rel {
         0 => { let v: Vec<(i64,i64,)> = parse_rows(rows)?; if append { self.p.r0.extend(v) } else { self.p.r0 = v } },
         1 => { let v: Vec<(i64,)> = parse_rows(rows)?; if append { self.p.r1.extend(v) } else { self.p.r1 = v } },
         2 => { let v: Vec<(i64,)> = parse_rows(rows)?; if append { self.p.r2.extend(v) } else { self.p.r2 = v } },
         3 => { let v: Vec<(i64,i64,)> = parse_rows(rows)?; if append { self.p.r3.extend(v) } else { self.p.r3 = v } },
         4 => { let v: Vec<(i64,i64,)> = parse_rows(rows)?; if append { self.p.r4.extend(v) } else { self.p.r4 = v } },
            _ => return None,
         }
         Some(())
      }
      fn run(&mut self) { match &self.pool { Some(pl) => { let p = &mut self.p; pl.install(|| p.run()) }, None => self.p.run() } }
      fn run_here(&mut self) { self.p.run() }
      fn run_timeout(&mut self, k: usize) -> Option<bool> { let _ = k; None }
      fn dump(&self) -> String { vec![dump_rel(0, self.p.r0.iter().map(Row::render).collect()), dump_rel(1, self.p.r1.iter().map(Row::render).collect()), dump_rel(2, self.p.r2.iter().map(Row::render).collect()), dump_rel(3, self.p.r3.iter().map(Row::render).collect()), dump_rel(4, self.p.r4.iter().map(Row::render).collect())].join(" | ") }
      fn iters(&self) -> String { format!("iters {}", self.p.scc_iters.iter().map(|x| x.to_string()).collect::<Vec<_>>().join(" ")) }
   }
}

#[allow(unused, non_snake_case, clippy::all)]
pub mod p28 {
   use ascent::*;
   use ascent::aggregators::*;
   use ascent::lattice::{Dual, set::Set};
   use crate::common::*;
   ascent! {
      pub struct Prog;
      relation r0(i64, i64);
      relation r1(i64, i64);
      relation r2(i64);
      relation r3(i64);
      relation r4(i64);
      relation r5(i64, i64);
      r1(v1, 3) <-- r0(v0, v1);
      r2(v1) <-- if let Some(v0) = Some(3), r0(v1, (v0 + 0));
      r3(v2) <-- if let Some(v0) = Some(3), r1(v1, v2), r2(v0);
      r3(v0) <-- if let Some(v9) = Some(3), r5(v0, v1), r5(v1, v9) let v8 = ((*v0) + 1);
      r0(v0, v0) <-- r0(3, v0), r4(v0), r0(v1, v0), if let Some(v2) = Some(std::cmp::max((*v0), 1));
   }
   pub struct Inst { p: Prog, pool: Option<ascent::rayon::ThreadPool> }
   pub fn make(pool: Option<usize>) -> Box<dyn Driver> {
      let pool = pool.map(|n| ascent::rayon::ThreadPoolBuilder::new().num_threads(n).build().unwrap());
      let p = match &pool { Some(pl) => pl.install(|| Default::default()), None => Default::default() };
      Box::new(Inst { p, pool })
   }
   impl Driver for Inst {
      fn load(&mut self, rel: usize, rows: &[Sexp], append: bool) -> Option<()> {
         match rel {
         0 => { let v: Vec<(i64,i64,)> = parse_rows(rows)?; if append { self.p.r0.extend(v) } else { self.p.r0 = v } },
         1 => { let v: Vec<(i64,i64,)> = parse_rows(rows)?; if append { self.p.r1.extend(v) } else { self.p.r1 = v } },
         2 => { let v: Vec<(i64,)> = parse_rows(rows)?; if append { self.p.r2.extend(v) } else { self.p.r2 = v } },
         3 => { let v: Vec<(i64,)> = parse_rows(rows)?; if append { self.p.r3.extend(v) } else { self.p.r3 = v } },
         4 => { let v: Vec<(i64,)> = parse_rows(rows)?; if append { self.p.r4.extend(v) } else { self.p.r4 = v } },
         5 => { let v: Vec<(i64,i64,)> = parse_rows(rows)?; if append { self.p.r5.extend(v) } else { self.p.r5 = v } },
            _ => return None,
         }
         Some(())
      }
      fn run(&mut self) { match &self.pool { Some(pl) => { let p = &mut self.p; pl.install(|| p.run()) }, None => self.p.run() } }
      fn run_here(&mut self) { self.p.run() }
      fn run_timeout(&mut self, k: usize) -> Option<bool> { let _ = k; None }
      fn dump(&self) -> String { vec![dump_rel(0, self.p.r0.iter().map(Row::render).collect()), dump_rel(1, self.p.r1.iter().map(Row::render).collect()), dump_rel(2, self.p.r2.iter().map(Row::render).collect()), dump_rel(3, self.p.r3.iter().map(Row::render).collect()), dump_rel(4, self.p.r4.iter().map(Row::render).collect()), dump_rel(5, self.p.r5.iter().map(Row::render).collect())].join(" | ") }
      fn iters(&self) -> String { format!("iters {}", self.p.scc_iters.iter().map(|x| x.to_string()).collect::<Vec<_>>().join(" ")) }
   }
}

#[allow(unused, non_snake_case, clippy::all)]
pub mod p36 {
   use ascent::*;
   use ascent::aggregators::*;
   use ascent::lattice::{Dual, set::Set};
   use crate::common::*;
   ascent! {
      pub struct Prog;
      relation r0(i64, i64, i64);
      relation r1(i64, i64, i64);
      relation r2(i64, i64);
      relation r3(i64, i64);
      r1(v2, v2, v1) <-- r0(v0, v1, 1), for v2 in [0, 1];
      r2(v1, v1) <-- if let Some(v0) = Some(1), r0(v0, v0, v1);
      r3(v2, ((*v0) + 1)) <-- r1(v0, v1, v2), r2(((*v2) + 1), v0) if ((*v2) <= 1), if ((*v0) < 6);
      r1(v0, v1, v9) <-- let v9 = 0, r3(v0, v1), r2(v1, v9);
      r2(v0, v1) <-- r3(v0, v1);
      r3(v0, 1) <-- if let Some(v0) = Some(4), if (v0 <= 6);
      r3(v1, v3) <-- if let Some(v0) = Some(3), r3(v1, v2) if ((*v2) < 2) let v3 = ((*v2) + 1), r0(v4, v5, v6), r2(v5, v3), if (v3 <= 6);
   }
   pub struct Inst { p: Prog, pool: Option<ascent::rayon::ThreadPool> }
   pub fn make(pool: Option<usize>) -> Box<dyn Driver> {
      let pool = pool.map(|n| ascent::rayon::ThreadPoolBuilder::new().num_threads(n).build().unwrap());
      let p = match &pool { Some(pl) => pl.install(|| Default::default()), None => Default::default() };
      Box::new(Inst { p, pool })
   }
   impl Driver for Inst {
      fn load(&mut self, rel: usize, rows: &[Sexp], append: bool) -> Option<()> {
         match rel {
         0 => { let v: Vec<(i64,i64,i64,)> = parse_rows(rows)?; if append { self.p.r0.extend(v) } else { self.p.r0 = v } },
         1 => { let v: Vec<(i64,i64,i64,)> = parse_rows(rows)?; if append { self.p.r1.extend(v) } else { self.p.r1 = v } },
         2 => { let v: Vec<(i64,i64,)> = parse_rows(rows)?; if append { self.p.r2.extend(v) } else { self.p.r2 = v } },
         3 => { let v: Vec<(i64,i64,)> = parse_rows(rows)?; if append { self.p.r3.extend(v) } else { self.p.r3 = v } },
            _ => return None,
         }
         Some(())
      }
      fn run(&mut self) { match &self.pool { Some(pl) => { let p = &mut self.p; pl.install(|| p.run()) }, None => self.p.run() } }
      fn run_here(&mut self) { self.p.run() }
      fn run_timeout(&mut self, k: usize) -> Option<bool> { let _ = k; None }
      fn dump(&self) -> String { vec![dump_rel(0, self.p.r0.iter().map(Row::render).collect()), dump_rel(1, self.p.r1.iter().map(Row::render).collect()), dump_rel(2, self.p.r2.iter().map(Row::render).collect()), dump_rel(3, self.p.r3.iter().map(Row::render).collect())].join(" | ") }
      fn iters(&self) -> String { format!("iters {}", self.p.scc_iters.iter().map(|x| x.to_string()).collect::<Vec<_>>().join(" ")) }
   }
}

#[allow(unused, non_snake_case, clippy::all)]
pub mod p44 {
   use ascent::*;
   use ascent::aggregators::*;
   use ascent::lattice::{Dual, set::Set};
   use crate::common::*;
   ascent! {
      pub struct Prog;
      relation r0(i64, i64);
      relation r1(i64, i64);
      relation r2(i64);
      relation r3(i64, i64);
      relation r4(i64, i64);
      r2(1) <-- r0(2, 3);
      r2(v0) <-- r2(v0), r2(v1);
      r3(v0, v1) <-- let v9 = 3, r3(v0, v1), r1(v1, v9);
      r4(v3, v2) <-- r3(v0, v1), if ((*v0) == 4), r1(v2, v1), for v3 in 2..4, r2(v4);
      r4(v2, ((*v1) + 1)) <-- for v0 in 0..1, r2(v1), r2(v2), if ((*v1) < 6);
      r2(v0) <-- r0(v0, 0), let v1 = (*v0);
   }
   pub struct Inst { p: Prog, pool: Option<ascent::rayon::ThreadPool> }
   pub fn make(pool: Option<usize>) -> Box<dyn Driver> {
      let pool = pool.map(|n| ascent::rayon::ThreadPoolBuilder::new().num_threads(n).build().unwrap());
      let p = match &pool { Some(pl) => pl.install(|| Default::default()), None => Default::default() };
      Box::new(Inst { p, pool })
   }
   impl Driver for Inst {
      fn load(&mut self, rel: usize, rows: &[Sexp], append: bool) -> Option<()> {
         match rel {
         0 => { let v: Vec<(i64,i64,)> = parse_rows(rows)?; if append { self.p.r0.extend(v) } else { self.p.r0 = v } },
         1 => { let v: Vec<(i64,i64,)> = parse_rows(rows)?; if append { self.p.r1.extend(v) } else { self.p.r1 = v } },
         2 => { let v: Vec<(i64,)> = parse_rows(rows)?; if append { self.p.r2.extend(v) } else { self.p.r2 = v } },
         3 => { let v: Vec<(i64,i64,)> = parse_rows(rows)?; if append { self.p.r3.extend(v) } else { self.p.r3 = v } },
         4 => { let v: Vec<(i64,i64,)> = parse_rows(rows)?; if append { self.p.r4.extend(v) } else { self.p.r4 = v } },
            _ => return None,
         }
         Some(())
      }
      fn run(&mut self) { match &self.pool { Some(pl) => { let p = &mut self.p; pl.install(|| p.run()) }, None => self.p.run() } }
      fn run_here(&mut self) { self.p.run() }
      fn run_timeout(&mut self, k: usize) -> Option<bool> { let _ = k; None }
      fn dump(&self) -> String { vec![dump_rel(0, self.p.r0.iter().map(Row::render).collect()), dump_rel(1, self.p.r1.iter().map(Row::render).collect()), dump_rel(2, self.p.r2.iter().map(Row::render).collect()), dump_rel(3, self.p.r3.iter().map(Row::render).collect()), dump_rel(4, self.p.r4.iter().map(Row::render).collect())].join(" | ") }
      fn iters(&self) -> String { format!("iters {}", self.p.scc_iters.iter().map(|x| x.to_string()).collect::<Vec<_>>().join(" ")) }
   }
}

#[allow(unused, non_snake_case, clippy::all)]
pub mod p52 {
   use ascent::*;
   use ascent::aggregators::*;
   use ascent::lattice::{Dual, set::Set};
   use crate::common::*;
   ascent! {
      pub struct Prog;
      relation r0(i64, i64);
      relation r1(i64, i64, i64);
      relation r2(i64, i64, i64);
      r2(v0, v1, v9) <-- let v9 = 1, r0(v0, v1), r0(v1, v9);
      r2(v0, v1, v9) <-- for v9 in 0..2, r0(v0, v1), r0(v9, v1);
      r1(((*v1) + 1), v4, v3) <-- r1(v0, v1, v2) if ((*v2) <= 4) let v3 = ((*v2) + 0), for v4 in 2..3, if ((*v1) < 6), if (v3 <= 6);
   }
   pub struct Inst { p: Prog, pool: Option<ascent::rayon::ThreadPool> }
   pub fn make(pool: Option<usize>) -> Box<dyn Driver> {
      let pool = pool.map(|n| ascent::rayon::ThreadPoolBuilder::new().num_threads(n).build().unwrap());
      let p = match &pool { Some(pl) => pl.install(|| Default::default()), None => Default::default() };
      Box::new(Inst { p, pool })
   }
   impl Driver for Inst {
      fn load(&mut self, rel: usize, rows: &[Sexp], append: bool) -> Option<()> {
         match rel {
         0 => { let v: Vec<(i64,i64,)> = parse_rows(rows)?; if append { self.p.r0.extend(v) } else { self.p.r0 = v } },
         1 => { let v: Vec<(i64,i64,i64,)> = parse_rows(rows)?; if append { self.p.r1.extend(v) } else { self.p.r1 = v } },
         2 => { let v: Vec<(i64,i64,i64,)> = parse_rows(rows)?; if append { self.p.r2.extend(v) } else { self.p.r2 = v } },
            _ => return None,
         }
         Some(())
      }
      fn run(&mut self) { match &self.pool { Some(pl) => { let p = &mut self.p; pl.install(|| p.run()) }, None => self.p.run() } }
      fn run_here(&mut self) { self.p.run() }
      fn run_timeout(&mut self, k: usize) -> Option<bool> { let _ = k; None }
      fn dump(&self) -> String { vec![dump_rel(0, self.p.r0.iter().map(Row::render).collect()), dump_rel(1, self.p.r1.iter().map(Row::render).collect()), dump_rel(2, self.p.r2.iter().map(Row::render).collect())].join(" | ") }
      fn iters(&self) -> String { format!("iters {}", self.p.scc_iters.iter().map(|x| x.to_string()).collect::<Vec<_>>().join(" ")) }
   }
}

#[allow(unused, non_snake_case, clippy::all)]
pub mod p60 {
   use ascent::*;
   use ascent::aggregators::*;
   use ascent::lattice::{Dual, set::Set};
   use crate::common::*;
   ascent! {
      pub struct Prog;
      relation r0(i64, i64);
      relation r1(i64, i64);
      relation r2(i64, i64);
      relation r3(i64, i64);
      relation r4(i64, i64, i64);
      r4(v0, v1, v2) <-- r1(v0, v1), r0(v0, v0), r1(v1, v2);
      r4(((*v0) + 1), v0, v0) <-- r0(v0, 3), if ((*v0) < 6);
      r3(v0, ((*v1) + 1)) <-- r0(v0, v1), r4(v0, v0, 1), if ((*v1) < 6);
   }
   pub struct Inst { p: Prog, pool: Option<ascent::rayon::ThreadPool> }
   pub fn make(pool: Option<usize>) -> Box<dyn Driver> {
      let pool = pool.map(|n| ascent::rayon::ThreadPoolBuilder::new().num_threads(n).build().unwrap());
      let p = match &pool { Some(pl) => pl.install(|| Default::default()), None => Default::default() };
      Box::new(Inst { p, pool })
   }
   impl Driver for Inst {
      fn load(&mut self, rel: usize, rows: &[Sexp], append: bool) -> Option<()> {
         match rel {
         0 => { let v: Vec<(i64,i64,)> = parse_rows(rows)?; if append { self.p.r0.extend(v) } else { self.p.r0 = v } },
         1 => { let v: Vec<(i64,i64,)> = parse_rows(rows)?; if append { self.p.r1.extend(v) } else { self.p.r1 = v } },
         2 => { let v: Vec<(i64,i64,)> = parse_rows(rows)?; if append { self.p.r2.extend(v) } else { self.p.r2 = v } },
         3 => { let v: Vec<(i64,i64,)> = parse_rows(rows)?; if append { self.p.r3.extend(v) } else { self.p.r3 = v } },
         4 => { let v: Vec<(i64,i64,i64,)> = parse_rows(rows)?; if append { self.p.r4.extend(v) } else { self.p.r4 = v } },
            _ => return None,
         }
         Some(())
      }
      fn run(&mut self) { match &self.pool { Some(pl) => { let p = &mut self.p; pl.install(|| p.run()) }, None => self.p.run() } }
      fn run_here(&mut self) { self.p.run() }
      fn run_timeout(&mut self, k: usize) -> Option<bool> { let _ = k; None }
      fn dump(&self) -> String { vec![dump_rel(0, self.p.r0.iter().map(Row::render).collect()), dump_rel(1, self.p.r1.iter().map(Row::render).collect()), dump_rel(2, self.p.r2.iter().map(Row::render).collect()), dump_rel(3, self.p.r3.iter().map(Row::render).collect()), dump_rel(4, self.p.r4.iter().map(Row::render).collect())].join(" | ") }
      fn iters(&self) -> String { format!("iters {}", self.p.scc_iters.iter().map(|x| x.to_string()).collect::<Vec<_>>().join(" ")) }
   }
}

#[allow(unused, non_snake_case, clippy::all)]
pub mod p68 {
   use ascent::*;
   use ascent::aggregators::*;
   use ascent::lattice::{Dual, set::Set};
   use crate::common::*;
   ascent! {
      pub struct Prog;
      relation r0(i64);
      relation r1(i64, i64);
      relation r2(i64);
      relation r3(i64, i64);
      r2(v0) <-- r1(v0, v1), r3(v1, v1);
      r2(v0) <-- r2(v0) if ((*v0) < 5), if ((*v0) == 2), r2(v0);
      r2(v0) <-- if let Some(v0) = Some(3), r1(v0, v1), if (v0 <= 6);
      r2(((*v0) + 1)) <-- r0(v0), r0(v1), r1(v2, v3), if ((*v0) < 6);
      r3(3, 3);
   }
   pub struct Inst { p: Prog, pool: Option<ascent::rayon::ThreadPool> }
   pub fn make(pool: Option<usize>) -> Box<dyn Driver> {
      let pool = pool.map(|n| ascent::rayon::ThreadPoolBuilder::new().num_threads(n).build().unwrap());
      let p = match &pool { Some(pl) => pl.install(|| Default::default()), None => Default::default() };
      Box::new(Inst { p, pool })
   }
   impl Driver for Inst {
      fn load(&mut self, rel: usize, rows: &[Sexp], append: bool) -> Option<()> {
         match rel {
         0 => { let v: Vec<(i64,)> = parse_rows(rows)?; if append { self.p.r0.extend(v) } else { self.p.r0 = v } },
         1 => { let v: Vec<(i64,i64,)> = parse_rows(rows)?; if append { self.p.r1.extend(v) } else { self.p.r1 = v } },
         2 => { let v: Vec<(i64,)> = parse_rows(rows)?; if append { self.p.r2.extend(v) } else { self.p.r2 = v } },
         3 => { let v: Vec<(i64,i64,)> = parse_rows(rows)?; if append { self.p.r3.extend(v) } else { self.p.r3 = v } },
            _ => return None,
         }
         Some(())
      }
      fn run(&mut self) { match &self.pool { Some(pl) => { let p = &mut self.p; pl.install(|| p.run()) }, None => self.p.run() } }
      fn run_here(&mut self) { self.p.run() }
      fn run_timeout(&mut self, k: usize) -> Option<bool> { let _ = k; None }
      fn dump(&self) -> String { vec![dump_rel(0, self.p.r0.iter().map(Row::render).collect()), dump_rel(1, self.p.r1.iter().map(Row::render).collect()), dump_rel(2, self.p.r2.iter().map(Row::render).collect()), dump_rel(3, self.p.r3.iter().map(Row::render).collect())].join(" | ") }
      fn iters(&self) -> String { format!("iters {}", self.p.scc_iters.iter().map(|x| x.to_string()).collect::<Vec<_>>().join(" ")) }
   }
}

#[allow(unused, non_snake_case, clippy::all)]
pub mod p76 {
   use ascent::*;
   use ascent::aggregators::*;
   use ascent::lattice::{Dual, set::Set};
   use crate::common::*;
   ascent! {
      pub struct Prog;
      relation r0(i64, i64, i64);
      relation r1(i64, i64, i64);
      relation r2(i64, i64);
      relation r3(i64, i64);
      r2(v0, v1) <-- for v9 in 0..2, r2(v0, v1), r3(v9, v1);
      r3(v0, v1) <-- r3(v0, v1) if ((*v0) < 4), r2(v1, v2) if ((*v2) != (*v1));
      r2(((*v0) + 1), v1) <-- r3(v0, 2), r0(v1, v0, ((*v0) + 1)), if ((*v0) < 6);
      r3(1, v0) <-- if let Some(v0) = Some(2), r3(v1, v2), if (v0 <= 6);
   }
   pub struct Inst { p: Prog, pool: Option<ascent::rayon::ThreadPool> }
   pub fn make(pool: Option<usize>) -> Box<dyn Driver> {
      let pool = pool.map(|n| ascent::rayon::ThreadPoolBuilder::new().num_threads(n).build().unwrap());
      let p = match &pool { Some(pl) => pl.install(|| Default::default()), None => Default::default() };
      Box::new(Inst { p, pool })
   }
   impl Driver for Inst {
      fn load(&mut self, rel: usize, rows: &[Sexp], append: bool) -> Option<()> {
         match rel {
         0 => { let v: Vec<(i64,i64,i64,)> = parse_rows(rows)?; if append { self.p.r0.extend(v) } else { self.p.r0 = v } },
         1 => { let v: Vec<(i64,i64,i64,)> = parse_rows(rows)?; if append { self.p.r1.extend(v) } else { self.p.r1 = v } },
         2 => { let v: Vec<(i64,i64,)> = parse_rows(rows)?; if append { self.p.r2.extend(v) } else { self.p.r2 = v } },
         3 => { let v: Vec<(i64,i64,)> = parse_rows(rows)?; if append { self.p.r3.extend(v) } else { self.p.r3 = v } },
            _ => return None,
         }
         Some(())
      }
      fn run(&mut self) { match &self.pool { Some(pl) => { let p = &mut self.p; pl.install(|| p.run()) }, None => self.p.run() } }
      fn run_here(&mut self) { self.p.run() }
      fn run_timeout(&mut self, k: usize) -> Option<bool> { let _ = k; None }
      fn dump(&self) -> String { vec![dump_rel(0, self.p.r0.iter().map(Row::render).collect()), dump_rel(1, self.p.r1.iter().map(Row::render).collect()), dump_rel(2, self.p.r2.iter().map(Row::render).collect()), dump_rel(3, self.p.r3.iter().map(Row::render).collect())].join(" | ") }
      fn iters(&self) -> String { format!("iters {}", self.p.scc_iters.iter().map(|x| x.to_string()).collect::<Vec<_>>().join(" ")) }
   }
}

#[allow(unused, non_snake_case, clippy::all)]
pub mod p84 {
   use ascent::*;
   use ascent::aggregators::*;
   use ascent::lattice::{Dual, set::Set};
   use crate::common::*;
   ascent! {
      pub struct Prog;
      relation r0(i64, i64, i64);
      relation r1(i64, i64);
      relation r2(i64, i64);
      relation r3(i64, i64, i64);
      relation r4(i64, i64);
      relation r5(i64, i64);
      r3(v2, v0, v2) <-- let v0 = 2, r0(v1, v2, v0), if (v0 <= 6);
      r3(v5, v4, v6) <-- r3(v0, v1, v2) if ((*v0) < 2), r0(v3, 3, v4) if ((*v2) <= 2) let v5 = ((*v4) + 0), if let Some(v6) = Some((*v1)), if (v5 <= 6), if (v6 <= 6);
      r2(v0, v1) <-- r5(v0, v1), r5(v0, v0), r5(v1, v2);
      r2(v0, v2) <-- r1(v0, v1), r2(v1, v2), r4(v2, v3);
      r4(v0, v0) <-- if let Some(v0) = Some(3), r2(v0, 3) if (v0 <= 3), if (v0 <= 6);
   }
   pub struct Inst { p: Prog, pool: Option<ascent::rayon::ThreadPool> }
   pub fn make(pool: Option<usize>) -> Box<dyn Driver> {
      let pool = pool.map(|n| ascent::rayon::ThreadPoolBuilder::new().num_threads(n).build().unwrap());
      let p = match &pool { Some(pl) => pl.install(|| Default::default()), None => Default::default() };
      Box::new(Inst { p, pool })
   }
   impl Driver for Inst {
      fn load(&mut self, rel: usize, rows: &[Sexp], append: bool) -> Option<()> {
         match rel {
         0 => { let v: Vec<(i64,i64,i64,)> = parse_rows(rows)?; if append { self.p.r0.extend(v) } else { self.p.r0 = v } },
         1 => { let v: Vec<(i64,i64,)> = parse_rows(rows)?; if append { self.p.r1.extend(v) } else { self.p.r1 = v } },
         2 => { let v: Vec<(i64,i64,)> = parse_rows(rows)?; if append { self.p.r2.extend(v) } else { self.p.r2 = v } },
         3 => { let v: Vec<(i64,i64,i64,)> = parse_rows(rows)?; if append { self.p.r3.extend(v) } else { self.p.r3 = v } },
         4 => { let v: Vec<(i64,i64,)> = parse_rows(rows)?; if append { self.p.r4.extend(v) } else { self.p.r4 = v } },
         5 => { let v: Vec<(i64,i64,)> = parse_rows(rows)?; if append { self.p.r5.extend(v) } else { self.p.r5 = v } },
            _ => return None,
         }
         Some(())
      }
      fn run(&mut self) { match &self.pool { Some(pl) => { let p = &mut self.p; pl.install(|| p.run()) }, None => self.p.run() } }
      fn run_here(&mut self) { self.p.run() }
      fn run_timeout(&mut self, k: usize) -> Option<bool> { let _ = k; None }
      fn dump(&self) -> String { vec![dump_rel(0, self.p.r0.iter().map(Row::render).collect()), dump_rel(1, self.p.r1.iter().map(Row::render).collect()), dump_rel(2, self.p.r2.iter().map(Row::render).collect()), dump_rel(3, self.p.r3.iter().map(Row::render).collect()), dump_rel(4, self.p.r4.iter().map(Row::render).collect()), dump_rel(5, self.p.r5.iter().map(Row::render).collect())].join(" | ") }
      fn iters(&self) -> String { format!("iters {}", self.p.scc_iters.iter().map(|x| x.to_string()).collect::<Vec<_>>().join(" ")) }
   }
}

#[allow(unused, non_snake_case, clippy::all)]
pub mod p92 {
   use ascent::*;
   use ascent::aggregators::*;
   use ascent::lattice::{Dual, set::Set};
   use crate::common::*;
   ascent! {
      pub struct Prog;
      relation r0(i64, i64);
      relation r1(i64, i64);
      relation r2(i64, i64);
      relation r3(i64, i64);
      r3(v1, v0) <-- r0(v0, v1), if let Some(v2) = Some((*v1));
      r3(3, (v0 + 1)) <-- let v0 = 1, r3(v1, 1), r0(v2, v3), if (v0 < 6);
      r1(v0, v1) <-- let v9 = 1, r2(v0, v1), r3(v1, v9);
      r1(((*v1) + 1), v2) <-- if let Some(v0) = Some(2), r2(v1, v0), r0(v2, v1), if ((*v1) < 6);
      r1(v2, v2) <-- if let Some(v0) = Some(3), r1(v0, v1), r1(v2, v1), if (v0 < 0), r3(v2, v1);
      r2(0, 1);
   }
   pub struct Inst { p: Prog, pool: Option<ascent::rayon::ThreadPool> }
   pub fn make(pool: Option<usize>) -> Box<dyn Driver> {
      let pool = pool.map(|n| ascent::rayon::ThreadPoolBuilder::new().num_threads(n).build().unwrap());
      let p = match &pool { Some(pl) => pl.install(|| Default::default()), None => Default::default() };
      Box::new(Inst { p, pool })
   }
   impl Driver for Inst {
      fn load(&mut self, rel: usize, rows: &[Sexp], append: bool) -> Option<()> {
         match rel {
         0 => { let v: Vec<(i64,i64,)> = parse_rows(rows)?; if append { self.p.r0.extend(v) } else { self.p.r0 = v } },
         1 => { let v: Vec<(i64,i64,)> = parse_rows(rows)?; if append { self.p.r1.extend(v) } else { self.p.r1 = v } },
         2 => { let v: Vec<(i64,i64,)> = parse_rows(rows)?; if append { self.p.r2.extend(v) } else { self.p.r2 = v } },
         3 => { let v: Vec<(i64,i64,)> = parse_rows(rows)?; if append { self.p.r3.extend(v) } else { self.p.r3 = v } },
            _ => return None,
         }
         Some(())
      }
      fn run(&mut self) { match &self.pool { Some(pl) => { let p = &mut self.p; pl.install(|| p.run()) }, None => self.p.run() } }
      fn run_here(&mut self) { self.p.run() }
      fn run_timeout(&mut self, k: usize) -> Option<bool> { let _ = k; None }
      fn dump(&self) -> String { vec![dump_rel(0, self.p.r0.iter().map(Row::render).collect()), dump_rel(1, self.p.r1.iter().map(Row::render).collect()), dump_rel(2, self.p.r2.iter().map(Row::render).collect()), dump_rel(3, self.p.r3.iter().map(Row::render).collect())].join(" | ") }
      fn iters(&self) -> String { format!("iters {}", self.p.scc_iters.iter().map(|x| x.to_string()).collect::<Vec<_>>().join(" ")) }
   }
}

#[allow(unused, non_snake_case, clippy::all)]
pub mod p100 {
   use ascent::*;
   use ascent::aggregators::*;
   use ascent::lattice::{Dual, set::Set};
   use crate::common::*;
   ascent! {
      pub struct Prog;
      relation r0(i64, i64, i64);
      relation r1(i64);
      relation r2(i64, i64);
      relation r3(i64);
      relation r4(i64, i64);
      relation r5(i64, i64);
      r1(1) <-- for v0 in 2..4, r0(v1, v2, v0);
      r2(0, v0) <-- r1(v0) if ((*v0) < 3), r3(v0);
      r1(v1) <-- if let Some(v0) = Some(2), r2(v1, v2);
      r3(v0) <-- let v9 = 1, r2(v0, v1), r2(v1, v9);
      r2(v2, v2) <-- r4(v0, v1) if ((*v0) <= 1), r3(v2);
      r3(v0) <-- r1(v0), r3(((*v0) + 0));
   }
   pub struct Inst { p: Prog, pool: Option<ascent::rayon::ThreadPool> }
   pub fn make(pool: Option<usize>) -> Box<dyn Driver> {
      let pool = pool.map(|n| ascent::rayon::ThreadPoolBuilder::new().num_threads(n).build().unwrap());
      let p = match &pool { Some(pl) => pl.install(|| Default::default()), None => Default::default() };
      Box::new(Inst { p, pool })
   }
   impl Driver for Inst {
      fn load(&mut self, rel: usize, rows: &[Sexp], append: bool) -> Option<()> {
         match rel {
         0 => { let v: Vec<(i64,i64,i64,)> = parse_rows(rows)?; if append { self.p.r0.extend(v) } else { self.p.r0 = v } },
         1 => { let v: Vec<(i64,)> = parse_rows(rows)?; if append { self.p.r1.extend(v) } else { self.p.r1 = v } },
         2 => { let v: Vec<(i64,i64,)> = parse_rows(rows)?; if append { self.p.r2.extend(v) } else { self.p.r2 = v } },
         3 => { let v: Vec<(i64,)> = parse_rows(rows)?; if append { self.p.r3.extend(v) } else { self.p.r3 = v } },
         4 => { let v: Vec<(i64,i64,)> = parse_rows(rows)?; if append { self.p.r4.extend(v) } else { self.p.r4 = v } },
         5 => { let v: Vec<(i64,i64,)> = parse_rows(rows)?; if append { self.p.r5.extend(v) } else { self.p.r5 = v } },
            _ => return None,
         }
         Some(())
      }
      fn run(&mut self) { match &self.pool { Some(pl) => { let p = &mut self.p; pl.install(|| p.run()) }, None => self.p.run() } }
      fn run_here(&mut self) { self.p.run() }
      fn run_timeout(&mut self, k: usize) -> Option<bool> { let _ = k; None }
      fn dump(&self) -> String { vec![dump_rel(0, self.p.r0.iter().map(Row::render).collect()), dump_rel(1, self.p.r1.iter().map(Row::render).collect()), dump_rel(2, self.p.r2.iter().map(Row::render).collect()), dump_rel(3, self.p.r3.iter().map(Row::render).collect()), dump_rel(4, self.p.r4.iter().map(Row::render).collect()), dump_rel(5, self.p.r5.iter().map(Row::render).collect())].join(" | ") }
      fn iters(&self) -> String { format!("iters {}", self.p.scc_iters.iter().map(|x| x.to_string()).collect::<Vec<_>>().join(" ")) }
   }
}

#[allow(unused, non_snake_case, clippy::all)]
pub mod p108 {
   use ascent::*;
   use ascent::aggregators::*;
   use ascent::lattice::{Dual, set::Set};
   use crate::common::*;
   ascent! {
      pub struct Prog;
      relation r0(i64);
      relation r1(i64, i64);
      relation r2(i64, i64, i64);
      relation r3(i64, i64);
      r1(v0, v0) <-- if let Some(v0) = None::<i64>, r0(v0), if (v0 <= 6);
      r1(0, v2) <-- if let Some(v0) = Some(3), r1(v1, (v0 + 1)) if (v0 < 2), r0(v2) if ((*v1) <= 2), if ((*v2) == 5);
      r1(v0, v1) <-- r3(v0, v1), r1(v0, v0), r3(v1, v2);
      r1(v0, (v0 + 1)) <-- let v0 = 3, r2(v0, v1, (v0 + 0)), if (v0 <= 6), if (v0 < 6);
      r2(1, 3, 2);
   }
   pub struct Inst { p: Prog, pool: Option<ascent::rayon::ThreadPool> }
   pub fn make(pool: Option<usize>) -> Box<dyn Driver> {
      let pool = pool.map(|n| ascent::rayon::ThreadPoolBuilder::new().num_threads(n).build().unwrap());
      let p = match &pool { Some(pl) => pl.install(|| Default::default()), None => Default::default() };
      Box::new(Inst { p, pool })
   }
   impl Driver for Inst {
      fn load(&mut self, rel: usize, rows: &[Sexp], append: bool) -> Option<()> {
         match rel {
         0 => { let v: Vec<(i64,)> = parse_rows(rows)?; if append { self.p.r0.extend(v) } else { self.p.r0 = v } },
         1 => { let v: Vec<(i64,i64,)> = parse_rows(rows)?; if append { self.p.r1.extend(v) } else { self.p.r1 = v } },
         2 => { let v: Vec<(i64,i64,i64,)> = parse_rows(rows)?; if append { self.p.r2.extend(v) } else { self.p.r2 = v } },
         3 => { let v: Vec<(i64,i64,)> = parse_rows(rows)?; if append { self.p.r3.extend(v) } else { self.p.r3 = v } },
            _ => return None,
         }
         Some(())
      }
      fn run(&mut self) { match &self.pool { Some(pl) => { let p = &mut self.p; pl.install(|| p.run()) }, None => self.p.run() } }
      fn run_here(&mut self) { self.p.run() }
      fn run_timeout(&mut self, k: usize) -> Option<bool> { let _ = k; None }
      fn dump(&self) -> String { vec![dump_rel(0, self.p.r0.iter().map(Row::render).collect()), dump_rel(1, self.p.r1.iter().map(Row::render).collect()), dump_rel(2, self.p.r2.iter().map(Row::render).collect()), dump_rel(3, self.p.r3.iter().map(Row::render).collect())].join(" | ") }
      fn iters(&self) -> String { format!("iters {}", self.p.scc_iters.iter().map(|x| x.to_string()).collect::<Vec<_>>().join(" ")) }
   }
}

#[allow(unused, non_snake_case, clippy::all)]
pub mod p116 {
   use ascent::*;
   use ascent::aggregators::*;
   use ascent::lattice::{Dual, set::Set};
   use crate::common::*;
   ascent! {
      pub struct Prog;
      relation r0(i64, i64);
      relation r1(i64, i64);
      relation r2(i64, i64);
      relation r3(i64, i64, i64);
      relation r4(i64, i64);
      relation r5(i64, i64);
      r1(v0, v0) <-- r0(0, v0), for v1 in 1..1;
      r2(v0, v0) <-- r0(v0, v1);
      r3(v1, v2, v1) <-- if let Some(v0) = None::<i64>, r1(v0, v1), r2(v0, v2) if ((*v2) < 1);
      r5(v0, v2) <-- r5(v0, v1), r2(v1, v2), r0(v2, v3);
      r1(v1, v3) <-- for v0 in 0..1, r0(v1, (v0 + 1)), r2(v0, v2), r1(v3, v2);
   }
   pub struct Inst { p: Prog, pool: Option<ascent::rayon::ThreadPool> }
   pub fn make(pool: Option<usize>) -> Box<dyn Driver> {
      let pool = pool.map(|n| ascent::rayon::ThreadPoolBuilder::new().num_threads(n).build().unwrap());
      let p = match &pool { Some(pl) => pl.install(|| Default::default()), None => Default::default() };
      Box::new(Inst { p, pool })
   }
   impl Driver for Inst {
      fn load(&mut self, rel: usize, rows: &[Sexp], append: bool) -> Option<()> {
         match rel {
         0 => { let v: Vec<(i64,i64,)> = parse_rows(rows)?; if append { self.p.r0.extend(v) } else { self.p.r0 = v } },
         1 => { let v: Vec<(i64,i64,)> = parse_rows(rows)?; if append { self.p.r1.extend(v) } else { self.p.r1 = v } },
         2 => { let v: Vec<(i64,i64,)> = parse_rows(rows)?; if append { self.p.r2.extend(v) } else { self.p.r2 = v } },
         3 => { let v: Vec<(i64,i64,i64,)> = parse_rows(rows)?; if append { self.p.r3.extend(v) } else { self.p.r3 = v } },
         4 => { let v: Vec<(i64,i64,)> = parse_rows(rows)?; if append { self.p.r4.extend(v) } else { self.p.r4 = v } },
         5 => { let v: Vec<(i64,i64,)> = parse_rows(rows)?; if append { self.p.r5.extend(v) } else { self.p.r5 = v } },
            _ => return None,
         }
         Some(())
      }
      fn run(&mut self) { match &self.pool { Some(pl) => { let p = &mut self.p; pl.install(|| p.run()) }, None => self.p.run() } }
      fn run_here(&mut self) { self.p.run() }
      fn run_timeout(&mut self, k: usize) -> Option<bool> { let _ = k; None }
      fn dump(&self) -> String { vec![dump_rel(0, self.p.r0.iter().map(Row::render).collect()), dump_rel(1, self.p.r1.iter().map(Row::render).collect()), dump_rel(2, self.p.r2.iter().map(Row::render).collect()), dump_rel(3, self.p.r3.iter().map(Row::render).collect()), dump_rel(4, self.p.r4.iter().map(Row::render).collect()), dump_rel(5, self.p.r5.iter().map(Row::render).collect())].join(" | ") }
      fn iters(&self) -> String { format!("iters {}", self.p.scc_iters.iter().map(|x| x.to_string()).collect::<Vec<_>>().join(" ")) }
   }
}

fn main() {
   common::main_loop(&[("p4", p4::make as common::Factory), ("p12", p12::make as common::Factory), ("p20", p20::make as common::Factory), ("p28", p28::make as common::Factory), ("p36", p36::make as common::Factory), ("p44", p44::make as common::Factory), ("p52", p52::make as common::Factory), ("p60", p60::make as common::Factory), ("p68", p68::make as common::Factory), ("p76", p76::make as common::Factory), ("p84", p84::make as common::Factory), ("p92", p92::make as common::Factory), ("p100", p100::make as common::Factory), ("p108", p108::make as common::Factory), ("p116", p116::make as common::Factory)]);
}
