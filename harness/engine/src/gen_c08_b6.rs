#[path = "common.rs"]
mod common;
#[allow(unused, non_snake_case, clippy::all)]
pub mod h3s {
   use ascent::*;
   use ascent::aggregators::*;
   use ascent::lattice::{Dual, set::Set};
   use crate::common::*;
   ascent! {
      pub struct Prog;
      relation r0(i64, i64);
      relation r1(i64, Option<i64>);
      relation r2(i64);
      relation r3(i64, i64, i64);
      relation r4(i64, i64);
      relation r5(i64);
      relation r6(i64, Option<i64>, i64);
      relation r7(i64, Option<i64>);
      macro m0($p0: ident, $p1: ident) { r1($p0, v0), r1(($p1.clone() + $p0.clone()), ?Some(v1)) }
      macro m1($p0: ident) { r0($p0, v0), let v1 = std::cmp::min((v0.clone() + v0.clone()), 6), m0!(v2, $p0) }
      macro m2($p0: ident) { r7($p0, Some($p0.clone())) }
      r6(v0, Some(1), v0) <-- r2(v0) if (v0.clone() != 4), m0!(v0, v0), m0!(v0, v0);
      m2!(v1) <-- r4(v0, _), m0!(v0, v0), r2(v1);
      m2!(v2), r7(3, None::<i64>) <-- r1(v0, ?Some(v1)), (m0!(v2, v1) | r3(v2, (v0.clone() + v0.clone()), v1) if (v2.clone() != 3));
      m2!(v0), r6(v1, Some(v1.clone()), 1) <-- r3(v0, (v0.clone() + 1), v0), m1!(v0), r7(v1, None::<i64>);
      r5((v1.clone() + 1)) <-- r3(v0, v0, (v0.clone() + 2)), (m1!(v1) | r4(v3, v1)), m1!(v4), if (v1.clone() < 5);
      r4(v1, v0) <-- r1(v0, ?Some(v1)) if (v0.clone() < 2);
   }
   pub struct Inst { p: Prog, pool: Option<ascent::rayon::ThreadPool> }
   pub fn make(pool: Option<usize>) -> Box<dyn Driver> {
      let pool = pool.map(|n| ascent::rayon::ThreadPoolBuilder::new().num_threads(n).build().unwrap());
      let p = match &pool { Some(pl) => pl.install(|| Default::default()), None => Default::default() };
      Box::new(Inst { p, pool })
   }
   impl Driver for Inst {
      fn load(&mut self, rel: usize, rows: &[Sexp], append: bool) -> Option<()> {
         match rel {
         0 => { let v: Vec<(i64,i64,)> = parse_rows(rows)?; if append { self.p.r0.extend(v) } else { self.p.r0 = v } },
         1 => { let v: Vec<(i64,Option<i64>,)> = parse_rows(rows)?; if append { self.p.r1.extend(v) } else { self.p.r1 = v } },
         2 => { let v: Vec<(i64,)> = parse_rows(rows)?; if append { self.p.r2.extend(v) } else { self.p.r2 = v } },
         3 => { let v: Vec<(i64,i64,i64,)> = parse_rows(rows)?; if append { self.p.r3.extend(v) } else { self.p.r3 = v } },
         4 => { let v: Vec<(i64,i64,)> = parse_rows(rows)?; if append { self.p.r4.extend(v) } else { self.p.r4 = v } },
         5 => { let v: Vec<(i64,)> = parse_rows(rows)?; if append { self.p.r5.extend(v) } else { self.p.r5 = v } },
         6 => { let v: Vec<(i64,Option<i64>,i64,)> = parse_rows(rows)?; if append { self.p.r6.extend(v) } else { self.p.r6 = v } },
         7 => { let v: Vec<(i64,Option<i64>,)> = parse_rows(rows)?; if append { self.p.r7.extend(v) } else { self.p.r7 = v } },
            _ => return None,
         }
         Some(())
      }
      fn run(&mut self) { match &self.pool { Some(pl) => { let p = &mut self.p; pl.install(|| p.run()) }, None => self.p.run() } }
      fn run_here(&mut self) { self.p.run() }
      fn run_timeout(&mut self, k: usize) -> Option<bool> { let _ = k; None }
      fn dump(&self) -> String { vec![dump_rel(0, self.p.r0.iter().map(Row::render).collect()), dump_rel(1, self.p.r1.iter().map(Row::render).collect()), dump_rel(2, self.p.r2.iter().map(Row::render).collect()), dump_rel(3, self.p.r3.iter().map(Row::render).collect()), dump_rel(4, self.p.r4.iter().map(Row::render).collect()), dump_rel(5, self.p.r5.iter().map(Row::render).collect()), dump_rel(6, self.p.r6.iter().map(Row::render).collect()), dump_rel(7, self.p.r7.iter().map(Row::render).collect())].join(" | ") }
      fn iters(&self) -> String { format!("iters {}", self.p.scc_iters.iter().map(|x| x.to_string()).collect::<Vec<_>>().join(" ")) }
   }
}

#[allow(unused, non_snake_case, clippy::all)]
pub mod h7s {
   use ascent::*;
   use ascent::aggregators::*;
   use ascent::lattice::{Dual, set::Set};
   use crate::common::*;
   ascent! {
      pub struct Prog;
      relation r0(i64, i64);
      relation r1(i64, Option<i64>);
      relation r2(i64);
      relation r3(i64, i64, i64);
      relation r4(i64, Option<i64>);
      relation r5(i64, i64, i64);
      relation r6(i64, i64);
      macro m0($p0: ident, $p1: ident) { r3(v0, $p1, $p0), if ($p1.clone() == 3) }
      macro m1($p0: ident, $p1: expr) { ((r4($p0, ?Some(v0)), r6(_, v1), if (v1.clone() < v0.clone())) | r3($p0, $p1, v0), if let Some(v2) = Some($p1)), m0!(v3, v4), if ($p0.clone() < 5) }
      macro m2($p0: ident, $p1: expr) { r4($p0, Some(($p0.clone() + $p0.clone()))) }
      macro m3($p0: ident, $p1: ident) { r4($p0, ?Some(v0)), if (v0.clone() < $p1.clone()) }
      macro m4($p0: ident, $p1: expr) { r5(1, $p0, $p1) }
      macro m5($p0: expr, $p1: ident) { r5($p1, $p1, $p0), r6($p1, $p1) }
      r5(v1, 1, v2) <-- r2(v0) if (v0.clone() < 0), m3!(v1, v0), m3!(v2, v0);
      m4!(v0, std::cmp::min(std::cmp::max(v3.clone(), 1), 6)), r5(v0, 0, v3) <-- r1(v0, v1), m0!(v2, v2), m0!(v3, v2);
      m4!(v1, std::cmp::min(std::cmp::max(v1.clone(), 1), 6)), r5(v0, v2, v0) <-- r4(v0, ?Some(v1)), m3!(v2, v0);
      m5!(std::cmp::min((v0.clone() + v1.clone()), 6), v0) <-- r2(v0), m0!(v1, v0);
      m5!(std::cmp::min((v0.clone() + v1.clone()), 6), v1) <-- r3(v0, v1, (v1.clone() + v0.clone())), m3!(v2, v1);
      m5!(std::cmp::min((v0.clone() + v1.clone()), 6), v1) <-- r2(v0), (m1!(v1, std::cmp::max(v0.clone(), 3)) | r3(v3, v3, v1));
      r4(v0, Some(v0.clone())) <-- r1(_, ?Some(v0)) if (v0.clone() < 0);
   }
   pub struct Inst { p: Prog, pool: Option<ascent::rayon::ThreadPool> }
   pub fn make(pool: Option<usize>) -> Box<dyn Driver> {
      let pool = pool.map(|n| ascent::rayon::ThreadPoolBuilder::new().num_threads(n).build().unwrap());
      let p = match &pool { Some(pl) => pl.install(|| Default::default()), None => Default::default() };
      Box::new(Inst { p, pool })
   }
   impl Driver for Inst {
      fn load(&mut self, rel: usize, rows: &[Sexp], append: bool) -> Option<()> {
         match rel {
         0 => { let v: Vec<(i64,i64,)> = parse_rows(rows)?; if append { self.p.r0.extend(v) } else { self.p.r0 = v } },
         1 => { let v: Vec<(i64,Option<i64>,)> = parse_rows(rows)?; if append { self.p.r1.extend(v) } else { self.p.r1 = v } },
         2 => { let v: Vec<(i64,)> = parse_rows(rows)?; if append { self.p.r2.extend(v) } else { self.p.r2 = v } },
         3 => { let v: Vec<(i64,i64,i64,)> = parse_rows(rows)?; if append { self.p.r3.extend(v) } else { self.p.r3 = v } },
         4 => { let v: Vec<(i64,Option<i64>,)> = parse_rows(rows)?; if append { self.p.r4.extend(v) } else { self.p.r4 = v } },
         5 => { let v: Vec<(i64,i64,i64,)> = parse_rows(rows)?; if append { self.p.r5.extend(v) } else { self.p.r5 = v } },
         6 => { let v: Vec<(i64,i64,)> = parse_rows(rows)?; if append { self.p.r6.extend(v) } else { self.p.r6 = v } },
            _ => return None,
         }
         Some(())
      }
      fn run(&mut self) { match &self.pool { Some(pl) => { let p = &mut self.p; pl.install(|| p.run()) }, None => self.p.run() } }
      fn run_here(&mut self) { self.p.run() }
      fn run_timeout(&mut self, k: usize) -> Option<bool> { let _ = k; None }
      fn dump(&self) -> String { vec![dump_rel(0, self.p.r0.iter().map(Row::render).collect()), dump_rel(1, self.p.r1.iter().map(Row::render).collect()), dump_rel(2, self.p.r2.iter().map(Row::render).collect()), dump_rel(3, self.p.r3.iter().map(Row::render).collect()), dump_rel(4, self.p.r4.iter().map(Row::render).collect()), dump_rel(5, self.p.r5.iter().map(Row::render).collect()), dump_rel(6, self.p.r6.iter().map(Row::render).collect())].join(" | ") }
      fn iters(&self) -> String { format!("iters {}", self.p.scc_iters.iter().map(|x| x.to_string()).collect::<Vec<_>>().join(" ")) }
   }
}

#[allow(unused, non_snake_case, clippy::all)]
pub mod h11s {
   use ascent::*;
   use ascent::aggregators::*;
   use ascent::lattice::{Dual, set::Set};
   use crate::common::*;
   ascent! {
      pub struct Prog;
      relation r0(i64, i64);
      relation r1(i64, Option<i64>);
      relation r2(i64);
      relation r3(i64, i64, i64);
      relation r4(i64);
      relation r5(i64, i64, i64);
      relation r6(i64, Option<i64>);
      relation r7(i64, i64, i64);
      macro m0($p0: ident, $p1: ident, $p2: expr) { (r7($p1, std::cmp::max($p1.clone(), 0), v0) | r6($p1, ?Some(v0))) }
      macro m1($p0: ident, $p1: expr) { (r1($p0, v0) | (r7(v2, $p0, v1) | r5($p0, v1, v2), r5(2, v3, v4) | r7(v1, $p0, v2)), !r0($p1, _)), r0($p0, v5), if ($p1 <= 3) }
      macro m2($p0: ident) { r6($p0, None::<i64>), if ($p0.clone() == 2), r4($p0), m0!($p0, $p0, std::cmp::max($p0.clone(), 2)), if ($p0.clone() <= 2) }
      macro m3($p0: ident) { r5($p0, $p0, $p0), r5(2, 0, $p0) }
      macro m4($p0: ident, $p1: expr) { r7(3, $p1, 3), m3!($p0) }
      m4!(v0, std::cmp::min((v1.clone() + v1.clone()), 6)) <-- r7(_, v0, v1), m0!(v0, v2, v0.clone() + 1), m0!(v0, v2, v1.clone() + 1);
      m4!(v1, std::cmp::min(std::cmp::max(v1.clone(), 1), 6)) <-- r7(v0, _, v0), m0!(v0, v1, std::cmp::max(v0.clone(), 2));
      r7(v0, v0, v1) <-- r2(v0) if (v0.clone() == 4), m1!(v0, std::cmp::min(v0.clone(), 4)), r1(v1, v2);
      r7(1, 1, v0) <-- r1(v0, _), m0!(v0, v0, std::cmp::max(v0.clone(), 2)), m0!(v0, v0, std::cmp::max(v0.clone(), 0));
      r4(v0) <-- r1(v0, v1);
   }
   pub struct Inst { p: Prog, pool: Option<ascent::rayon::ThreadPool> }
   pub fn make(pool: Option<usize>) -> Box<dyn Driver> {
      let pool = pool.map(|n| ascent::rayon::ThreadPoolBuilder::new().num_threads(n).build().unwrap());
      let p = match &pool { Some(pl) => pl.install(|| Default::default()), None => Default::default() };
      Box::new(Inst { p, pool })
   }
   impl Driver for Inst {
      fn load(&mut self, rel: usize, rows: &[Sexp], append: bool) -> Option<()> {
         match rel {
         0 => { let v: Vec<(i64,i64,)> = parse_rows(rows)?; if append { self.p.r0.extend(v) } else { self.p.r0 = v } },
         1 => { let v: Vec<(i64,Option<i64>,)> = parse_rows(rows)?; if append { self.p.r1.extend(v) } else { self.p.r1 = v } },
         2 => { let v: Vec<(i64,)> = parse_rows(rows)?; if append { self.p.r2.extend(v) } else { self.p.r2 = v } },
         3 => { let v: Vec<(i64,i64,i64,)> = parse_rows(rows)?; if append { self.p.r3.extend(v) } else { self.p.r3 = v } },
         4 => { let v: Vec<(i64,)> = parse_rows(rows)?; if append { self.p.r4.extend(v) } else { self.p.r4 = v } },
         5 => { let v: Vec<(i64,i64,i64,)> = parse_rows(rows)?; if append { self.p.r5.extend(v) } else { self.p.r5 = v } },
         6 => { let v: Vec<(i64,Option<i64>,)> = parse_rows(rows)?; if append { self.p.r6.extend(v) } else { self.p.r6 = v } },
         7 => { let v: Vec<(i64,i64,i64,)> = parse_rows(rows)?; if append { self.p.r7.extend(v) } else { self.p.r7 = v } },
            _ => return None,
         }
         Some(())
      }
      fn run(&mut self) { match &self.pool { Some(pl) => { let p = &mut self.p; pl.install(|| p.run()) }, None => self.p.run() } }
      fn run_here(&mut self) { self.p.run() }
      fn run_timeout(&mut self, k: usize) -> Option<bool> { let _ = k; None }
      fn dump(&self) -> String { vec![dump_rel(0, self.p.r0.iter().map(Row::render).collect()), dump_rel(1, self.p.r1.iter().map(Row::render).collect()), dump_rel(2, self.p.r2.iter().map(Row::render).collect()), dump_rel(3, self.p.r3.iter().map(Row::render).collect()), dump_rel(4, self.p.r4.iter().map(Row::render).collect()), dump_rel(5, self.p.r5.iter().map(Row::render).collect()), dump_rel(6, self.p.r6.iter().map(Row::render).collect()), dump_rel(7, self.p.r7.iter().map(Row::render).collect())].join(" | ") }
      fn iters(&self) -> String { format!("iters {}", self.p.scc_iters.iter().map(|x| x.to_string()).collect::<Vec<_>>().join(" ")) }
   }
}

#[allow(unused, non_snake_case, clippy::all)]
pub mod a1s {
   use ascent::*;
   use ascent::aggregators::*;
   use ascent::lattice::{Dual, set::Set};
   use crate::common::*;
   ascent! {
      pub struct Prog;
      relation r0(i64, i64);
      relation r1(i64);
      relation r2(i64, i64);
      relation r3(i64);
      macro m0($p0: ident) { r0(v0, $p0) if (1 < $p0.clone()) }
      r2(v0, v1) <-- r1(v0), m0!(v1);
      r3(v0) <-- r2(v0, _);
   }
   pub struct Inst { p: Prog, pool: Option<ascent::rayon::ThreadPool> }
   pub fn make(pool: Option<usize>) -> Box<dyn Driver> {
      let pool = pool.map(|n| ascent::rayon::ThreadPoolBuilder::new().num_threads(n).build().unwrap());
      let p = match &pool { Some(pl) => pl.install(|| Default::default()), None => Default::default() };
      Box::new(Inst { p, pool })
   }
   impl Driver for Inst {
      fn load(&mut self, rel: usize, rows: &[Sexp], append: bool) -> Option<()> {
         match rel {
         0 => { let v: Vec<(i64,i64,)> = parse_rows(rows)?; if append { self.p.r0.extend(v) } else { self.p.r0 = v } },
         1 => { let v: Vec<(i64,)> = parse_rows(rows)?; if append { self.p.r1.extend(v) } else { self.p.r1 = v } },
         2 => { let v: Vec<(i64,i64,)> = parse_rows(rows)?; if append { self.p.r2.extend(v) } else { self.p.r2 = v } },
         3 => { let v: Vec<(i64,)> = parse_rows(rows)?; if append { self.p.r3.extend(v) } else { self.p.r3 = v } },
            _ => return None,
         }
         Some(())
      }
      fn run(&mut self) { match &self.pool { Some(pl) => { let p = &mut self.p; pl.install(|| p.run()) }, None => self.p.run() } }
      fn run_here(&mut self) { self.p.run() }
      fn run_timeout(&mut self, k: usize) -> Option<bool> { let _ = k; None }
      fn dump(&self) -> String { vec![dump_rel(0, self.p.r0.iter().map(Row::render).collect()), dump_rel(1, self.p.r1.iter().map(Row::render).collect()), dump_rel(2, self.p.r2.iter().map(Row::render).collect()), dump_rel(3, self.p.r3.iter().map(Row::render).collect())].join(" | ") }
      fn iters(&self) -> String { format!("iters {}", self.p.scc_iters.iter().map(|x| x.to_string()).collect::<Vec<_>>().join(" ")) }
   }
}

#[allow(unused, non_snake_case, clippy::all)]
pub mod e1s {
   use ascent::*;
   use ascent::aggregators::*;
   use ascent::lattice::{Dual, set::Set};
   use crate::common::*;
   ascent! {
      pub struct Prog;
      relation r0(i64, i64);
      relation r1(i64);
      relation r2(i64, i64);
      relation r3(i64);
      macro m0($p0: ident, $p1: expr) { r0(v0, $p0), if ((6 - $p1) < 8) }
      r2(v0, v1) <-- r1(v0), m0!(v1, v0.clone() + 2);
      r3(v0) <-- r2(v0, _);
   }
   pub struct Inst { p: Prog, pool: Option<ascent::rayon::ThreadPool> }
   pub fn make(pool: Option<usize>) -> Box<dyn Driver> {
      let pool = pool.map(|n| ascent::rayon::ThreadPoolBuilder::new().num_threads(n).build().unwrap());
      let p = match &pool { Some(pl) => pl.install(|| Default::default()), None => Default::default() };
      Box::new(Inst { p, pool })
   }
   impl Driver for Inst {
      fn load(&mut self, rel: usize, rows: &[Sexp], append: bool) -> Option<()> {
         match rel {
         0 => { let v: Vec<(i64,i64,)> = parse_rows(rows)?; if append { self.p.r0.extend(v) } else { self.p.r0 = v } },
         1 => { let v: Vec<(i64,)> = parse_rows(rows)?; if append { self.p.r1.extend(v) } else { self.p.r1 = v } },
         2 => { let v: Vec<(i64,i64,)> = parse_rows(rows)?; if append { self.p.r2.extend(v) } else { self.p.r2 = v } },
         3 => { let v: Vec<(i64,)> = parse_rows(rows)?; if append { self.p.r3.extend(v) } else { self.p.r3 = v } },
            _ => return None,
         }
         Some(())
      }
      fn run(&mut self) { match &self.pool { Some(pl) => { let p = &mut self.p; pl.install(|| p.run()) }, None => self.p.run() } }
      fn run_here(&mut self) { self.p.run() }
      fn run_timeout(&mut self, k: usize) -> Option<bool> { let _ = k; None }
      fn dump(&self) -> String { vec![dump_rel(0, self.p.r0.iter().map(Row::render).collect()), dump_rel(1, self.p.r1.iter().map(Row::render).collect()), dump_rel(2, self.p.r2.iter().map(Row::render).collect()), dump_rel(3, self.p.r3.iter().map(Row::render).collect())].join(" | ") }
      fn iters(&self) -> String { format!("iters {}", self.p.scc_iters.iter().map(|x| x.to_string()).collect::<Vec<_>>().join(" ")) }
   }
}

#[allow(unused, non_snake_case, clippy::all)]
pub mod o0s {
   use ascent::*;
   use ascent::aggregators::*;
   use ascent::lattice::{Dual, set::Set};
   use crate::common::*;
   ascent! {
      pub struct Prog;
      relation r0(i64, Option<i64>);
      relation r1(i64);
      relation r2(i64, i64);
      relation r3(i64);
      macro m0($p0: ident) { r0($p0, ?None) }
      r3(v0) <-- r1(v0), m0!(v0);
      r2(v0, v0) <-- r3(v0);
   }
   pub struct Inst { p: Prog, pool: Option<ascent::rayon::ThreadPool> }
   pub fn make(pool: Option<usize>) -> Box<dyn Driver> {
      let pool = pool.map(|n| ascent::rayon::ThreadPoolBuilder::new().num_threads(n).build().unwrap());
      let p = match &pool { Some(pl) => pl.install(|| Default::default()), None => Default::default() };
      Box::new(Inst { p, pool })
   }
   impl Driver for Inst {
      fn load(&mut self, rel: usize, rows: &[Sexp], append: bool) -> Option<()> {
         match rel {
         0 => { let v: Vec<(i64,Option<i64>,)> = parse_rows(rows)?; if append { self.p.r0.extend(v) } else { self.p.r0 = v } },
         1 => { let v: Vec<(i64,)> = parse_rows(rows)?; if append { self.p.r1.extend(v) } else { self.p.r1 = v } },
         2 => { let v: Vec<(i64,i64,)> = parse_rows(rows)?; if append { self.p.r2.extend(v) } else { self.p.r2 = v } },
         3 => { let v: Vec<(i64,)> = parse_rows(rows)?; if append { self.p.r3.extend(v) } else { self.p.r3 = v } },
            _ => return None,
         }
         Some(())
      }
      fn run(&mut self) { match &self.pool { Some(pl) => { let p = &mut self.p; pl.install(|| p.run()) }, None => self.p.run() } }
      fn run_here(&mut self) { self.p.run() }
      fn run_timeout(&mut self, k: usize) -> Option<bool> { let _ = k; None }
      fn dump(&self) -> String { vec![dump_rel(0, self.p.r0.iter().map(Row::render).collect()), dump_rel(1, self.p.r1.iter().map(Row::render).collect()), dump_rel(2, self.p.r2.iter().map(Row::render).collect()), dump_rel(3, self.p.r3.iter().map(Row::render).collect())].join(" | ") }
      fn iters(&self) -> String { format!("iters {}", self.p.scc_iters.iter().map(|x| x.to_string()).collect::<Vec<_>>().join(" ")) }
   }
}

fn main() {
   common::main_loop(&[("h3s", h3s::make as common::Factory), ("h7s", h7s::make as common::Factory), ("h11s", h11s::make as common::Factory), ("a1s", a1s::make as common::Factory), ("e1s", e1s::make as common::Factory), ("o0s", o0s::make as common::Factory)]);
}
