#[path = "common.rs"]
mod common;
#[allow(unused, non_snake_case, clippy::all)]
pub mod a0 {
   use ascent::*;
   use ascent::aggregators::*;
   use ascent::lattice::{Dual, set::Set};
   use crate::common::*;
   ascent! {
      pub struct Prog;
      relation r0(i64, i64);
      relation r1(i64, i64, i64);
      relation r2(i64);
      relation r3(i64, i64);
      relation r4(i64);
      relation r5(i64, i64);
      relation r6(i64);
      relation r7(i64, i64);
      relation r8(i64, i64);
      relation r9(i64);
      relation r10(i64, i64);
      r2(v3) <-- let v0 = 3, r1(v1, v2, v0), let v3 = ((*v2) + 0), if (v3 <= 6);
      r3(v1, v0) <-- r2(v0) if ((*v0) != 4), if let Some(v1) = Some((*v0)), r3(v0, v0) if ((*v0) != 2), if (v1 <= 6);
      r4(v0) <-- let v0 = 2, r3(v0, v0), r2(v0) if (v0 != 6) let v1 = (v0 + 1), for v2 in 1..3, if (v0 <= 6);
      r2(v0) <-- r0(v0, v1), r3(v1, v2), r3(v2, v3);
      r3(3, 3);
      r2(v1) <-- r1(v0, v1, 2), for v2 in 0..4, r3(((*v1) + 0), v3), if let Some(v4) = None::<i64>;
      r3(v0, v0) <-- r0(1, v0) if ((*v0) <= 1), r1(((*v0) + 0), 1, ((*v0) + 1));
      r4(v0) <-- r3(3, v0) if ((*v0) < 1), r3(v1, v0);
      r5(v1, (v21 as i64)) <-- r1(v0, v1, v2), r0(v2, v1), r3(v0, v1), agg v21 = count() in r2((*v2));
      r6(v0) <-- r4(v0), agg v21 = sum(v20) in r5(v20, (*v0));
      r7(v0, v21) <-- r3(v0, v1), agg v21 = min(v20) in r6(v20);
      r8(v1, v21) <-- r3(v0, v1), r2(v0), agg v21 = min(v20) in r2(v20);
      r9(v1) <-- r1(v0, v1, v2), r3(v33, v0), agg v21 = min(v20) in r8(v20, (*v33));
      r10(v31, v21) <-- r4(v0), r2(v31), r0(v0, v31), agg v21 = sum(v20) in r3(v20, (*v0));
   }
   pub struct Inst { p: Prog, pool: Option<ascent::rayon::ThreadPool> }
   pub fn make(pool: Option<usize>) -> Box<dyn Driver> {
      let pool = pool.map(|n| ascent::rayon::ThreadPoolBuilder::new().num_threads(n).build().unwrap());
      let p = match &pool { Some(pl) => pl.install(|| Default::default()), None => Default::default() };
      Box::new(Inst { p, pool })
   }
   impl Driver for Inst {
      fn load(&mut self, rel: usize, rows: &[Sexp], append: bool) -> Option<()> {
         match rel {
         0 => { let v: Vec<(i64,i64,)> = parse_rows(rows)?; if append { self.p.r0.extend(v) } else { self.p.r0 = v } },
         1 => { let v: Vec<(i64,i64,i64,)> = parse_rows(rows)?; if append { self.p.r1.extend(v) } else { self.p.r1 = v } },
         2 => { let v: Vec<(i64,)> = parse_rows(rows)?; if append { self.p.r2.extend(v) } else { self.p.r2 = v } },
         3 => { let v: Vec<(i64,i64,)> = parse_rows(rows)?; if append { self.p.r3.extend(v) } else { self.p.r3 = v } },
         4 => { let v: Vec<(i64,)> = parse_rows(rows)?; if append { self.p.r4.extend(v) } else { self.p.r4 = v } },
         5 => { let v: Vec<(i64,i64,)> = parse_rows(rows)?; if append { self.p.r5.extend(v) } else { self.p.r5 = v } },
         6 => { let v: Vec<(i64,)> = parse_rows(rows)?; if append { self.p.r6.extend(v) } else { self.p.r6 = v } },
         7 => { let v: Vec<(i64,i64,)> = parse_rows(rows)?; if append { self.p.r7.extend(v) } else { self.p.r7 = v } },
         8 => { let v: Vec<(i64,i64,)> = parse_rows(rows)?; if append { self.p.r8.extend(v) } else { self.p.r8 = v } },
         9 => { let v: Vec<(i64,)> = parse_rows(rows)?; if append { self.p.r9.extend(v) } else { self.p.r9 = v } },
         10 => { let v: Vec<(i64,i64,)> = parse_rows(rows)?; if append { self.p.r10.extend(v) } else { self.p.r10 = v } },
            _ => return None,
         }
         Some(())
      }
      fn run(&mut self) { match &self.pool { Some(pl) => { let p = &mut self.p; pl.install(|| p.run()) }, None => self.p.run() } }
      fn run_here(&mut self) { self.p.run() }
      fn run_timeout(&mut self, k: usize) -> Option<bool> { let _ = k; None }
      fn dump(&self) -> String { vec![dump_rel(0, self.p.r0.iter().map(Row::render).collect()), dump_rel(1, self.p.r1.iter().map(Row::render).collect()), dump_rel(2, self.p.r2.iter().map(Row::render).collect()), dump_rel(3, self.p.r3.iter().map(Row::render).collect()), dump_rel(4, self.p.r4.iter().map(Row::render).collect()), dump_rel(5, self.p.r5.iter().map(Row::render).collect()), dump_rel(6, self.p.r6.iter().map(Row::render).collect()), dump_rel(7, self.p.r7.iter().map(Row::render).collect()), dump_rel(8, self.p.r8.iter().map(Row::render).collect()), dump_rel(9, self.p.r9.iter().map(Row::render).collect()), dump_rel(10, self.p.r10.iter().map(Row::render).collect())].join(" | ") }
      fn iters(&self) -> String { format!("iters {}", self.p.scc_iters.iter().map(|x| x.to_string()).collect::<Vec<_>>().join(" ")) }
   }
}

#[allow(unused, non_snake_case, clippy::all)]
pub mod a8 {
   use ascent::*;
   use ascent::aggregators::*;
   use ascent::lattice::{Dual, set::Set};
   use crate::common::*;
   ascent! {
      pub struct Prog;
      relation r0(i64);
      relation r1(i64, i64);
      relation r2(i64, i64);
      relation r3(i64, i64, i64);
      relation r4(i64);
      relation r5(i64);
      relation r6(i64, i64);
      relation r7(i64);
      relation r8(i64, i64);
      r1(v0, ((*v2) + 1)) <-- r0(v0) if ((*v0) < 2), r3(v1, v2, v3), if ((*v2) < 6);
      r2(((*v1) + 1), v0) <-- r1(v0, v1), if ((*v1) < 6);
      r3(((*v0) + 1), 3, v0) <-- r2(v0, 0) if ((*v0) < 4), if ((*v0) < 6);
      r3(v0, v1, v2) <-- r2(v0, v1) if ((*v0) < 2), r1(v1, v2) if ((*v2) != (*v1));
      r1(v0, (v2 + 1)) <-- r0(1), r0(v0) if ((*v0) != 5) let v1 = ((*v0) + 0), for v2 in [1, 1], if (v2 < 6);
      r3(v1, 3, v2) <-- r2(v0, v1) if ((*v0) != 2) let v2 = ((*v0) + 0), r3(v1, v0, v3), if (v2 <= 6);
      r0(v1) <-- r0(v0), r0(v0), r0(1) if ((*v0) <= 5), if let Some(v1) = None::<i64>, if (v1 <= 6);
      r4(v0) <-- r1(v0, v1), agg () = not() in r0((*v1));
      r5(v0) <-- r0(v0), r2(v0, v0), agg v21 = max(v20) in r3(_, v20, (*v0));
      r6(v0, (v21 as i64)) <-- r0(v0), agg v21 = count() in r0(_);
      r7(v1) <-- r1(v0, v1), r3(v0, v32, v33), agg v21 = max(v20) in r4(v20);
      r8(v0, (v21 as i64)) <-- r0(v0), agg v21 = count() in r5(_);
   }
   pub struct Inst { p: Prog, pool: Option<ascent::rayon::ThreadPool> }
   pub fn make(pool: Option<usize>) -> Box<dyn Driver> {
      let pool = pool.map(|n| ascent::rayon::ThreadPoolBuilder::new().num_threads(n).build().unwrap());
      let p = match &pool { Some(pl) => pl.install(|| Default::default()), None => Default::default() };
      Box::new(Inst { p, pool })
   }
   impl Driver for Inst {
      fn load(&mut self, rel: usize, rows: &[Sexp], append: bool) -> Option<()> {
         match rel {
         0 => { let v: Vec<(i64,)> = parse_rows(rows)?; if append { self.p.r0.extend(v) } else { self.p.r0 = v } },
         1 => { let v: Vec<(i64,i64,)> = parse_rows(rows)?; if append { self.p.r1.extend(v) } else { self.p.r1 = v } },
         2 => { let v: Vec<(i64,i64,)> = parse_rows(rows)?; if append { self.p.r2.extend(v) } else { self.p.r2 = v } },
         3 => { let v: Vec<(i64,i64,i64,)> = parse_rows(rows)?; if append { self.p.r3.extend(v) } else { self.p.r3 = v } },
         4 => { let v: Vec<(i64,)> = parse_rows(rows)?; if append { self.p.r4.extend(v) } else { self.p.r4 = v } },
         5 => { let v: Vec<(i64,)> = parse_rows(rows)?; if append { self.p.r5.extend(v) } else { self.p.r5 = v } },
         6 => { let v: Vec<(i64,i64,)> = parse_rows(rows)?; if append { self.p.r6.extend(v) } else { self.p.r6 = v } },
         7 => { let v: Vec<(i64,)> = parse_rows(rows)?; if append { self.p.r7.extend(v) } else { self.p.r7 = v } },
         8 => { let v: Vec<(i64,i64,)> = parse_rows(rows)?; if append { self.p.r8.extend(v) } else { self.p.r8 = v } },
            _ => return None,
         }
         Some(())
      }
      fn run(&mut self) { match &self.pool { Some(pl) => { let p = &mut self.p; pl.install(|| p.run()) }, None => self.p.run() } }
      fn run_here(&mut self) { self.p.run() }
      fn run_timeout(&mut self, k: usize) -> Option<bool> { let _ = k; None }
      fn dump(&self) -> String { vec![dump_rel(0, self.p.r0.iter().map(Row::render).collect()), dump_rel(1, self.p.r1.iter().map(Row::render).collect()), dump_rel(2, self.p.r2.iter().map(Row::render).collect()), dump_rel(3, self.p.r3.iter().map(Row::render).collect()), dump_rel(4, self.p.r4.iter().map(Row::render).collect()), dump_rel(5, self.p.r5.iter().map(Row::render).collect()), dump_rel(6, self.p.r6.iter().map(Row::render).collect()), dump_rel(7, self.p.r7.iter().map(Row::render).collect()), dump_rel(8, self.p.r8.iter().map(Row::render).collect())].join(" | ") }
      fn iters(&self) -> String { format!("iters {}", self.p.scc_iters.iter().map(|x| x.to_string()).collect::<Vec<_>>().join(" ")) }
   }
}

fn main() {
   common::main_loop(&[("a0", a0::make as common::Factory), ("a8", a8::make as common::Factory)]);
}
