#[path = "common.rs"]
mod common;
#[allow(unused, non_snake_case, clippy::all)]
pub mod tn0 {
   use ascent::*;
   use ascent::aggregators::*;
   use ascent::lattice::{Dual, set::Set};
   use crate::common::*;
   ascent! {
      pub struct Prog;
      relation r0(i64, i64, i64);
      relation r1(i64, i64, i64);
      relation r2(i64);
      relation r3(i64);
      relation r4(i64);
      relation r5(i64, i64);
      relation r6(i64, i64);
      #[ds(ascent_byods_rels::eqrel)] relation r7(i64, i64, i64);
      relation r8(i64, i64, i64);
      relation r9(i64, i64, i64);
      relation r10(i64, i64, i64);
      relation r11(i64, i64, i64);
      relation r12(i64);
      relation r13(i64, i64, i64);
      relation r14(i64, i64, i64);
      relation r15(i64, i64, i64);
      relation r16(i64);
      relation r17(i64, i64, i64);
      relation r18(i64, i64, i64);
      relation r19(i64, i64, i64);
      relation r20(i64, i64);
      relation r21(i64, i64, i64);
      relation r22(i64, i64, i64);
      relation r23(i64, i64, i64);
      relation r24(i64, i64, i64);
      relation r25(i64, i64);
      relation r26(i64, i64, i64);
      relation r27(i64, i64, i64);
      relation r28(i64, i64, i64);
      relation r29(i64, i64, i64);
      relation r30(i64, i64, i64);
      relation r31(i64, i64, i64);
      relation r32(i64, i64, i64);
      relation r33(i64, i64, i64);
      relation r34(i64, i64, i64);
      relation r35(i64, i64);
      relation r36(i64, i64, i64);
      r7(v9, v0, v1) <-- r0(v9, v0, v1);
      r8(v0, v1, v2) <-- r7(v0, v1, v2);
      r9(v0, v1, v2) <-- r4(v0), r7(v0, v1, v2);
      r10(1, v1, v2) <-- r7(1, v1, v2);
      r11(v0, v1, v2) <-- r7(v0, v1, v2), r12(v0);
      r13(v0, v1, v2) <-- r2(v1), r7(v0, v1, v2);
      r14(v0, 1, v2) <-- r7(v0, 1, v2);
      r15(v0, v1, v2) <-- r7(v0, v1, v2), r16(v1);
      r17(v0, v1, v2) <-- r4(v0), r2(v1), r7(v0, v1, v2);
      r18(2, 0, v2) <-- r7(2, 0, v2);
      r19(v0, v1, v2) <-- r20(v0, v1), r7(v0, v1, v2);
      r21(v0, v1, v2) <-- r7(v0, v1, v2), r20(v0, v1);
      r22(v0, v1, v2) <-- r4(v0), r3(v2), r7(v0, v1, v2);
      r23(2, v1, 2) <-- r7(2, v1, 2);
      r24(v0, v1, v2) <-- r25(v0, v2), r7(v0, v1, v2);
      r26(v0, v1, v2) <-- r7(v0, v1, v2), r25(v0, v2);
      r27(v0, v1, v2) <-- r2(v1), r3(v2), r7(v0, v1, v2);
      r28(v0, 2, 1) <-- r7(v0, 2, 1);
      r29(v0, v1, v2) <-- r4(v0), r2(v1), r3(v2), r7(v0, v1, v2);
      r30(1, 0, 2) <-- r7(1, 0, 2);
      r31(v0, v1, v2) <-- r32(v0, v1, v2), r7(v0, v1, v2);
      r33(v0, v1, v2) <-- r7(v0, v1, v2), r32(v0, v1, v2);
      r34(v1, v0, v3) <-- r7(v0, v1, v2) if ((*v0) <= 1) let v3 = ((*v1) + 0), if (v3 <= 6);
      r35(((*v5) + 1), ((*v2) + 1)) <-- r6(2, v0) if ((*v0) < 3), r7(3, v1, v2), r15(v3, v4, v5), if ((*v5) < 6), if ((*v2) < 6);
      r36(v1, v3, v1) <-- r7(v0, v1, v2) if ((*v0) < 2), r30(v1, v0, v3);
   }
   pub struct Inst { p: Prog, pool: Option<ascent::rayon::ThreadPool> }
   pub fn make(pool: Option<usize>) -> Box<dyn Driver> {
      let pool = pool.map(|n| ascent::rayon::ThreadPoolBuilder::new().num_threads(n).build().unwrap());
      let p = Default::default();
      Box::new(Inst { p, pool })
   }
   impl Driver for Inst {
      fn load(&mut self, rel: usize, rows: &[Sexp], append: bool) -> Option<()> {
         match rel {
         0 => { let v: Vec<(i64,i64,i64,)> = parse_rows(rows)?; if append { self.p.r0.extend(v) } else { self.p.r0 = v } },
         1 => { let v: Vec<(i64,i64,i64,)> = parse_rows(rows)?; if append { self.p.r1.extend(v) } else { self.p.r1 = v } },
         2 => { let v: Vec<(i64,)> = parse_rows(rows)?; if append { self.p.r2.extend(v) } else { self.p.r2 = v } },
         3 => { let v: Vec<(i64,)> = parse_rows(rows)?; if append { self.p.r3.extend(v) } else { self.p.r3 = v } },
         4 => { let v: Vec<(i64,)> = parse_rows(rows)?; if append { self.p.r4.extend(v) } else { self.p.r4 = v } },
         5 => { let v: Vec<(i64,i64,)> = parse_rows(rows)?; if append { self.p.r5.extend(v) } else { self.p.r5 = v } },
         6 => { let v: Vec<(i64,i64,)> = parse_rows(rows)?; if append { self.p.r6.extend(v) } else { self.p.r6 = v } },
         7 => return None,
         8 => { let v: Vec<(i64,i64,i64,)> = parse_rows(rows)?; if append { self.p.r8.extend(v) } else { self.p.r8 = v } },
         9 => { let v: Vec<(i64,i64,i64,)> = parse_rows(rows)?; if append { self.p.r9.extend(v) } else { self.p.r9 = v } },
         10 => { let v: Vec<(i64,i64,i64,)> = parse_rows(rows)?; if append { self.p.r10.extend(v) } else { self.p.r10 = v } },
         11 => { let v: Vec<(i64,i64,i64,)> = parse_rows(rows)?; if append { self.p.r11.extend(v) } else { self.p.r11 = v } },
         12 => { let v: Vec<(i64,)> = parse_rows(rows)?; if append { self.p.r12.extend(v) } else { self.p.r12 = v } },
         13 => { let v: Vec<(i64,i64,i64,)> = parse_rows(rows)?; if append { self.p.r13.extend(v) } else { self.p.r13 = v } },
         14 => { let v: Vec<(i64,i64,i64,)> = parse_rows(rows)?; if append { self.p.r14.extend(v) } else { self.p.r14 = v } },
         15 => { let v: Vec<(i64,i64,i64,)> = parse_rows(rows)?; if append { self.p.r15.extend(v) } else { self.p.r15 = v } },
         16 => { let v: Vec<(i64,)> = parse_rows(rows)?; if append { self.p.r16.extend(v) } else { self.p.r16 = v } },
         17 => { let v: Vec<(i64,i64,i64,)> = parse_rows(rows)?; if append { self.p.r17.extend(v) } else { self.p.r17 = v } },
         18 => { let v: Vec<(i64,i64,i64,)> = parse_rows(rows)?; if append { self.p.r18.extend(v) } else { self.p.r18 = v } },
         19 => { let v: Vec<(i64,i64,i64,)> = parse_rows(rows)?; if append { self.p.r19.extend(v) } else { self.p.r19 = v } },
         20 => { let v: Vec<(i64,i64,)> = parse_rows(rows)?; if append { self.p.r20.extend(v) } else { self.p.r20 = v } },
         21 => { let v: Vec<(i64,i64,i64,)> = parse_rows(rows)?; if append { self.p.r21.extend(v) } else { self.p.r21 = v } },
         22 => { let v: Vec<(i64,i64,i64,)> = parse_rows(rows)?; if append { self.p.r22.extend(v) } else { self.p.r22 = v } },
         23 => { let v: Vec<(i64,i64,i64,)> = parse_rows(rows)?; if append { self.p.r23.extend(v) } else { self.p.r23 = v } },
         24 => { let v: Vec<(i64,i64,i64,)> = parse_rows(rows)?; if append { self.p.r24.extend(v) } else { self.p.r24 = v } },
         25 => { let v: Vec<(i64,i64,)> = parse_rows(rows)?; if append { self.p.r25.extend(v) } else { self.p.r25 = v } },
         26 => { let v: Vec<(i64,i64,i64,)> = parse_rows(rows)?; if append { self.p.r26.extend(v) } else { self.p.r26 = v } },
         27 => { let v: Vec<(i64,i64,i64,)> = parse_rows(rows)?; if append { self.p.r27.extend(v) } else { self.p.r27 = v } },
         28 => { let v: Vec<(i64,i64,i64,)> = parse_rows(rows)?; if append { self.p.r28.extend(v) } else { self.p.r28 = v } },
         29 => { let v: Vec<(i64,i64,i64,)> = parse_rows(rows)?; if append { self.p.r29.extend(v) } else { self.p.r29 = v } },
         30 => { let v: Vec<(i64,i64,i64,)> = parse_rows(rows)?; if append { self.p.r30.extend(v) } else { self.p.r30 = v } },
         31 => { let v: Vec<(i64,i64,i64,)> = parse_rows(rows)?; if append { self.p.r31.extend(v) } else { self.p.r31 = v } },
         32 => { let v: Vec<(i64,i64,i64,)> = parse_rows(rows)?; if append { self.p.r32.extend(v) } else { self.p.r32 = v } },
         33 => { let v: Vec<(i64,i64,i64,)> = parse_rows(rows)?; if append { self.p.r33.extend(v) } else { self.p.r33 = v } },
         34 => { let v: Vec<(i64,i64,i64,)> = parse_rows(rows)?; if append { self.p.r34.extend(v) } else { self.p.r34 = v } },
         35 => { let v: Vec<(i64,i64,)> = parse_rows(rows)?; if append { self.p.r35.extend(v) } else { self.p.r35 = v } },
         36 => { let v: Vec<(i64,i64,i64,)> = parse_rows(rows)?; if append { self.p.r36.extend(v) } else { self.p.r36 = v } },
            _ => return None,
         }
         Some(())
      }
      fn run(&mut self) { self.p.run() }
      fn run_here(&mut self) { self.p.run() }
      fn run_timeout(&mut self, k: usize) -> Option<bool> { let _ = k; None }
      fn dump(&self) -> String { vec![dump_rel(0, self.p.r0.iter().map(Row::render).collect()), dump_rel(1, self.p.r1.iter().map(Row::render).collect()), dump_rel(2, self.p.r2.iter().map(Row::render).collect()), dump_rel(3, self.p.r3.iter().map(Row::render).collect()), dump_rel(4, self.p.r4.iter().map(Row::render).collect()), dump_rel(5, self.p.r5.iter().map(Row::render).collect()), dump_rel(6, self.p.r6.iter().map(Row::render).collect()), dump_rel(7, self.p.r7.iter().map(Row::render).collect()), dump_rel(8, self.p.r8.iter().map(Row::render).collect()), dump_rel(9, self.p.r9.iter().map(Row::render).collect()), dump_rel(10, self.p.r10.iter().map(Row::render).collect()), dump_rel(11, self.p.r11.iter().map(Row::render).collect()), dump_rel(12, self.p.r12.iter().map(Row::render).collect()), dump_rel(13, self.p.r13.iter().map(Row::render).collect()), dump_rel(14, self.p.r14.iter().map(Row::render).collect()), dump_rel(15, self.p.r15.iter().map(Row::render).collect()), dump_rel(16, self.p.r16.iter().map(Row::render).collect()), dump_rel(17, self.p.r17.iter().map(Row::render).collect()), dump_rel(18, self.p.r18.iter().map(Row::render).collect()), dump_rel(19, self.p.r19.iter().map(Row::render).collect()), dump_rel(20, self.p.r20.iter().map(Row::render).collect()), dump_rel(21, self.p.r21.iter().map(Row::render).collect()), dump_rel(22, self.p.r22.iter().map(Row::render).collect()), dump_rel(23, self.p.r23.iter().map(Row::render).collect()), dump_rel(24, self.p.r24.iter().map(Row::render).collect()), dump_rel(25, self.p.r25.iter().map(Row::render).collect()), dump_rel(26, self.p.r26.iter().map(Row::render).collect()), dump_rel(27, self.p.r27.iter().map(Row::render).collect()), dump_rel(28, self.p.r28.iter().map(Row::render).collect()), dump_rel(29, self.p.r29.iter().map(Row::render).collect()), dump_rel(30, self.p.r30.iter().map(Row::render).collect()), dump_rel(31, self.p.r31.iter().map(Row::render).collect()), dump_rel(32, self.p.r32.iter().map(Row::render).collect()), dump_rel(33, self.p.r33.iter().map(Row::render).collect()), dump_rel(34, self.p.r34.iter().map(Row::render).collect()), dump_rel(35, self.p.r35.iter().map(Row::render).collect()), dump_rel(36, self.p.r36.iter().map(Row::render).collect())].join(" | ") }
      fn iters(&self) -> String { format!("iters {}", self.p.scc_iters.iter().map(|x| x.to_string()).collect::<Vec<_>>().join(" ")) }
   }
}

#[allow(unused, non_snake_case, clippy::all)]
pub mod bn2 {
   use ascent::*;
   use ascent::aggregators::*;
   use ascent::lattice::{Dual, set::Set};
   use crate::common::*;
   ascent! {
      pub struct Prog;
      relation r0(i64, i64);
      relation r1(i64, i64);
      relation r2(i64);
      relation r3(i64);
      relation r4(i64);
      #[ds(ascent_byods_rels::eqrel)] relation r5(i64, i64);
      relation r6(i64, i64);
      relation r7(i64, i64);
      relation r8(i64, i64);
      relation r9(i64, i64);
      relation r10(i64);
      relation r11(i64, i64);
      relation r12(i64, i64);
      relation r13(i64, i64);
      relation r14(i64);
      relation r15(i64, i64);
      relation r16(i64, i64);
      relation r17(i64, i64);
      relation r18(i64, i64);
      relation r19(i64, i64);
      relation r20(i64);
      relation r21(i64, i64);
      r5(v0, v1) <-- r0(v0, v1);
      r5(v0, v2) <-- r5(v0, v1), r1(v1, v2);
      r6(v0, v1) <-- r5(v0, v1);
      r7(v0, v1) <-- r2(v0), r5(v0, v1);
      r8(0, v1) <-- r5(0, v1);
      r9(v0, v1) <-- r5(v0, v1), r10(v0);
      r11(v0, v1) <-- r3(v1), r5(v0, v1);
      r12(v0, 0) <-- r5(v0, 0);
      r13(v0, v1) <-- r5(v0, v1), r14(v1);
      r15(v0, v1) <-- r2(v0), r3(v1), r5(v0, v1);
      r16(2, 2) <-- r5(2, 2);
      r17(v0, v1) <-- r18(v0, v1), r5(v0, v1);
      r19(v0, v1) <-- r5(v0, v1), r18(v0, v1);
      r20(v0) <-- r5(1, 3), r15(v0, 2);
      r21(v3, v3) <-- r5(v0, v1), r15(v2, v3);
   }
   pub struct Inst { p: Prog, pool: Option<ascent::rayon::ThreadPool> }
   pub fn make(pool: Option<usize>) -> Box<dyn Driver> {
      let pool = pool.map(|n| ascent::rayon::ThreadPoolBuilder::new().num_threads(n).build().unwrap());
      let p = Default::default();
      Box::new(Inst { p, pool })
   }
   impl Driver for Inst {
      fn load(&mut self, rel: usize, rows: &[Sexp], append: bool) -> Option<()> {
         match rel {
         0 => { let v: Vec<(i64,i64,)> = parse_rows(rows)?; if append { self.p.r0.extend(v) } else { self.p.r0 = v } },
         1 => { let v: Vec<(i64,i64,)> = parse_rows(rows)?; if append { self.p.r1.extend(v) } else { self.p.r1 = v } },
         2 => { let v: Vec<(i64,)> = parse_rows(rows)?; if append { self.p.r2.extend(v) } else { self.p.r2 = v } },
         3 => { let v: Vec<(i64,)> = parse_rows(rows)?; if append { self.p.r3.extend(v) } else { self.p.r3 = v } },
         4 => { let v: Vec<(i64,)> = parse_rows(rows)?; if append { self.p.r4.extend(v) } else { self.p.r4 = v } },
         5 => return None,
         6 => { let v: Vec<(i64,i64,)> = parse_rows(rows)?; if append { self.p.r6.extend(v) } else { self.p.r6 = v } },
         7 => { let v: Vec<(i64,i64,)> = parse_rows(rows)?; if append { self.p.r7.extend(v) } else { self.p.r7 = v } },
         8 => { let v: Vec<(i64,i64,)> = parse_rows(rows)?; if append { self.p.r8.extend(v) } else { self.p.r8 = v } },
         9 => { let v: Vec<(i64,i64,)> = parse_rows(rows)?; if append { self.p.r9.extend(v) } else { self.p.r9 = v } },
         10 => { let v: Vec<(i64,)> = parse_rows(rows)?; if append { self.p.r10.extend(v) } else { self.p.r10 = v } },
         11 => { let v: Vec<(i64,i64,)> = parse_rows(rows)?; if append { self.p.r11.extend(v) } else { self.p.r11 = v } },
         12 => { let v: Vec<(i64,i64,)> = parse_rows(rows)?; if append { self.p.r12.extend(v) } else { self.p.r12 = v } },
         13 => { let v: Vec<(i64,i64,)> = parse_rows(rows)?; if append { self.p.r13.extend(v) } else { self.p.r13 = v } },
         14 => { let v: Vec<(i64,)> = parse_rows(rows)?; if append { self.p.r14.extend(v) } else { self.p.r14 = v } },
         15 => { let v: Vec<(i64,i64,)> = parse_rows(rows)?; if append { self.p.r15.extend(v) } else { self.p.r15 = v } },
         16 => { let v: Vec<(i64,i64,)> = parse_rows(rows)?; if append { self.p.r16.extend(v) } else { self.p.r16 = v } },
         17 => { let v: Vec<(i64,i64,)> = parse_rows(rows)?; if append { self.p.r17.extend(v) } else { self.p.r17 = v } },
         18 => { let v: Vec<(i64,i64,)> = parse_rows(rows)?; if append { self.p.r18.extend(v) } else { self.p.r18 = v } },
         19 => { let v: Vec<(i64,i64,)> = parse_rows(rows)?; if append { self.p.r19.extend(v) } else { self.p.r19 = v } },
         20 => { let v: Vec<(i64,)> = parse_rows(rows)?; if append { self.p.r20.extend(v) } else { self.p.r20 = v } },
         21 => { let v: Vec<(i64,i64,)> = parse_rows(rows)?; if append { self.p.r21.extend(v) } else { self.p.r21 = v } },
            _ => return None,
         }
         Some(())
      }
      fn run(&mut self) { self.p.run() }
      fn run_here(&mut self) { self.p.run() }
      fn run_timeout(&mut self, k: usize) -> Option<bool> { let _ = k; None }
      fn dump(&self) -> String { vec![dump_rel(0, self.p.r0.iter().map(Row::render).collect()), dump_rel(1, self.p.r1.iter().map(Row::render).collect()), dump_rel(2, self.p.r2.iter().map(Row::render).collect()), dump_rel(3, self.p.r3.iter().map(Row::render).collect()), dump_rel(4, self.p.r4.iter().map(Row::render).collect()), dump_rel(5, self.p.r5.iter().map(Row::render).collect()), dump_rel(6, self.p.r6.iter().map(Row::render).collect()), dump_rel(7, self.p.r7.iter().map(Row::render).collect()), dump_rel(8, self.p.r8.iter().map(Row::render).collect()), dump_rel(9, self.p.r9.iter().map(Row::render).collect()), dump_rel(10, self.p.r10.iter().map(Row::render).collect()), dump_rel(11, self.p.r11.iter().map(Row::render).collect()), dump_rel(12, self.p.r12.iter().map(Row::render).collect()), dump_rel(13, self.p.r13.iter().map(Row::render).collect()), dump_rel(14, self.p.r14.iter().map(Row::render).collect()), dump_rel(15, self.p.r15.iter().map(Row::render).collect()), dump_rel(16, self.p.r16.iter().map(Row::render).collect()), dump_rel(17, self.p.r17.iter().map(Row::render).collect()), dump_rel(18, self.p.r18.iter().map(Row::render).collect()), dump_rel(19, self.p.r19.iter().map(Row::render).collect()), dump_rel(20, self.p.r20.iter().map(Row::render).collect()), dump_rel(21, self.p.r21.iter().map(Row::render).collect())].join(" | ") }
      fn iters(&self) -> String { format!("iters {}", self.p.scc_iters.iter().map(|x| x.to_string()).collect::<Vec<_>>().join(" ")) }
   }
}

#[allow(unused, non_snake_case, clippy::all)]
pub mod br3 {
   use ascent::*;
   use ascent::aggregators::*;
   use ascent::lattice::{Dual, set::Set};
   use crate::common::*;
   ascent! {
      pub struct Prog;
      relation r0(i64, i64);
      relation r1(i64, i64);
      relation r2(i64);
      relation r3(i64);
      relation r4(i64);
      #[ds(ascent_byods_rels::eqrel)] relation r5(i64, i64);
      relation r6(i64, i64);
      relation r7(i64, i64);
      relation r8(i64, i64);
      relation r9(i64, i64);
      relation r10(i64, i64);
      relation r11(i64, i64);
      relation r12(i64, i64);
      relation r13(i64);
      relation r14(i64, i64);
      relation r15(i64, i64);
      relation r16(i64, i64);
      relation r17(i64, i64);
      relation r18(i64, i64);
      relation r19(i64, i64);
      relation r20(i64);
      relation r21(i64, i64);
      relation r22(i64, i64);
      relation r23(i64, i64);
      relation r24(i64, i64);
      relation r25(i64, i64);
      relation r26(i64, i64);
      relation r27(i64, i64);
      relation r28(i64, i64);
      relation r29(i64, i64);
      relation r30(i64, i64);
      relation r31(i64);
      relation r32(i64, i64);
      relation r33(i64, i64);
      r5(v0, v1) <-- r4(v0), r0(v0, v1);
      r4(v0) <-- r4(v1), r5(v0, v1);
      r6(v0, v1) <-- r5(v0, v1);
      r5(v0, v1) <-- r6(v0, v1);
      r7(v0, v1) <-- r5(v0, v1);
      r8(v0, v1) <-- r2(v0), r5(v0, v1);
      r5(v0, v1) <-- r8(v0, v1);
      r9(v0, v1) <-- r2(v0), r5(v0, v1);
      r10(1, v1) <-- r5(1, v1);
      r5(v0, v1) <-- r10(v0, v1);
      r11(3, v1) <-- r5(3, v1);
      r12(v0, v1) <-- r5(v0, v1), r13(v0);
      r5(v0, v1) <-- r12(v0, v1);
      r14(v0, v1) <-- r5(v0, v1), r13(v0);
      r15(v0, v1) <-- r3(v1), r5(v0, v1);
      r5(v0, v1) <-- r15(v0, v1);
      r16(v0, v1) <-- r3(v1), r5(v0, v1);
      r17(v0, 0) <-- r5(v0, 0);
      r5(v0, v1) <-- r17(v0, v1);
      r18(v0, 0) <-- r5(v0, 0);
      r19(v0, v1) <-- r5(v0, v1), r20(v1);
      r5(v0, v1) <-- r19(v0, v1);
      r21(v0, v1) <-- r5(v0, v1), r20(v1);
      r22(v0, v1) <-- r2(v0), r3(v1), r5(v0, v1);
      r5(v0, v1) <-- r22(v0, v1);
      r23(v0, v1) <-- r2(v0), r3(v1), r5(v0, v1);
      r24(1, 3) <-- r5(1, 3);
      r5(v0, v1) <-- r24(v0, v1);
      r25(2, 3) <-- r5(2, 3);
      r26(v0, v1) <-- r27(v0, v1), r5(v0, v1);
      r5(v0, v1) <-- r26(v0, v1);
      r28(v0, v1) <-- r27(v0, v1), r5(v0, v1);
      r29(v0, v1) <-- r5(v0, v1), r27(v0, v1);
      r5(v0, v1) <-- r29(v0, v1);
      r30(v0, v1) <-- r5(v0, v1), r27(v0, v1);
      r31(v0) <-- r20(v0), r5(v0, v1) if ((*v0) != 2);
      r32(v0, v0) <-- r5(v0, 1);
      r5(v0, v1) <-- r32(v0, v1);
      r5(v0, v0) <-- r5(0, v0);
   }
   pub struct Inst { p: Prog, pool: Option<ascent::rayon::ThreadPool> }
   pub fn make(pool: Option<usize>) -> Box<dyn Driver> {
      let pool = pool.map(|n| ascent::rayon::ThreadPoolBuilder::new().num_threads(n).build().unwrap());
      let p = Default::default();
      Box::new(Inst { p, pool })
   }
   impl Driver for Inst {
      fn load(&mut self, rel: usize, rows: &[Sexp], append: bool) -> Option<()> {
         match rel {
         0 => { let v: Vec<(i64,i64,)> = parse_rows(rows)?; if append { self.p.r0.extend(v) } else { self.p.r0 = v } },
         1 => { let v: Vec<(i64,i64,)> = parse_rows(rows)?; if append { self.p.r1.extend(v) } else { self.p.r1 = v } },
         2 => { let v: Vec<(i64,)> = parse_rows(rows)?; if append { self.p.r2.extend(v) } else { self.p.r2 = v } },
         3 => { let v: Vec<(i64,)> = parse_rows(rows)?; if append { self.p.r3.extend(v) } else { self.p.r3 = v } },
         4 => { let v: Vec<(i64,)> = parse_rows(rows)?; if append { self.p.r4.extend(v) } else { self.p.r4 = v } },
         5 => return None,
         6 => { let v: Vec<(i64,i64,)> = parse_rows(rows)?; if append { self.p.r6.extend(v) } else { self.p.r6 = v } },
         7 => { let v: Vec<(i64,i64,)> = parse_rows(rows)?; if append { self.p.r7.extend(v) } else { self.p.r7 = v } },
         8 => { let v: Vec<(i64,i64,)> = parse_rows(rows)?; if append { self.p.r8.extend(v) } else { self.p.r8 = v } },
         9 => { let v: Vec<(i64,i64,)> = parse_rows(rows)?; if append { self.p.r9.extend(v) } else { self.p.r9 = v } },
         10 => { let v: Vec<(i64,i64,)> = parse_rows(rows)?; if append { self.p.r10.extend(v) } else { self.p.r10 = v } },
         11 => { let v: Vec<(i64,i64,)> = parse_rows(rows)?; if append { self.p.r11.extend(v) } else { self.p.r11 = v } },
         12 => { let v: Vec<(i64,i64,)> = parse_rows(rows)?; if append { self.p.r12.extend(v) } else { self.p.r12 = v } },
         13 => { let v: Vec<(i64,)> = parse_rows(rows)?; if append { self.p.r13.extend(v) } else { self.p.r13 = v } },
         14 => { let v: Vec<(i64,i64,)> = parse_rows(rows)?; if append { self.p.r14.extend(v) } else { self.p.r14 = v } },
         15 => { let v: Vec<(i64,i64,)> = parse_rows(rows)?; if append { self.p.r15.extend(v) } else { self.p.r15 = v } },
         16 => { let v: Vec<(i64,i64,)> = parse_rows(rows)?; if append { self.p.r16.extend(v) } else { self.p.r16 = v } },
         17 => { let v: Vec<(i64,i64,)> = parse_rows(rows)?; if append { self.p.r17.extend(v) } else { self.p.r17 = v } },
         18 => { let v: Vec<(i64,i64,)> = parse_rows(rows)?; if append { self.p.r18.extend(v) } else { self.p.r18 = v } },
         19 => { let v: Vec<(i64,i64,)> = parse_rows(rows)?; if append { self.p.r19.extend(v) } else { self.p.r19 = v } },
         20 => { let v: Vec<(i64,)> = parse_rows(rows)?; if append { self.p.r20.extend(v) } else { self.p.r20 = v } },
         21 => { let v: Vec<(i64,i64,)> = parse_rows(rows)?; if append { self.p.r21.extend(v) } else { self.p.r21 = v } },
         22 => { let v: Vec<(i64,i64,)> = parse_rows(rows)?; if append { self.p.r22.extend(v) } else { self.p.r22 = v } },
         23 => { let v: Vec<(i64,i64,)> = parse_rows(rows)?; if append { self.p.r23.extend(v) } else { self.p.r23 = v } },
         24 => { let v: Vec<(i64,i64,)> = parse_rows(rows)?; if append { self.p.r24.extend(v) } else { self.p.r24 = v } },
         25 => { let v: Vec<(i64,i64,)> = parse_rows(rows)?; if append { self.p.r25.extend(v) } else { self.p.r25 = v } },
         26 => { let v: Vec<(i64,i64,)> = parse_rows(rows)?; if append { self.p.r26.extend(v) } else { self.p.r26 = v } },
         27 => { let v: Vec<(i64,i64,)> = parse_rows(rows)?; if append { self.p.r27.extend(v) } else { self.p.r27 = v } },
         28 => { let v: Vec<(i64,i64,)> = parse_rows(rows)?; if append { self.p.r28.extend(v) } else { self.p.r28 = v } },
         29 => { let v: Vec<(i64,i64,)> = parse_rows(rows)?; if append { self.p.r29.extend(v) } else { self.p.r29 = v } },
         30 => { let v: Vec<(i64,i64,)> = parse_rows(rows)?; if append { self.p.r30.extend(v) } else { self.p.r30 = v } },
         31 => { let v: Vec<(i64,)> = parse_rows(rows)?; if append { self.p.r31.extend(v) } else { self.p.r31 = v } },
         32 => { let v: Vec<(i64,i64,)> = parse_rows(rows)?; if append { self.p.r32.extend(v) } else { self.p.r32 = v } },
         33 => { let v: Vec<(i64,i64,)> = parse_rows(rows)?; if append { self.p.r33.extend(v) } else { self.p.r33 = v } },
            _ => return None,
         }
         Some(())
      }
      fn run(&mut self) { self.p.run() }
      fn run_here(&mut self) { self.p.run() }
      fn run_timeout(&mut self, k: usize) -> Option<bool> { let _ = k; None }
      fn dump(&self) -> String { vec![dump_rel(0, self.p.r0.iter().map(Row::render).collect()), dump_rel(1, self.p.r1.iter().map(Row::render).collect()), dump_rel(2, self.p.r2.iter().map(Row::render).collect()), dump_rel(3, self.p.r3.iter().map(Row::render).collect()), dump_rel(4, self.p.r4.iter().map(Row::render).collect()), dump_rel(5, self.p.r5.iter().map(Row::render).collect()), dump_rel(6, self.p.r6.iter().map(Row::render).collect()), dump_rel(7, self.p.r7.iter().map(Row::render).collect()), dump_rel(8, self.p.r8.iter().map(Row::render).collect()), dump_rel(9, self.p.r9.iter().map(Row::render).collect()), dump_rel(10, self.p.r10.iter().map(Row::render).collect()), dump_rel(11, self.p.r11.iter().map(Row::render).collect()), dump_rel(12, self.p.r12.iter().map(Row::render).collect()), dump_rel(13, self.p.r13.iter().map(Row::render).collect()), dump_rel(14, self.p.r14.iter().map(Row::render).collect()), dump_rel(15, self.p.r15.iter().map(Row::render).collect()), dump_rel(16, self.p.r16.iter().map(Row::render).collect()), dump_rel(17, self.p.r17.iter().map(Row::render).collect()), dump_rel(18, self.p.r18.iter().map(Row::render).collect()), dump_rel(19, self.p.r19.iter().map(Row::render).collect()), dump_rel(20, self.p.r20.iter().map(Row::render).collect()), dump_rel(21, self.p.r21.iter().map(Row::render).collect()), dump_rel(22, self.p.r22.iter().map(Row::render).collect()), dump_rel(23, self.p.r23.iter().map(Row::render).collect()), dump_rel(24, self.p.r24.iter().map(Row::render).collect()), dump_rel(25, self.p.r25.iter().map(Row::render).collect()), dump_rel(26, self.p.r26.iter().map(Row::render).collect()), dump_rel(27, self.p.r27.iter().map(Row::render).collect()), dump_rel(28, self.p.r28.iter().map(Row::render).collect()), dump_rel(29, self.p.r29.iter().map(Row::render).collect()), dump_rel(30, self.p.r30.iter().map(Row::render).collect()), dump_rel(31, self.p.r31.iter().map(Row::render).collect()), dump_rel(32, self.p.r32.iter().map(Row::render).collect()), dump_rel(33, self.p.r33.iter().map(Row::render).collect())].join(" | ") }
      fn iters(&self) -> String { format!("iters {}", self.p.scc_iters.iter().map(|x| x.to_string()).collect::<Vec<_>>().join(" ")) }
   }
}

#[allow(unused, non_snake_case, clippy::all)]
pub mod tn4 {
   use ascent::*;
   use ascent::aggregators::*;
   use ascent::lattice::{Dual, set::Set};
   use crate::common::*;
   ascent! {
      pub struct Prog;
      relation r0(i64, i64, i64);
      relation r1(i64, i64, i64);
      relation r2(i64);
      relation r3(i64);
      relation r4(i64);
      relation r5(i64, i64);
      relation r6(i64, i64);
      #[ds(ascent_byods_rels::eqrel)] relation r7(i64, i64, i64);
      relation r8(i64, i64, i64);
      relation r9(i64, i64, i64);
      relation r10(i64, i64, i64);
      relation r11(i64, i64, i64);
      relation r12(i64);
      relation r13(i64, i64, i64);
      relation r14(i64, i64, i64);
      relation r15(i64, i64, i64);
      relation r16(i64);
      relation r17(i64, i64, i64);
      relation r18(i64, i64, i64);
      relation r19(i64, i64, i64);
      relation r20(i64, i64);
      relation r21(i64, i64, i64);
      relation r22(i64, i64, i64);
      relation r23(i64, i64, i64);
      relation r24(i64, i64, i64);
      relation r25(i64, i64);
      relation r26(i64, i64, i64);
      relation r27(i64, i64, i64);
      relation r28(i64, i64, i64);
      relation r29(i64, i64, i64);
      relation r30(i64, i64, i64);
      relation r31(i64, i64, i64);
      relation r32(i64, i64, i64);
      relation r33(i64, i64, i64);
      relation r34(i64, i64);
      relation r35(i64, i64);
      r7(v9, v0, v1) <-- r0(v9, v0, v1);
      r8(v0, v1, v2) <-- r7(v0, v1, v2);
      r9(v0, v1, v2) <-- r4(v0), r7(v0, v1, v2);
      r10(0, v1, v2) <-- r7(0, v1, v2);
      r11(v0, v1, v2) <-- r7(v0, v1, v2), r12(v0);
      r13(v0, v1, v2) <-- r2(v1), r7(v0, v1, v2);
      r14(v0, 0, v2) <-- r7(v0, 0, v2);
      r15(v0, v1, v2) <-- r7(v0, v1, v2), r16(v1);
      r17(v0, v1, v2) <-- r4(v0), r2(v1), r7(v0, v1, v2);
      r18(1, 0, v2) <-- r7(1, 0, v2);
      r19(v0, v1, v2) <-- r20(v0, v1), r7(v0, v1, v2);
      r21(v0, v1, v2) <-- r7(v0, v1, v2), r20(v0, v1);
      r22(v0, v1, v2) <-- r4(v0), r3(v2), r7(v0, v1, v2);
      r23(2, v1, 2) <-- r7(2, v1, 2);
      r24(v0, v1, v2) <-- r25(v0, v2), r7(v0, v1, v2);
      r26(v0, v1, v2) <-- r7(v0, v1, v2), r25(v0, v2);
      r27(v0, v1, v2) <-- r2(v1), r3(v2), r7(v0, v1, v2);
      r28(v0, 0, 2) <-- r7(v0, 0, 2);
      r29(v0, v1, v2) <-- r4(v0), r2(v1), r3(v2), r7(v0, v1, v2);
      r30(0, 0, 0) <-- r7(0, 0, 0);
      r31(v0, v1, v2) <-- r32(v0, v1, v2), r7(v0, v1, v2);
      r33(v0, v1, v2) <-- r7(v0, v1, v2), r32(v0, v1, v2);
      r34(v1, (v1 + 1)) <-- r18(0, v0, 0) if ((*v0) < 6) let v1 = ((*v0) + 0), r7(v0, v2, v0) if ((*v0) != 3), r13(v2, v3, ((*v0) + 1)), if (v1 <= 6), if (v1 < 6);
      r35(v0, v0) <-- r7(0, 2, v0);
   }
   pub struct Inst { p: Prog, pool: Option<ascent::rayon::ThreadPool> }
   pub fn make(pool: Option<usize>) -> Box<dyn Driver> {
      let pool = pool.map(|n| ascent::rayon::ThreadPoolBuilder::new().num_threads(n).build().unwrap());
      let p = Default::default();
      Box::new(Inst { p, pool })
   }
   impl Driver for Inst {
      fn load(&mut self, rel: usize, rows: &[Sexp], append: bool) -> Option<()> {
         match rel {
         0 => { let v: Vec<(i64,i64,i64,)> = parse_rows(rows)?; if append { self.p.r0.extend(v) } else { self.p.r0 = v } },
         1 => { let v: Vec<(i64,i64,i64,)> = parse_rows(rows)?; if append { self.p.r1.extend(v) } else { self.p.r1 = v } },
         2 => { let v: Vec<(i64,)> = parse_rows(rows)?; if append { self.p.r2.extend(v) } else { self.p.r2 = v } },
         3 => { let v: Vec<(i64,)> = parse_rows(rows)?; if append { self.p.r3.extend(v) } else { self.p.r3 = v } },
         4 => { let v: Vec<(i64,)> = parse_rows(rows)?; if append { self.p.r4.extend(v) } else { self.p.r4 = v } },
         5 => { let v: Vec<(i64,i64,)> = parse_rows(rows)?; if append { self.p.r5.extend(v) } else { self.p.r5 = v } },
         6 => { let v: Vec<(i64,i64,)> = parse_rows(rows)?; if append { self.p.r6.extend(v) } else { self.p.r6 = v } },
         7 => return None,
         8 => { let v: Vec<(i64,i64,i64,)> = parse_rows(rows)?; if append { self.p.r8.extend(v) } else { self.p.r8 = v } },
         9 => { let v: Vec<(i64,i64,i64,)> = parse_rows(rows)?; if append { self.p.r9.extend(v) } else { self.p.r9 = v } },
         10 => { let v: Vec<(i64,i64,i64,)> = parse_rows(rows)?; if append { self.p.r10.extend(v) } else { self.p.r10 = v } },
         11 => { let v: Vec<(i64,i64,i64,)> = parse_rows(rows)?; if append { self.p.r11.extend(v) } else { self.p.r11 = v } },
         12 => { let v: Vec<(i64,)> = parse_rows(rows)?; if append { self.p.r12.extend(v) } else { self.p.r12 = v } },
         13 => { let v: Vec<(i64,i64,i64,)> = parse_rows(rows)?; if append { self.p.r13.extend(v) } else { self.p.r13 = v } },
         14 => { let v: Vec<(i64,i64,i64,)> = parse_rows(rows)?; if append { self.p.r14.extend(v) } else { self.p.r14 = v } },
         15 => { let v: Vec<(i64,i64,i64,)> = parse_rows(rows)?; if append { self.p.r15.extend(v) } else { self.p.r15 = v } },
         16 => { let v: Vec<(i64,)> = parse_rows(rows)?; if append { self.p.r16.extend(v) } else { self.p.r16 = v } },
         17 => { let v: Vec<(i64,i64,i64,)> = parse_rows(rows)?; if append { self.p.r17.extend(v) } else { self.p.r17 = v } },
         18 => { let v: Vec<(i64,i64,i64,)> = parse_rows(rows)?; if append { self.p.r18.extend(v) } else { self.p.r18 = v } },
         19 => { let v: Vec<(i64,i64,i64,)> = parse_rows(rows)?; if append { self.p.r19.extend(v) } else { self.p.r19 = v } },
         20 => { let v: Vec<(i64,i64,)> = parse_rows(rows)?; if append { self.p.r20.extend(v) } else { self.p.r20 = v } },
         21 => { let v: Vec<(i64,i64,i64,)> = parse_rows(rows)?; if append { self.p.r21.extend(v) } else { self.p.r21 = v } },
         22 => { let v: Vec<(i64,i64,i64,)> = parse_rows(rows)?; if append { self.p.r22.extend(v) } else { self.p.r22 = v } },
         23 => { let v: Vec<(i64,i64,i64,)> = parse_rows(rows)?; if append { self.p.r23.extend(v) } else { self.p.r23 = v } },
         24 => { let v: Vec<(i64,i64,i64,)> = parse_rows(rows)?; if append { self.p.r24.extend(v) } else { self.p.r24 = v } },
         25 => { let v: Vec<(i64,i64,)> = parse_rows(rows)?; if append { self.p.r25.extend(v) } else { self.p.r25 = v } },
         26 => { let v: Vec<(i64,i64,i64,)> = parse_rows(rows)?; if append { self.p.r26.extend(v) } else { self.p.r26 = v } },
         27 => { let v: Vec<(i64,i64,i64,)> = parse_rows(rows)?; if append { self.p.r27.extend(v) } else { self.p.r27 = v } },
         28 => { let v: Vec<(i64,i64,i64,)> = parse_rows(rows)?; if append { self.p.r28.extend(v) } else { self.p.r28 = v } },
         29 => { let v: Vec<(i64,i64,i64,)> = parse_rows(rows)?; if append { self.p.r29.extend(v) } else { self.p.r29 = v } },
         30 => { let v: Vec<(i64,i64,i64,)> = parse_rows(rows)?; if append { self.p.r30.extend(v) } else { self.p.r30 = v } },
         31 => { let v: Vec<(i64,i64,i64,)> = parse_rows(rows)?; if append { self.p.r31.extend(v) } else { self.p.r31 = v } },
         32 => { let v: Vec<(i64,i64,i64,)> = parse_rows(rows)?; if append { self.p.r32.extend(v) } else { self.p.r32 = v } },
         33 => { let v: Vec<(i64,i64,i64,)> = parse_rows(rows)?; if append { self.p.r33.extend(v) } else { self.p.r33 = v } },
         34 => { let v: Vec<(i64,i64,)> = parse_rows(rows)?; if append { self.p.r34.extend(v) } else { self.p.r34 = v } },
         35 => { let v: Vec<(i64,i64,)> = parse_rows(rows)?; if append { self.p.r35.extend(v) } else { self.p.r35 = v } },
            _ => return None,
         }
         Some(())
      }
      fn run(&mut self) { self.p.run() }
      fn run_here(&mut self) { self.p.run() }
      fn run_timeout(&mut self, k: usize) -> Option<bool> { let _ = k; None }
      fn dump(&self) -> String { vec![dump_rel(0, self.p.r0.iter().map(Row::render).collect()), dump_rel(1, self.p.r1.iter().map(Row::render).collect()), dump_rel(2, self.p.r2.iter().map(Row::render).collect()), dump_rel(3, self.p.r3.iter().map(Row::render).collect()), dump_rel(4, self.p.r4.iter().map(Row::render).collect()), dump_rel(5, self.p.r5.iter().map(Row::render).collect()), dump_rel(6, self.p.r6.iter().map(Row::render).collect()), dump_rel(7, self.p.r7.iter().map(Row::render).collect()), dump_rel(8, self.p.r8.iter().map(Row::render).collect()), dump_rel(9, self.p.r9.iter().map(Row::render).collect()), dump_rel(10, self.p.r10.iter().map(Row::render).collect()), dump_rel(11, self.p.r11.iter().map(Row::render).collect()), dump_rel(12, self.p.r12.iter().map(Row::render).collect()), dump_rel(13, self.p.r13.iter().map(Row::render).collect()), dump_rel(14, self.p.r14.iter().map(Row::render).collect()), dump_rel(15, self.p.r15.iter().map(Row::render).collect()), dump_rel(16, self.p.r16.iter().map(Row::render).collect()), dump_rel(17, self.p.r17.iter().map(Row::render).collect()), dump_rel(18, self.p.r18.iter().map(Row::render).collect()), dump_rel(19, self.p.r19.iter().map(Row::render).collect()), dump_rel(20, self.p.r20.iter().map(Row::render).collect()), dump_rel(21, self.p.r21.iter().map(Row::render).collect()), dump_rel(22, self.p.r22.iter().map(Row::render).collect()), dump_rel(23, self.p.r23.iter().map(Row::render).collect()), dump_rel(24, self.p.r24.iter().map(Row::render).collect()), dump_rel(25, self.p.r25.iter().map(Row::render).collect()), dump_rel(26, self.p.r26.iter().map(Row::render).collect()), dump_rel(27, self.p.r27.iter().map(Row::render).collect()), dump_rel(28, self.p.r28.iter().map(Row::render).collect()), dump_rel(29, self.p.r29.iter().map(Row::render).collect()), dump_rel(30, self.p.r30.iter().map(Row::render).collect()), dump_rel(31, self.p.r31.iter().map(Row::render).collect()), dump_rel(32, self.p.r32.iter().map(Row::render).collect()), dump_rel(33, self.p.r33.iter().map(Row::render).collect()), dump_rel(34, self.p.r34.iter().map(Row::render).collect()), dump_rel(35, self.p.r35.iter().map(Row::render).collect())].join(" | ") }
      fn iters(&self) -> String { format!("iters {}", self.p.scc_iters.iter().map(|x| x.to_string()).collect::<Vec<_>>().join(" ")) }
   }
}

#[allow(unused, non_snake_case, clippy::all)]
pub mod bn6 {
   use ascent::*;
   use ascent::aggregators::*;
   use ascent::lattice::{Dual, set::Set};
   use crate::common::*;
   ascent! {
      pub struct Prog;
      relation r0(i64, i64);
      relation r1(i64, i64);
      relation r2(i64);
      relation r3(i64);
      relation r4(i64);
      #[ds(ascent_byods_rels::eqrel)] relation r5(i64, i64);
      relation r6(i64, i64);
      relation r7(i64, i64);
      relation r8(i64, i64);
      relation r9(i64, i64);
      relation r10(i64);
      relation r11(i64, i64);
      relation r12(i64, i64);
      relation r13(i64, i64);
      relation r14(i64);
      relation r15(i64, i64);
      relation r16(i64, i64);
      relation r17(i64, i64);
      relation r18(i64, i64);
      relation r19(i64, i64);
      relation r20(i64, i64);
      relation r21(i64);
      relation r22(i64, i64);
      r5(v0, v1) <-- r0(v0, v1);
      r6(v0, v1) <-- r5(v0, v1);
      r7(v0, v1) <-- r2(v0), r5(v0, v1);
      r8(0, v1) <-- r5(0, v1);
      r9(v0, v1) <-- r5(v0, v1), r10(v0);
      r11(v0, v1) <-- r3(v1), r5(v0, v1);
      r12(v0, 3) <-- r5(v0, 3);
      r13(v0, v1) <-- r5(v0, v1), r14(v1);
      r15(v0, v1) <-- r2(v0), r3(v1), r5(v0, v1);
      r16(3, 1) <-- r5(3, 1);
      r17(v0, v1) <-- r18(v0, v1), r5(v0, v1);
      r19(v0, v1) <-- r5(v0, v1), r18(v0, v1);
      r20(v1, v1) <-- r5(v0, 0), r2(v1);
      r21(((*v0) + 1)) <-- r8(v0, 2), r5(v1, v0), if ((*v0) < 6);
      r22(v1, v0) <-- r2(v0), r5(v0, 3), r9(v1, 0);
   }
   pub struct Inst { p: Prog, pool: Option<ascent::rayon::ThreadPool> }
   pub fn make(pool: Option<usize>) -> Box<dyn Driver> {
      let pool = pool.map(|n| ascent::rayon::ThreadPoolBuilder::new().num_threads(n).build().unwrap());
      let p = Default::default();
      Box::new(Inst { p, pool })
   }
   impl Driver for Inst {
      fn load(&mut self, rel: usize, rows: &[Sexp], append: bool) -> Option<()> {
         match rel {
         0 => { let v: Vec<(i64,i64,)> = parse_rows(rows)?; if append { self.p.r0.extend(v) } else { self.p.r0 = v } },
         1 => { let v: Vec<(i64,i64,)> = parse_rows(rows)?; if append { self.p.r1.extend(v) } else { self.p.r1 = v } },
         2 => { let v: Vec<(i64,)> = parse_rows(rows)?; if append { self.p.r2.extend(v) } else { self.p.r2 = v } },
         3 => { let v: Vec<(i64,)> = parse_rows(rows)?; if append { self.p.r3.extend(v) } else { self.p.r3 = v } },
         4 => { let v: Vec<(i64,)> = parse_rows(rows)?; if append { self.p.r4.extend(v) } else { self.p.r4 = v } },
         5 => return None,
         6 => { let v: Vec<(i64,i64,)> = parse_rows(rows)?; if append { self.p.r6.extend(v) } else { self.p.r6 = v } },
         7 => { let v: Vec<(i64,i64,)> = parse_rows(rows)?; if append { self.p.r7.extend(v) } else { self.p.r7 = v } },
         8 => { let v: Vec<(i64,i64,)> = parse_rows(rows)?; if append { self.p.r8.extend(v) } else { self.p.r8 = v } },
         9 => { let v: Vec<(i64,i64,)> = parse_rows(rows)?; if append { self.p.r9.extend(v) } else { self.p.r9 = v } },
         10 => { let v: Vec<(i64,)> = parse_rows(rows)?; if append { self.p.r10.extend(v) } else { self.p.r10 = v } },
         11 => { let v: Vec<(i64,i64,)> = parse_rows(rows)?; if append { self.p.r11.extend(v) } else { self.p.r11 = v } },
         12 => { let v: Vec<(i64,i64,)> = parse_rows(rows)?; if append { self.p.r12.extend(v) } else { self.p.r12 = v } },
         13 => { let v: Vec<(i64,i64,)> = parse_rows(rows)?; if append { self.p.r13.extend(v) } else { self.p.r13 = v } },
         14 => { let v: Vec<(i64,)> = parse_rows(rows)?; if append { self.p.r14.extend(v) } else { self.p.r14 = v } },
         15 => { let v: Vec<(i64,i64,)> = parse_rows(rows)?; if append { self.p.r15.extend(v) } else { self.p.r15 = v } },
         16 => { let v: Vec<(i64,i64,)> = parse_rows(rows)?; if append { self.p.r16.extend(v) } else { self.p.r16 = v } },
         17 => { let v: Vec<(i64,i64,)> = parse_rows(rows)?; if append { self.p.r17.extend(v) } else { self.p.r17 = v } },
         18 => { let v: Vec<(i64,i64,)> = parse_rows(rows)?; if append { self.p.r18.extend(v) } else { self.p.r18 = v } },
         19 => { let v: Vec<(i64,i64,)> = parse_rows(rows)?; if append { self.p.r19.extend(v) } else { self.p.r19 = v } },
         20 => { let v: Vec<(i64,i64,)> = parse_rows(rows)?; if append { self.p.r20.extend(v) } else { self.p.r20 = v } },
         21 => { let v: Vec<(i64,)> = parse_rows(rows)?; if append { self.p.r21.extend(v) } else { self.p.r21 = v } },
         22 => { let v: Vec<(i64,i64,)> = parse_rows(rows)?; if append { self.p.r22.extend(v) } else { self.p.r22 = v } },
            _ => return None,
         }
         Some(())
      }
      fn run(&mut self) { self.p.run() }
      fn run_here(&mut self) { self.p.run() }
      fn run_timeout(&mut self, k: usize) -> Option<bool> { let _ = k; None }
      fn dump(&self) -> String { vec![dump_rel(0, self.p.r0.iter().map(Row::render).collect()), dump_rel(1, self.p.r1.iter().map(Row::render).collect()), dump_rel(2, self.p.r2.iter().map(Row::render).collect()), dump_rel(3, self.p.r3.iter().map(Row::render).collect()), dump_rel(4, self.p.r4.iter().map(Row::render).collect()), dump_rel(5, self.p.r5.iter().map(Row::render).collect()), dump_rel(6, self.p.r6.iter().map(Row::render).collect()), dump_rel(7, self.p.r7.iter().map(Row::render).collect()), dump_rel(8, self.p.r8.iter().map(Row::render).collect()), dump_rel(9, self.p.r9.iter().map(Row::render).collect()), dump_rel(10, self.p.r10.iter().map(Row::render).collect()), dump_rel(11, self.p.r11.iter().map(Row::render).collect()), dump_rel(12, self.p.r12.iter().map(Row::render).collect()), dump_rel(13, self.p.r13.iter().map(Row::render).collect()), dump_rel(14, self.p.r14.iter().map(Row::render).collect()), dump_rel(15, self.p.r15.iter().map(Row::render).collect()), dump_rel(16, self.p.r16.iter().map(Row::render).collect()), dump_rel(17, self.p.r17.iter().map(Row::render).collect()), dump_rel(18, self.p.r18.iter().map(Row::render).collect()), dump_rel(19, self.p.r19.iter().map(Row::render).collect()), dump_rel(20, self.p.r20.iter().map(Row::render).collect()), dump_rel(21, self.p.r21.iter().map(Row::render).collect()), dump_rel(22, self.p.r22.iter().map(Row::render).collect())].join(" | ") }
      fn iters(&self) -> String { format!("iters {}", self.p.scc_iters.iter().map(|x| x.to_string()).collect::<Vec<_>>().join(" ")) }
   }
}

#[allow(unused, non_snake_case, clippy::all)]
pub mod br7 {
   use ascent::*;
   use ascent::aggregators::*;
   use ascent::lattice::{Dual, set::Set};
   use crate::common::*;
   ascent! {
      pub struct Prog;
      relation r0(i64, i64);
      relation r1(i64, i64);
      relation r2(i64);
      relation r3(i64);
      relation r4(i64);
      #[ds(ascent_byods_rels::eqrel)] relation r5(i64, i64);
      relation r6(i64, i64);
      relation r7(i64, i64);
      relation r8(i64, i64);
      relation r9(i64, i64);
      relation r10(i64, i64);
      relation r11(i64, i64);
      relation r12(i64, i64);
      relation r13(i64);
      relation r14(i64, i64);
      relation r15(i64, i64);
      relation r16(i64, i64);
      relation r17(i64, i64);
      relation r18(i64, i64);
      relation r19(i64, i64);
      relation r20(i64);
      relation r21(i64, i64);
      relation r22(i64, i64);
      relation r23(i64, i64);
      relation r24(i64, i64);
      relation r25(i64, i64);
      relation r26(i64, i64);
      relation r27(i64, i64);
      relation r28(i64, i64);
      relation r29(i64, i64);
      relation r30(i64, i64);
      relation r31(i64, i64);
      relation r32(i64, i64);
      relation r33(i64);
      r5(v0, v1) <-- r4(v0), r0(v0, v1);
      r4(v0) <-- r4(v1), r5(v0, v1);
      r5(v2, v3) <-- r5(v0, v1), r1(v0, v2), r1(v1, v3);
      r6(v0, v1) <-- r5(v0, v1);
      r5(v0, v1) <-- r6(v0, v1);
      r7(v0, v1) <-- r5(v0, v1);
      r8(v0, v1) <-- r2(v0), r5(v0, v1);
      r5(v0, v1) <-- r8(v0, v1);
      r9(v0, v1) <-- r2(v0), r5(v0, v1);
      r10(0, v1) <-- r5(0, v1);
      r5(v0, v1) <-- r10(v0, v1);
      r11(0, v1) <-- r5(0, v1);
      r12(v0, v1) <-- r5(v0, v1), r13(v0);
      r5(v0, v1) <-- r12(v0, v1);
      r14(v0, v1) <-- r5(v0, v1), r13(v0);
      r15(v0, v1) <-- r3(v1), r5(v0, v1);
      r5(v0, v1) <-- r15(v0, v1);
      r16(v0, v1) <-- r3(v1), r5(v0, v1);
      r17(v0, 2) <-- r5(v0, 2);
      r5(v0, v1) <-- r17(v0, v1);
      r18(v0, 0) <-- r5(v0, 0);
      r19(v0, v1) <-- r5(v0, v1), r20(v1);
      r5(v0, v1) <-- r19(v0, v1);
      r21(v0, v1) <-- r5(v0, v1), r20(v1);
      r22(v0, v1) <-- r2(v0), r3(v1), r5(v0, v1);
      r5(v0, v1) <-- r22(v0, v1);
      r23(v0, v1) <-- r2(v0), r3(v1), r5(v0, v1);
      r24(1, 0) <-- r5(1, 0);
      r5(v0, v1) <-- r24(v0, v1);
      r25(2, 1) <-- r5(2, 1);
      r26(v0, v1) <-- r27(v0, v1), r5(v0, v1);
      r5(v0, v1) <-- r26(v0, v1);
      r28(v0, v1) <-- r27(v0, v1), r5(v0, v1);
      r29(v0, v1) <-- r5(v0, v1), r27(v0, v1);
      r5(v0, v1) <-- r29(v0, v1);
      r30(v0, v1) <-- r5(v0, v1), r27(v0, v1);
      r5(v3, ((*v0) + 1)) <-- r19(v0, v1), r5(v2, v3), if ((*v0) < 6);
      r5(3, v0) <-- r5(v0, v1);
      r33(v1) <-- r21(v0, v1), r5(v0, v2);
   }
   pub struct Inst { p: Prog, pool: Option<ascent::rayon::ThreadPool> }
   pub fn make(pool: Option<usize>) -> Box<dyn Driver> {
      let pool = pool.map(|n| ascent::rayon::ThreadPoolBuilder::new().num_threads(n).build().unwrap());
      let p = Default::default();
      Box::new(Inst { p, pool })
   }
   impl Driver for Inst {
      fn load(&mut self, rel: usize, rows: &[Sexp], append: bool) -> Option<()> {
         match rel {
         0 => { let v: Vec<(i64,i64,)> = parse_rows(rows)?; if append { self.p.r0.extend(v) } else { self.p.r0 = v } },
         1 => { let v: Vec<(i64,i64,)> = parse_rows(rows)?; if append { self.p.r1.extend(v) } else { self.p.r1 = v } },
         2 => { let v: Vec<(i64,)> = parse_rows(rows)?; if append { self.p.r2.extend(v) } else { self.p.r2 = v } },
         3 => { let v: Vec<(i64,)> = parse_rows(rows)?; if append { self.p.r3.extend(v) } else { self.p.r3 = v } },
         4 => { let v: Vec<(i64,)> = parse_rows(rows)?; if append { self.p.r4.extend(v) } else { self.p.r4 = v } },
         5 => return None,
         6 => { let v: Vec<(i64,i64,)> = parse_rows(rows)?; if append { self.p.r6.extend(v) } else { self.p.r6 = v } },
         7 => { let v: Vec<(i64,i64,)> = parse_rows(rows)?; if append { self.p.r7.extend(v) } else { self.p.r7 = v } },
         8 => { let v: Vec<(i64,i64,)> = parse_rows(rows)?; if append { self.p.r8.extend(v) } else { self.p.r8 = v } },
         9 => { let v: Vec<(i64,i64,)> = parse_rows(rows)?; if append { self.p.r9.extend(v) } else { self.p.r9 = v } },
         10 => { let v: Vec<(i64,i64,)> = parse_rows(rows)?; if append { self.p.r10.extend(v) } else { self.p.r10 = v } },
         11 => { let v: Vec<(i64,i64,)> = parse_rows(rows)?; if append { self.p.r11.extend(v) } else { self.p.r11 = v } },
         12 => { let v: Vec<(i64,i64,)> = parse_rows(rows)?; if append { self.p.r12.extend(v) } else { self.p.r12 = v } },
         13 => { let v: Vec<(i64,)> = parse_rows(rows)?; if append { self.p.r13.extend(v) } else { self.p.r13 = v } },
         14 => { let v: Vec<(i64,i64,)> = parse_rows(rows)?; if append { self.p.r14.extend(v) } else { self.p.r14 = v } },
         15 => { let v: Vec<(i64,i64,)> = parse_rows(rows)?; if append { self.p.r15.extend(v) } else { self.p.r15 = v } },
         16 => { let v: Vec<(i64,i64,)> = parse_rows(rows)?; if append { self.p.r16.extend(v) } else { self.p.r16 = v } },
         17 => { let v: Vec<(i64,i64,)> = parse_rows(rows)?; if append { self.p.r17.extend(v) } else { self.p.r17 = v } },
         18 => { let v: Vec<(i64,i64,)> = parse_rows(rows)?; if append { self.p.r18.extend(v) } else { self.p.r18 = v } },
         19 => { let v: Vec<(i64,i64,)> = parse_rows(rows)?; if append { self.p.r19.extend(v) } else { self.p.r19 = v } },
         20 => { let v: Vec<(i64,)> = parse_rows(rows)?; if append { self.p.r20.extend(v) } else { self.p.r20 = v } },
         21 => { let v: Vec<(i64,i64,)> = parse_rows(rows)?; if append { self.p.r21.extend(v) } else { self.p.r21 = v } },
         22 => { let v: Vec<(i64,i64,)> = parse_rows(rows)?; if append { self.p.r22.extend(v) } else { self.p.r22 = v } },
         23 => { let v: Vec<(i64,i64,)> = parse_rows(rows)?; if append { self.p.r23.extend(v) } else { self.p.r23 = v } },
         24 => { let v: Vec<(i64,i64,)> = parse_rows(rows)?; if append { self.p.r24.extend(v) } else { self.p.r24 = v } },
         25 => { let v: Vec<(i64,i64,)> = parse_rows(rows)?; if append { self.p.r25.extend(v) } else { self.p.r25 = v } },
         26 => { let v: Vec<(i64,i64,)> = parse_rows(rows)?; if append { self.p.r26.extend(v) } else { self.p.r26 = v } },
         27 => { let v: Vec<(i64,i64,)> = parse_rows(rows)?; if append { self.p.r27.extend(v) } else { self.p.r27 = v } },
         28 => { let v: Vec<(i64,i64,)> = parse_rows(rows)?; if append { self.p.r28.extend(v) } else { self.p.r28 = v } },
         29 => { let v: Vec<(i64,i64,)> = parse_rows(rows)?; if append { self.p.r29.extend(v) } else { self.p.r29 = v } },
         30 => { let v: Vec<(i64,i64,)> = parse_rows(rows)?; if append { self.p.r30.extend(v) } else { self.p.r30 = v } },
         31 => { let v: Vec<(i64,i64,)> = parse_rows(rows)?; if append { self.p.r31.extend(v) } else { self.p.r31 = v } },
         32 => { let v: Vec<(i64,i64,)> = parse_rows(rows)?; if append { self.p.r32.extend(v) } else { self.p.r32 = v } },
         33 => { let v: Vec<(i64,)> = parse_rows(rows)?; if append { self.p.r33.extend(v) } else { self.p.r33 = v } },
            _ => return None,
         }
         Some(())
      }
      fn run(&mut self) { self.p.run() }
      fn run_here(&mut self) { self.p.run() }
      fn run_timeout(&mut self, k: usize) -> Option<bool> { let _ = k; None }
      fn dump(&self) -> String { vec![dump_rel(0, self.p.r0.iter().map(Row::render).collect()), dump_rel(1, self.p.r1.iter().map(Row::render).collect()), dump_rel(2, self.p.r2.iter().map(Row::render).collect()), dump_rel(3, self.p.r3.iter().map(Row::render).collect()), dump_rel(4, self.p.r4.iter().map(Row::render).collect()), dump_rel(5, self.p.r5.iter().map(Row::render).collect()), dump_rel(6, self.p.r6.iter().map(Row::render).collect()), dump_rel(7, self.p.r7.iter().map(Row::render).collect()), dump_rel(8, self.p.r8.iter().map(Row::render).collect()), dump_rel(9, self.p.r9.iter().map(Row::render).collect()), dump_rel(10, self.p.r10.iter().map(Row::render).collect()), dump_rel(11, self.p.r11.iter().map(Row::render).collect()), dump_rel(12, self.p.r12.iter().map(Row::render).collect()), dump_rel(13, self.p.r13.iter().map(Row::render).collect()), dump_rel(14, self.p.r14.iter().map(Row::render).collect()), dump_rel(15, self.p.r15.iter().map(Row::render).collect()), dump_rel(16, self.p.r16.iter().map(Row::render).collect()), dump_rel(17, self.p.r17.iter().map(Row::render).collect()), dump_rel(18, self.p.r18.iter().map(Row::render).collect()), dump_rel(19, self.p.r19.iter().map(Row::render).collect()), dump_rel(20, self.p.r20.iter().map(Row::render).collect()), dump_rel(21, self.p.r21.iter().map(Row::render).collect()), dump_rel(22, self.p.r22.iter().map(Row::render).collect()), dump_rel(23, self.p.r23.iter().map(Row::render).collect()), dump_rel(24, self.p.r24.iter().map(Row::render).collect()), dump_rel(25, self.p.r25.iter().map(Row::render).collect()), dump_rel(26, self.p.r26.iter().map(Row::render).collect()), dump_rel(27, self.p.r27.iter().map(Row::render).collect()), dump_rel(28, self.p.r28.iter().map(Row::render).collect()), dump_rel(29, self.p.r29.iter().map(Row::render).collect()), dump_rel(30, self.p.r30.iter().map(Row::render).collect()), dump_rel(31, self.p.r31.iter().map(Row::render).collect()), dump_rel(32, self.p.r32.iter().map(Row::render).collect()), dump_rel(33, self.p.r33.iter().map(Row::render).collect())].join(" | ") }
      fn iters(&self) -> String { format!("iters {}", self.p.scc_iters.iter().map(|x| x.to_string()).collect::<Vec<_>>().join(" ")) }
   }
}

#[allow(unused, non_snake_case, clippy::all)]
pub mod tn8 {
   use ascent::*;
   use ascent::aggregators::*;
   use ascent::lattice::{Dual, set::Set};
   use crate::common::*;
   ascent! {
      pub struct Prog;
      relation r0(i64, i64, i64);
      relation r1(i64, i64, i64);
      relation r2(i64);
      relation r3(i64);
      relation r4(i64);
      relation r5(i64, i64);
      relation r6(i64, i64);
      #[ds(ascent_byods_rels::eqrel)] relation r7(i64, i64, i64);
      relation r8(i64, i64, i64);
      relation r9(i64, i64, i64);
      relation r10(i64, i64, i64);
      relation r11(i64, i64, i64);
      relation r12(i64);
      relation r13(i64, i64, i64);
      relation r14(i64, i64, i64);
      relation r15(i64, i64, i64);
      relation r16(i64);
      relation r17(i64, i64, i64);
      relation r18(i64, i64, i64);
      relation r19(i64, i64, i64);
      relation r20(i64, i64);
      relation r21(i64, i64, i64);
      relation r22(i64, i64, i64);
      relation r23(i64, i64, i64);
      relation r24(i64, i64, i64);
      relation r25(i64, i64);
      relation r26(i64, i64, i64);
      relation r27(i64, i64, i64);
      relation r28(i64, i64, i64);
      relation r29(i64, i64, i64);
      relation r30(i64, i64, i64);
      relation r31(i64, i64, i64);
      relation r32(i64, i64, i64);
      relation r33(i64, i64, i64);
      relation r34(i64, i64, i64);
      relation r35(i64, i64);
      relation r36(i64, i64);
      r7(v9, v0, v1) <-- r0(v9, v0, v1);
      r7(v9, v0, v2) <-- r7(v9, v0, v1), r1(v9, v1, v2);
      r8(v0, v1, v2) <-- r7(v0, v1, v2);
      r9(v0, v1, v2) <-- r4(v0), r7(v0, v1, v2);
      r10(2, v1, v2) <-- r7(2, v1, v2);
      r11(v0, v1, v2) <-- r7(v0, v1, v2), r12(v0);
      r13(v0, v1, v2) <-- r2(v1), r7(v0, v1, v2);
      r14(v0, 1, v2) <-- r7(v0, 1, v2);
      r15(v0, v1, v2) <-- r7(v0, v1, v2), r16(v1);
      r17(v0, v1, v2) <-- r4(v0), r2(v1), r7(v0, v1, v2);
      r18(0, 1, v2) <-- r7(0, 1, v2);
      r19(v0, v1, v2) <-- r20(v0, v1), r7(v0, v1, v2);
      r21(v0, v1, v2) <-- r7(v0, v1, v2), r20(v0, v1);
      r22(v0, v1, v2) <-- r4(v0), r3(v2), r7(v0, v1, v2);
      r23(0, v1, 1) <-- r7(0, v1, 1);
      r24(v0, v1, v2) <-- r25(v0, v2), r7(v0, v1, v2);
      r26(v0, v1, v2) <-- r7(v0, v1, v2), r25(v0, v2);
      r27(v0, v1, v2) <-- r2(v1), r3(v2), r7(v0, v1, v2);
      r28(v0, 1, 0) <-- r7(v0, 1, 0);
      r29(v0, v1, v2) <-- r4(v0), r2(v1), r3(v2), r7(v0, v1, v2);
      r30(1, 0, 0) <-- r7(1, 0, 0);
      r31(v0, v1, v2) <-- r32(v0, v1, v2), r7(v0, v1, v2);
      r33(v0, v1, v2) <-- r7(v0, v1, v2), r32(v0, v1, v2);
      r34(v4, ((*v0) + 1), v3) <-- r4(v0) if ((*v0) != 1), r7(v0, v1, v2), r2(v3) if ((*v0) != 4) let v4 = ((*v1) + 1), if (v4 <= 6), if ((*v0) < 6);
      r35(v3, 1) <-- r7(v0, v1, v2), r8(v3, v0, v4);
      r36(0, 3) <-- r11(0, 1, 1), r7(v0, v1, v2);
   }
   pub struct Inst { p: Prog, pool: Option<ascent::rayon::ThreadPool> }
   pub fn make(pool: Option<usize>) -> Box<dyn Driver> {
      let pool = pool.map(|n| ascent::rayon::ThreadPoolBuilder::new().num_threads(n).build().unwrap());
      let p = Default::default();
      Box::new(Inst { p, pool })
   }
   impl Driver for Inst {
      fn load(&mut self, rel: usize, rows: &[Sexp], append: bool) -> Option<()> {
         match rel {
         0 => { let v: Vec<(i64,i64,i64,)> = parse_rows(rows)?; if append { self.p.r0.extend(v) } else { self.p.r0 = v } },
         1 => { let v: Vec<(i64,i64,i64,)> = parse_rows(rows)?; if append { self.p.r1.extend(v) } else { self.p.r1 = v } },
         2 => { let v: Vec<(i64,)> = parse_rows(rows)?; if append { self.p.r2.extend(v) } else { self.p.r2 = v } },
         3 => { let v: Vec<(i64,)> = parse_rows(rows)?; if append { self.p.r3.extend(v) } else { self.p.r3 = v } },
         4 => { let v: Vec<(i64,)> = parse_rows(rows)?; if append { self.p.r4.extend(v) } else { self.p.r4 = v } },
         5 => { let v: Vec<(i64,i64,)> = parse_rows(rows)?; if append { self.p.r5.extend(v) } else { self.p.r5 = v } },
         6 => { let v: Vec<(i64,i64,)> = parse_rows(rows)?; if append { self.p.r6.extend(v) } else { self.p.r6 = v } },
         7 => return None,
         8 => { let v: Vec<(i64,i64,i64,)> = parse_rows(rows)?; if append { self.p.r8.extend(v) } else { self.p.r8 = v } },
         9 => { let v: Vec<(i64,i64,i64,)> = parse_rows(rows)?; if append { self.p.r9.extend(v) } else { self.p.r9 = v } },
         10 => { let v: Vec<(i64,i64,i64,)> = parse_rows(rows)?; if append { self.p.r10.extend(v) } else { self.p.r10 = v } },
         11 => { let v: Vec<(i64,i64,i64,)> = parse_rows(rows)?; if append { self.p.r11.extend(v) } else { self.p.r11 = v } },
         12 => { let v: Vec<(i64,)> = parse_rows(rows)?; if append { self.p.r12.extend(v) } else { self.p.r12 = v } },
         13 => { let v: Vec<(i64,i64,i64,)> = parse_rows(rows)?; if append { self.p.r13.extend(v) } else { self.p.r13 = v } },
         14 => { let v: Vec<(i64,i64,i64,)> = parse_rows(rows)?; if append { self.p.r14.extend(v) } else { self.p.r14 = v } },
         15 => { let v: Vec<(i64,i64,i64,)> = parse_rows(rows)?; if append { self.p.r15.extend(v) } else { self.p.r15 = v } },
         16 => { let v: Vec<(i64,)> = parse_rows(rows)?; if append { self.p.r16.extend(v) } else { self.p.r16 = v } },
         17 => { let v: Vec<(i64,i64,i64,)> = parse_rows(rows)?; if append { self.p.r17.extend(v) } else { self.p.r17 = v } },
         18 => { let v: Vec<(i64,i64,i64,)> = parse_rows(rows)?; if append { self.p.r18.extend(v) } else { self.p.r18 = v } },
         19 => { let v: Vec<(i64,i64,i64,)> = parse_rows(rows)?; if append { self.p.r19.extend(v) } else { self.p.r19 = v } },
         20 => { let v: Vec<(i64,i64,)> = parse_rows(rows)?; if append { self.p.r20.extend(v) } else { self.p.r20 = v } },
         21 => { let v: Vec<(i64,i64,i64,)> = parse_rows(rows)?; if append { self.p.r21.extend(v) } else { self.p.r21 = v } },
         22 => { let v: Vec<(i64,i64,i64,)> = parse_rows(rows)?; if append { self.p.r22.extend(v) } else { self.p.r22 = v } },
         23 => { let v: Vec<(i64,i64,i64,)> = parse_rows(rows)?; if append { self.p.r23.extend(v) } else { self.p.r23 = v } },
         24 => { let v: Vec<(i64,i64,i64,)> = parse_rows(rows)?; if append { self.p.r24.extend(v) } else { self.p.r24 = v } },
         25 => { let v: Vec<(i64,i64,)> = parse_rows(rows)?; if append { self.p.r25.extend(v) } else { self.p.r25 = v } },
         26 => { let v: Vec<(i64,i64,i64,)> = parse_rows(rows)?; if append { self.p.r26.extend(v) } else { self.p.r26 = v } },
         27 => { let v: Vec<(i64,i64,i64,)> = parse_rows(rows)?; if append { self.p.r27.extend(v) } else { self.p.r27 = v } },
         28 => { let v: Vec<(i64,i64,i64,)> = parse_rows(rows)?; if append { self.p.r28.extend(v) } else { self.p.r28 = v } },
         29 => { let v: Vec<(i64,i64,i64,)> = parse_rows(rows)?; if append { self.p.r29.extend(v) } else { self.p.r29 = v } },
         30 => { let v: Vec<(i64,i64,i64,)> = parse_rows(rows)?; if append { self.p.r30.extend(v) } else { self.p.r30 = v } },
         31 => { let v: Vec<(i64,i64,i64,)> = parse_rows(rows)?; if append { self.p.r31.extend(v) } else { self.p.r31 = v } },
         32 => { let v: Vec<(i64,i64,i64,)> = parse_rows(rows)?; if append { self.p.r32.extend(v) } else { self.p.r32 = v } },
         33 => { let v: Vec<(i64,i64,i64,)> = parse_rows(rows)?; if append { self.p.r33.extend(v) } else { self.p.r33 = v } },
         34 => { let v: Vec<(i64,i64,i64,)> = parse_rows(rows)?; if append { self.p.r34.extend(v) } else { self.p.r34 = v } },
         35 => { let v: Vec<(i64,i64,)> = parse_rows(rows)?; if append { self.p.r35.extend(v) } else { self.p.r35 = v } },
         36 => { let v: Vec<(i64,i64,)> = parse_rows(rows)?; if append { self.p.r36.extend(v) } else { self.p.r36 = v } },
            _ => return None,
         }
         Some(())
      }
      fn run(&mut self) { self.p.run() }
      fn run_here(&mut self) { self.p.run() }
      fn run_timeout(&mut self, k: usize) -> Option<bool> { let _ = k; None }
      fn dump(&self) -> String { vec![dump_rel(0, self.p.r0.iter().map(Row::render).collect()), dump_rel(1, self.p.r1.iter().map(Row::render).collect()), dump_rel(2, self.p.r2.iter().map(Row::render).collect()), dump_rel(3, self.p.r3.iter().map(Row::render).collect()), dump_rel(4, self.p.r4.iter().map(Row::render).collect()), dump_rel(5, self.p.r5.iter().map(Row::render).collect()), dump_rel(6, self.p.r6.iter().map(Row::render).collect()), dump_rel(7, self.p.r7.iter().map(Row::render).collect()), dump_rel(8, self.p.r8.iter().map(Row::render).collect()), dump_rel(9, self.p.r9.iter().map(Row::render).collect()), dump_rel(10, self.p.r10.iter().map(Row::render).collect()), dump_rel(11, self.p.r11.iter().map(Row::render).collect()), dump_rel(12, self.p.r12.iter().map(Row::render).collect()), dump_rel(13, self.p.r13.iter().map(Row::render).collect()), dump_rel(14, self.p.r14.iter().map(Row::render).collect()), dump_rel(15, self.p.r15.iter().map(Row::render).collect()), dump_rel(16, self.p.r16.iter().map(Row::render).collect()), dump_rel(17, self.p.r17.iter().map(Row::render).collect()), dump_rel(18, self.p.r18.iter().map(Row::render).collect()), dump_rel(19, self.p.r19.iter().map(Row::render).collect()), dump_rel(20, self.p.r20.iter().map(Row::render).collect()), dump_rel(21, self.p.r21.iter().map(Row::render).collect()), dump_rel(22, self.p.r22.iter().map(Row::render).collect()), dump_rel(23, self.p.r23.iter().map(Row::render).collect()), dump_rel(24, self.p.r24.iter().map(Row::render).collect()), dump_rel(25, self.p.r25.iter().map(Row::render).collect()), dump_rel(26, self.p.r26.iter().map(Row::render).collect()), dump_rel(27, self.p.r27.iter().map(Row::render).collect()), dump_rel(28, self.p.r28.iter().map(Row::render).collect()), dump_rel(29, self.p.r29.iter().map(Row::render).collect()), dump_rel(30, self.p.r30.iter().map(Row::render).collect()), dump_rel(31, self.p.r31.iter().map(Row::render).collect()), dump_rel(32, self.p.r32.iter().map(Row::render).collect()), dump_rel(33, self.p.r33.iter().map(Row::render).collect()), dump_rel(34, self.p.r34.iter().map(Row::render).collect()), dump_rel(35, self.p.r35.iter().map(Row::render).collect()), dump_rel(36, self.p.r36.iter().map(Row::render).collect())].join(" | ") }
      fn iters(&self) -> String { format!("iters {}", self.p.scc_iters.iter().map(|x| x.to_string()).collect::<Vec<_>>().join(" ")) }
   }
}

#[allow(unused, non_snake_case, clippy::all)]
pub mod w0 {
   use ascent::*;
   use ascent::aggregators::*;
   use ascent::lattice::{Dual, set::Set};
   use crate::common::*;
   ascent! {
      pub struct Prog;
      relation r0(i64, i64, i64);
      relation r1(i64, i64);
      #[ds(ascent_byods_rels::eqrel)] relation r2(i64, i64, i64);
      relation r3(i64, i64, i64);
      r2(v0, v1, v2) <-- r0(v0, v1, v2);
      r3(v0, v1, v2) <-- r1(v1, v2), r2(v0, v1, v2);
   }
   pub struct Inst { p: Prog, pool: Option<ascent::rayon::ThreadPool> }
   pub fn make(pool: Option<usize>) -> Box<dyn Driver> {
      let pool = pool.map(|n| ascent::rayon::ThreadPoolBuilder::new().num_threads(n).build().unwrap());
      let p = Default::default();
      Box::new(Inst { p, pool })
   }
   impl Driver for Inst {
      fn load(&mut self, rel: usize, rows: &[Sexp], append: bool) -> Option<()> {
         match rel {
         0 => { let v: Vec<(i64,i64,i64,)> = parse_rows(rows)?; if append { self.p.r0.extend(v) } else { self.p.r0 = v } },
         1 => { let v: Vec<(i64,i64,)> = parse_rows(rows)?; if append { self.p.r1.extend(v) } else { self.p.r1 = v } },
         2 => return None,
         3 => { let v: Vec<(i64,i64,i64,)> = parse_rows(rows)?; if append { self.p.r3.extend(v) } else { self.p.r3 = v } },
            _ => return None,
         }
         Some(())
      }
      fn run(&mut self) { self.p.run() }
      fn run_here(&mut self) { self.p.run() }
      fn run_timeout(&mut self, k: usize) -> Option<bool> { let _ = k; None }
      fn dump(&self) -> String { vec![dump_rel(0, self.p.r0.iter().map(Row::render).collect()), dump_rel(1, self.p.r1.iter().map(Row::render).collect()), dump_rel(2, self.p.r2.iter().map(Row::render).collect()), dump_rel(3, self.p.r3.iter().map(Row::render).collect())].join(" | ") }
      fn iters(&self) -> String { format!("iters {}", self.p.scc_iters.iter().map(|x| x.to_string()).collect::<Vec<_>>().join(" ")) }
   }
}

fn main() {
   common::main_loop(&[("tn0", tn0::make as common::Factory), ("bn2", bn2::make as common::Factory), ("br3", br3::make as common::Factory), ("tn4", tn4::make as common::Factory), ("bn6", bn6::make as common::Factory), ("br7", br7::make as common::Factory), ("tn8", tn8::make as common::Factory), ("w0", w0::make as common::Factory)]);
}
