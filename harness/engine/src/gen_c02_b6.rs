#[path = "common.rs"]
mod common;
#[allow(unused, non_snake_case, clippy::all)]
pub mod w6 {
   use ascent::*;
   use ascent::aggregators::*;
   use ascent::lattice::{Dual, set::Set};
   use crate::common::*;
   ascent_par! {
      pub struct Prog;
      relation r0(i64, i64);
      relation r1(i64, i64);
      relation r2(i64);
      relation r3(i64, i64);
      relation r4(i64, i64);
      r2(v0) <-- r1(v0, v1);
      r3((v0 + 1), v0) <-- let v0 = 2, r2(1), if (v0 < 6), if (v0 <= 6);
      r4(v0, v1) <-- r3(v0, v1), if let Some(v2) = Some((*v1));
      r2(v0) <-- r4(v0, v1), r0(v0, v0), r4(v1, v2);
      r2(v0) <-- for v9 in 0..2, r0(v0, v1), r3(v9, v1);
      r2(v1) <-- if let Some(v0) = Some(1), r2((v0 + 1)), r1(v1, v2) if ((*v1) < 2), for v3 in [4, 1], r0(v3, v0);
   }
   pub struct Inst { p: Prog, pool: Option<ascent::rayon::ThreadPool> }
   pub fn make(pool: Option<usize>) -> Box<dyn Driver> {
      let pool = pool.map(|n| ascent::rayon::ThreadPoolBuilder::new().num_threads(n).build().unwrap());
      let p = match &pool { Some(pl) => pl.install(|| Default::default()), None => Default::default() };
      Box::new(Inst { p, pool })
   }
   impl Driver for Inst {
      fn load(&mut self, rel: usize, rows: &[Sexp], append: bool) -> Option<()> {
         match rel {
         0 => { let v: Vec<(i64,i64,)> = parse_rows(rows)?; if !append { self.p.r0 = Default::default(); } for x in v { self.p.r0.push(x); } },
         1 => { let v: Vec<(i64,i64,)> = parse_rows(rows)?; if !append { self.p.r1 = Default::default(); } for x in v { self.p.r1.push(x); } },
         2 => { let v: Vec<(i64,)> = parse_rows(rows)?; if !append { self.p.r2 = Default::default(); } for x in v { self.p.r2.push(x); } },
         3 => { let v: Vec<(i64,i64,)> = parse_rows(rows)?; if !append { self.p.r3 = Default::default(); } for x in v { self.p.r3.push(x); } },
         4 => { let v: Vec<(i64,i64,)> = parse_rows(rows)?; if !append { self.p.r4 = Default::default(); } for x in v { self.p.r4.push(x); } },
            _ => return None,
         }
         Some(())
      }
      fn run(&mut self) { match &self.pool { Some(pl) => { let p = &mut self.p; pl.install(|| p.run()) }, None => self.p.run() } }
      fn run_here(&mut self) { self.p.run() }
      fn run_timeout(&mut self, k: usize) -> Option<bool> { let _ = k; None }
      fn dump(&self) -> String { vec![dump_rel(0, self.p.r0.iter().map(|x| x.render()).collect()), dump_rel(1, self.p.r1.iter().map(|x| x.render()).collect()), dump_rel(2, self.p.r2.iter().map(|x| x.render()).collect()), dump_rel(3, self.p.r3.iter().map(|x| x.render()).collect()), dump_rel(4, self.p.r4.iter().map(|x| x.render()).collect())].join(" | ") }
      fn iters(&self) -> String { format!("iters {}", self.p.scc_iters.iter().map(|x| x.to_string()).collect::<Vec<_>>().join(" ")) }
   }
}

#[allow(unused, non_snake_case, clippy::all)]
pub mod w14 {
   use ascent::*;
   use ascent::aggregators::*;
   use ascent::lattice::{Dual, set::Set};
   use crate::common::*;
   ascent_par! {
      pub struct Prog;
      relation r0(i64, i64);
      relation r1(i64, i64);
      lattice r2(i64, Dual<i64>);
      lattice r3(i64, i64, Option<i64>);
      r2(v0, Dual((*v0))) <-- r0(v0, v0) if ((*v0) < 4);
      r2(v2, v1) <-- r2(v0, v1) if ((*v0) < 2), r0(v0, v2);
      r3(2, 1, Some(3)) <-- r0(0, 0);
      r3(v3, v3, v2) <-- r3(v0, v1, v2), r0(v3, v3);
      r0(0, v1) <-- r0(v0, v1);
   }
   pub struct Inst { p: Prog, pool: Option<ascent::rayon::ThreadPool> }
   pub fn make(pool: Option<usize>) -> Box<dyn Driver> {
      let pool = pool.map(|n| ascent::rayon::ThreadPoolBuilder::new().num_threads(n).build().unwrap());
      let p = match &pool { Some(pl) => pl.install(|| Default::default()), None => Default::default() };
      Box::new(Inst { p, pool })
   }
   impl Driver for Inst {
      fn load(&mut self, rel: usize, rows: &[Sexp], append: bool) -> Option<()> {
         match rel {
         0 => { let v: Vec<(i64,i64,)> = parse_rows(rows)?; if !append { self.p.r0 = Default::default(); } for x in v { self.p.r0.push(x); } },
         1 => { let v: Vec<(i64,i64,)> = parse_rows(rows)?; if !append { self.p.r1 = Default::default(); } for x in v { self.p.r1.push(x); } },
         2 => { let v: Vec<(i64,Dual<i64>,)> = parse_rows(rows)?; if !append { self.p.r2 = Default::default(); } for x in v { self.p.r2.push(std::sync::RwLock::new(x)); } },
         3 => { let v: Vec<(i64,i64,Option<i64>,)> = parse_rows(rows)?; if !append { self.p.r3 = Default::default(); } for x in v { self.p.r3.push(std::sync::RwLock::new(x)); } },
            _ => return None,
         }
         Some(())
      }
      fn run(&mut self) { match &self.pool { Some(pl) => { let p = &mut self.p; pl.install(|| p.run()) }, None => self.p.run() } }
      fn run_here(&mut self) { self.p.run() }
      fn run_timeout(&mut self, k: usize) -> Option<bool> { let _ = k; None }
      fn dump(&self) -> String { vec![dump_rel(0, self.p.r0.iter().map(|x| x.render()).collect()), dump_rel(1, self.p.r1.iter().map(|x| x.render()).collect()), dump_rel(2, self.p.r2.iter().map(|x| x.read().unwrap().render()).collect()), dump_rel(3, self.p.r3.iter().map(|x| x.read().unwrap().render()).collect())].join(" | ") }
      fn iters(&self) -> String { format!("iters {}", self.p.scc_iters.iter().map(|x| x.to_string()).collect::<Vec<_>>().join(" ")) }
   }
}

#[allow(unused, non_snake_case, clippy::all)]
pub mod w22 {
   use ascent::*;
   use ascent::aggregators::*;
   use ascent::lattice::{Dual, set::Set};
   use crate::common::*;
   ascent_par! {
      pub struct Prog;
      relation r0(i64);
      relation r1(i64, i64);
      relation r2(i64, i64);
      relation r3(i64);
      relation r4(i64, i64);
      relation r5(i64, i64);
      relation r6(i64);
      relation r7(i64);
      relation r8(i64);
      relation r9(i64, i64);
      relation r10(i64, i64);
      r2(v0, v2) <-- r1(v0, v1), r1(v1, v2), r4(v2, v3);
      r2(v0, v2) <-- r2(v0, v1), r1(v1, v2), r2(v2, v3);
      r2(2, v0) <-- r2(v0, v1) if ((*v0) != 5) let v2 = ((*v1) + 1);
      r4(((*v0) + 1), v0) <-- r0(v0) if ((*v0) != 2), if ((*v0) < 6);
      r5(v1, v21) <-- r4(v0, v1), agg v21 = min(v20) in r3(v20);
      r6(v0) <-- r3(v0), agg v21 = count() in r3((*v0));
      r7(v0) <-- r0(v0), agg v21 = min(v20) in r4(v20, _);
      r8(v1) <-- r1(v0, v1), r4(v32, v33), r3(v0), agg v21 = sum(v20) in r4(v20, (*v32));
      r9(v1, (v21 as i64)) <-- r2(v0, v1), r4(v1, v1), r2(v1, v1), agg v21 = count() in r0(_);
      r10(v0, 2) <-- r1(v0, v1), r1(v1, v1), agg () = not() in r4(_, _);
   }
   pub struct Inst { p: Prog, pool: Option<ascent::rayon::ThreadPool> }
   pub fn make(pool: Option<usize>) -> Box<dyn Driver> {
      let pool = pool.map(|n| ascent::rayon::ThreadPoolBuilder::new().num_threads(n).build().unwrap());
      let p = match &pool { Some(pl) => pl.install(|| Default::default()), None => Default::default() };
      Box::new(Inst { p, pool })
   }
   impl Driver for Inst {
      fn load(&mut self, rel: usize, rows: &[Sexp], append: bool) -> Option<()> {
         match rel {
         0 => { let v: Vec<(i64,)> = parse_rows(rows)?; if !append { self.p.r0 = Default::default(); } for x in v { self.p.r0.push(x); } },
         1 => { let v: Vec<(i64,i64,)> = parse_rows(rows)?; if !append { self.p.r1 = Default::default(); } for x in v { self.p.r1.push(x); } },
         2 => { let v: Vec<(i64,i64,)> = parse_rows(rows)?; if !append { self.p.r2 = Default::default(); } for x in v { self.p.r2.push(x); } },
         3 => { let v: Vec<(i64,)> = parse_rows(rows)?; if !append { self.p.r3 = Default::default(); } for x in v { self.p.r3.push(x); } },
         4 => { let v: Vec<(i64,i64,)> = parse_rows(rows)?; if !append { self.p.r4 = Default::default(); } for x in v { self.p.r4.push(x); } },
         5 => { let v: Vec<(i64,i64,)> = parse_rows(rows)?; if !append { self.p.r5 = Default::default(); } for x in v { self.p.r5.push(x); } },
         6 => { let v: Vec<(i64,)> = parse_rows(rows)?; if !append { self.p.r6 = Default::default(); } for x in v { self.p.r6.push(x); } },
         7 => { let v: Vec<(i64,)> = parse_rows(rows)?; if !append { self.p.r7 = Default::default(); } for x in v { self.p.r7.push(x); } },
         8 => { let v: Vec<(i64,)> = parse_rows(rows)?; if !append { self.p.r8 = Default::default(); } for x in v { self.p.r8.push(x); } },
         9 => { let v: Vec<(i64,i64,)> = parse_rows(rows)?; if !append { self.p.r9 = Default::default(); } for x in v { self.p.r9.push(x); } },
         10 => { let v: Vec<(i64,i64,)> = parse_rows(rows)?; if !append { self.p.r10 = Default::default(); } for x in v { self.p.r10.push(x); } },
            _ => return None,
         }
         Some(())
      }
      fn run(&mut self) { match &self.pool { Some(pl) => { let p = &mut self.p; pl.install(|| p.run()) }, None => self.p.run() } }
      fn run_here(&mut self) { self.p.run() }
      fn run_timeout(&mut self, k: usize) -> Option<bool> { let _ = k; None }
      fn dump(&self) -> String { vec![dump_rel(0, self.p.r0.iter().map(|x| x.render()).collect()), dump_rel(1, self.p.r1.iter().map(|x| x.render()).collect()), dump_rel(2, self.p.r2.iter().map(|x| x.render()).collect()), dump_rel(3, self.p.r3.iter().map(|x| x.render()).collect()), dump_rel(4, self.p.r4.iter().map(|x| x.render()).collect()), dump_rel(5, self.p.r5.iter().map(|x| x.render()).collect()), dump_rel(6, self.p.r6.iter().map(|x| x.render()).collect()), dump_rel(7, self.p.r7.iter().map(|x| x.render()).collect()), dump_rel(8, self.p.r8.iter().map(|x| x.render()).collect()), dump_rel(9, self.p.r9.iter().map(|x| x.render()).collect()), dump_rel(10, self.p.r10.iter().map(|x| x.render()).collect())].join(" | ") }
      fn iters(&self) -> String { format!("iters {}", self.p.scc_iters.iter().map(|x| x.to_string()).collect::<Vec<_>>().join(" ")) }
   }
}

fn main() {
   common::main_loop(&[("w6", w6::make as common::Factory), ("w14", w14::make as common::Factory), ("w22", w22::make as common::Factory)]);
}
