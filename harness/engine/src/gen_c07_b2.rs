#[path = "common.rs"]
mod common;
#[allow(unused, non_snake_case, clippy::all)]
pub mod g1s {
   use ascent::*;
   use ascent::aggregators::*;
   use ascent::lattice::{Dual, set::Set};
   use crate::common::*;
   ascent! {
      pub struct Prog;
      relation r0(i64, i64);
      relation r1(i64, Option<i64>);
      relation r2(i64);
      relation r3(i64, i64, i64);
      relation r4(i64, i64);
      relation r5(i64);
      relation r6(i64, i64, i64);
      relation r7(i64, i64, i64);
      r5(v0) <-- r1(v0, None::<i64>), r2(v1), r4((v0.clone() + v1.clone()), v1) if (v0.clone() < 2);
      r6(v5, v6, v4) <-- (r7(v1, v0, v2), !r0(3, v0.clone()) | r5(v0) if (v0.clone() < 1), let v3 = std::cmp::min(std::cmp::min(v0.clone(), 3), 6)), if let Some(v4) = Some(v0.clone()), r7(v5, v6, v7);
      r7(3, v0, v0) <-- r6(_, v0, v0) if (v0.clone() <= 2), r3(v1, v1, (v1.clone() + 2));
      r6(v0, v0, v1), r5(v0) <-- r2(v0) if (v0.clone() < 2) let v1 = std::cmp::min((v0.clone() + 1), 6);
      r7(v0, v0, v0) <-- r2(v0);
      r7(v0, v0, v0) <-- !r0(3, 0), if let Some(v0) = None::<i64>, r2((v0.clone() + 2));
   }
   pub struct Inst { p: Prog, pool: Option<ascent::rayon::ThreadPool> }
   pub fn make(pool: Option<usize>) -> Box<dyn Driver> {
      let pool = pool.map(|n| ascent::rayon::ThreadPoolBuilder::new().num_threads(n).build().unwrap());
      let p = match &pool { Some(pl) => pl.install(|| Default::default()), None => Default::default() };
      Box::new(Inst { p, pool })
   }
   impl Driver for Inst {
      fn load(&mut self, rel: usize, rows: &[Sexp], append: bool) -> Option<()> {
         match rel {
         0 => { let v: Vec<(i64,i64,)> = parse_rows(rows)?; if append { self.p.r0.extend(v) } else { self.p.r0 = v } },
         1 => { let v: Vec<(i64,Option<i64>,)> = parse_rows(rows)?; if append { self.p.r1.extend(v) } else { self.p.r1 = v } },
         2 => { let v: Vec<(i64,)> = parse_rows(rows)?; if append { self.p.r2.extend(v) } else { self.p.r2 = v } },
         3 => { let v: Vec<(i64,i64,i64,)> = parse_rows(rows)?; if append { self.p.r3.extend(v) } else { self.p.r3 = v } },
         4 => { let v: Vec<(i64,i64,)> = parse_rows(rows)?; if append { self.p.r4.extend(v) } else { self.p.r4 = v } },
         5 => { let v: Vec<(i64,)> = parse_rows(rows)?; if append { self.p.r5.extend(v) } else { self.p.r5 = v } },
         6 => { let v: Vec<(i64,i64,i64,)> = parse_rows(rows)?; if append { self.p.r6.extend(v) } else { self.p.r6 = v } },
         7 => { let v: Vec<(i64,i64,i64,)> = parse_rows(rows)?; if append { self.p.r7.extend(v) } else { self.p.r7 = v } },
            _ => return None,
         }
         Some(())
      }
      fn run(&mut self) { match &self.pool { Some(pl) => { let p = &mut self.p; pl.install(|| p.run()) }, None => self.p.run() } }
      fn run_here(&mut self) { self.p.run() }
      fn run_timeout(&mut self, k: usize) -> Option<bool> { let _ = k; None }
      fn dump(&self) -> String { vec![dump_rel(0, self.p.r0.iter().map(Row::render).collect()), dump_rel(1, self.p.r1.iter().map(Row::render).collect()), dump_rel(2, self.p.r2.iter().map(Row::render).collect()), dump_rel(3, self.p.r3.iter().map(Row::render).collect()), dump_rel(4, self.p.r4.iter().map(Row::render).collect()), dump_rel(5, self.p.r5.iter().map(Row::render).collect()), dump_rel(6, self.p.r6.iter().map(Row::render).collect()), dump_rel(7, self.p.r7.iter().map(Row::render).collect())].join(" | ") }
      fn iters(&self) -> String { format!("iters {}", self.p.scc_iters.iter().map(|x| x.to_string()).collect::<Vec<_>>().join(" ")) }
   }
}

#[allow(unused, non_snake_case, clippy::all)]
pub mod g5s {
   use ascent::*;
   use ascent::aggregators::*;
   use ascent::lattice::{Dual, set::Set};
   use crate::common::*;
   ascent! {
      pub struct Prog;
      relation r0(i64, i64);
      relation r1(i64, Option<i64>);
      relation r2(i64);
      relation r3(i64, i64, i64);
      relation r4(i64, i64);
      relation r5(i64, i64);
      relation r6(i64, i64, Option<i64>);
      relation r7(i64, i64);
      r5((v0.clone() + 1), v0) <-- r2(v0), r0(_, v0) if (v0.clone() <= 4), r1(v0, ?None), if (v0.clone() < 5);
      r6(2, v1, Some(v0.clone())) <-- r1(v0, Some(std::cmp::min(v0.clone(), 4))), r2(v1), !r5(_, (v0.clone() + 2));
      r7(2, 3) <-- ((r6(v1, v1, v0), r1(std::cmp::max(v1.clone(), 2), Some(std::cmp::min(v1.clone(), 3))) if (v1.clone() < 1)) | r6(2, v2, v0));
      r6(v1, v1, v0), r5(v1, (v1.clone() + 1)) <-- !r3(0, 1, 0), r1(_, v0), r4(v1, v1), if (v1.clone() < 5);
      r6(v1, v0, Some(0)) <-- r1(v0, ?Some(v1));
      r5(3, 3), r7(2, 0);
   }
   pub struct Inst { p: Prog, pool: Option<ascent::rayon::ThreadPool> }
   pub fn make(pool: Option<usize>) -> Box<dyn Driver> {
      let pool = pool.map(|n| ascent::rayon::ThreadPoolBuilder::new().num_threads(n).build().unwrap());
      let p = match &pool { Some(pl) => pl.install(|| Default::default()), None => Default::default() };
      Box::new(Inst { p, pool })
   }
   impl Driver for Inst {
      fn load(&mut self, rel: usize, rows: &[Sexp], append: bool) -> Option<()> {
         match rel {
         0 => { let v: Vec<(i64,i64,)> = parse_rows(rows)?; if append { self.p.r0.extend(v) } else { self.p.r0 = v } },
         1 => { let v: Vec<(i64,Option<i64>,)> = parse_rows(rows)?; if append { self.p.r1.extend(v) } else { self.p.r1 = v } },
         2 => { let v: Vec<(i64,)> = parse_rows(rows)?; if append { self.p.r2.extend(v) } else { self.p.r2 = v } },
         3 => { let v: Vec<(i64,i64,i64,)> = parse_rows(rows)?; if append { self.p.r3.extend(v) } else { self.p.r3 = v } },
         4 => { let v: Vec<(i64,i64,)> = parse_rows(rows)?; if append { self.p.r4.extend(v) } else { self.p.r4 = v } },
         5 => { let v: Vec<(i64,i64,)> = parse_rows(rows)?; if append { self.p.r5.extend(v) } else { self.p.r5 = v } },
         6 => { let v: Vec<(i64,i64,Option<i64>,)> = parse_rows(rows)?; if append { self.p.r6.extend(v) } else { self.p.r6 = v } },
         7 => { let v: Vec<(i64,i64,)> = parse_rows(rows)?; if append { self.p.r7.extend(v) } else { self.p.r7 = v } },
            _ => return None,
         }
         Some(())
      }
      fn run(&mut self) { match &self.pool { Some(pl) => { let p = &mut self.p; pl.install(|| p.run()) }, None => self.p.run() } }
      fn run_here(&mut self) { self.p.run() }
      fn run_timeout(&mut self, k: usize) -> Option<bool> { let _ = k; None }
      fn dump(&self) -> String { vec![dump_rel(0, self.p.r0.iter().map(Row::render).collect()), dump_rel(1, self.p.r1.iter().map(Row::render).collect()), dump_rel(2, self.p.r2.iter().map(Row::render).collect()), dump_rel(3, self.p.r3.iter().map(Row::render).collect()), dump_rel(4, self.p.r4.iter().map(Row::render).collect()), dump_rel(5, self.p.r5.iter().map(Row::render).collect()), dump_rel(6, self.p.r6.iter().map(Row::render).collect()), dump_rel(7, self.p.r7.iter().map(Row::render).collect())].join(" | ") }
      fn iters(&self) -> String { format!("iters {}", self.p.scc_iters.iter().map(|x| x.to_string()).collect::<Vec<_>>().join(" ")) }
   }
}

#[allow(unused, non_snake_case, clippy::all)]
pub mod g9s {
   use ascent::*;
   use ascent::aggregators::*;
   use ascent::lattice::{Dual, set::Set};
   use crate::common::*;
   ascent! {
      pub struct Prog;
      relation r0(i64, i64);
      relation r1(i64, Option<i64>);
      relation r2(i64);
      relation r3(i64, i64, i64);
      relation r4(i64);
      relation r5(i64, i64, Option<i64>);
      relation r6(i64, i64, i64);
      relation r7(i64, i64);
      r4((v0.clone() + 1)) <-- if let Some(v0) = Some(3), if (v0.clone() < 5);
      r5(2, v2, v4) <-- r3(_, v0, v0) if (v0.clone() < 2), r1(v1, ?Some(v2)) if (v0.clone() <= 4), (r1(v3, v4) if (v0.clone() < v1.clone()), !r1(v2.clone(), v4.clone()) | r5(v0, v3, v4), let v5 = std::cmp::min((v1.clone() + 1), 6));
      r6(1, v3, v3) <-- ((r7(v0, std::cmp::max(v0.clone(), 1)) if (v0.clone() < 2)) | r5(v0, v1, ?Some(v2))), r3(2, v0, v3);
      r7((v0.clone() + 1), v1) <-- r1(v0, ?Some(v1)), if (v0.clone() < v0.clone()), r1(v1, v2), if (v0.clone() < 5);
      r7((v0.clone() + 1), v0), r6(v0, v0, v0) <-- r6(v0, v0, v0), r1(v0, None::<i64>), if (v0.clone() < 5);
      r5(v1, v0, Some(v1.clone())) <-- r2(2), r6(v0, 3, std::cmp::max(v0.clone(), 1)), r3(v1, (v1.clone() + v1.clone()), std::cmp::max(v0.clone(), 0));
      r7(1, v1) <-- if let Some(v0) = Some(2), r5(v0, v0, None::<i64>), r3(std::cmp::max(v0.clone(), 3), v0, v1);
      r5((v1.clone() + 1), v0, Some(1)) <-- (r1(v0, ?Some(v1)) | ((r3(v1, v2, v0), r0(_, 2) if (v0.clone() < v0.clone())) | r6(v0, v1, v2), r4(v2) | r5(v0, v1, ?Some(v2)), r0(v3, std::cmp::min(v2.clone(), 2))), r2(v0)), if (v1.clone() < 5);
      r7(1, 0);
   }
   pub struct Inst { p: Prog, pool: Option<ascent::rayon::ThreadPool> }
   pub fn make(pool: Option<usize>) -> Box<dyn Driver> {
      let pool = pool.map(|n| ascent::rayon::ThreadPoolBuilder::new().num_threads(n).build().unwrap());
      let p = match &pool { Some(pl) => pl.install(|| Default::default()), None => Default::default() };
      Box::new(Inst { p, pool })
   }
   impl Driver for Inst {
      fn load(&mut self, rel: usize, rows: &[Sexp], append: bool) -> Option<()> {
         match rel {
         0 => { let v: Vec<(i64,i64,)> = parse_rows(rows)?; if append { self.p.r0.extend(v) } else { self.p.r0 = v } },
         1 => { let v: Vec<(i64,Option<i64>,)> = parse_rows(rows)?; if append { self.p.r1.extend(v) } else { self.p.r1 = v } },
         2 => { let v: Vec<(i64,)> = parse_rows(rows)?; if append { self.p.r2.extend(v) } else { self.p.r2 = v } },
         3 => { let v: Vec<(i64,i64,i64,)> = parse_rows(rows)?; if append { self.p.r3.extend(v) } else { self.p.r3 = v } },
         4 => { let v: Vec<(i64,)> = parse_rows(rows)?; if append { self.p.r4.extend(v) } else { self.p.r4 = v } },
         5 => { let v: Vec<(i64,i64,Option<i64>,)> = parse_rows(rows)?; if append { self.p.r5.extend(v) } else { self.p.r5 = v } },
         6 => { let v: Vec<(i64,i64,i64,)> = parse_rows(rows)?; if append { self.p.r6.extend(v) } else { self.p.r6 = v } },
         7 => { let v: Vec<(i64,i64,)> = parse_rows(rows)?; if append { self.p.r7.extend(v) } else { self.p.r7 = v } },
            _ => return None,
         }
         Some(())
      }
      fn run(&mut self) { match &self.pool { Some(pl) => { let p = &mut self.p; pl.install(|| p.run()) }, None => self.p.run() } }
      fn run_here(&mut self) { self.p.run() }
      fn run_timeout(&mut self, k: usize) -> Option<bool> { let _ = k; None }
      fn dump(&self) -> String { vec![dump_rel(0, self.p.r0.iter().map(Row::render).collect()), dump_rel(1, self.p.r1.iter().map(Row::render).collect()), dump_rel(2, self.p.r2.iter().map(Row::render).collect()), dump_rel(3, self.p.r3.iter().map(Row::render).collect()), dump_rel(4, self.p.r4.iter().map(Row::render).collect()), dump_rel(5, self.p.r5.iter().map(Row::render).collect()), dump_rel(6, self.p.r6.iter().map(Row::render).collect()), dump_rel(7, self.p.r7.iter().map(Row::render).collect())].join(" | ") }
      fn iters(&self) -> String { format!("iters {}", self.p.scc_iters.iter().map(|x| x.to_string()).collect::<Vec<_>>().join(" ")) }
   }
}

#[allow(unused, non_snake_case, clippy::all)]
pub mod g13s {
   use ascent::*;
   use ascent::aggregators::*;
   use ascent::lattice::{Dual, set::Set};
   use crate::common::*;
   ascent! {
      pub struct Prog;
      relation r0(i64, i64);
      relation r1(i64, Option<i64>);
      relation r2(i64);
      relation r3(i64, i64, i64);
      relation r4(i64, i64);
      relation r5(i64);
      relation r6(i64, i64);
      relation r7(i64, Option<i64>);
      relation r8(i64, i64);
      r5(2) <-- (r3(v0, v2, v1), !r0(_, (v2.clone() + 0)) | r3(v3, v0, v1), (r1(v4, Some(v4.clone())) | r4(v4, v4), r2(v0)) | r3(v0, v1, v0) if (v1.clone() != 2), r1((v1.clone() + 0), ?None)), r2(v0);
      r6((v0.clone() + 1), v0) <-- r3(v0, v0, v0) if (v0.clone() == 0) let v1 = std::cmp::min(std::cmp::min(v0.clone(), 4), 6), if (v0.clone() < 5);
      r7(v0, Some(v0.clone())) <-- if let Some(v0) = Some(0);
      r8(v7, 0) <-- r3(v0, v1, _), r4((v1.clone() + 0), v7);
      r6(v0, v1), r5(v0) <-- r0(_, v0), if let Some(v1) = Some(v0.clone());
      r6(0, v2) <-- r7(v0, v1) if (v0.clone() == 2), r0(v2, (v2.clone() + v2.clone()));
      r8(v0, 2) <-- (r7(v0, _), r8(v0, v0) | r8(v0, v1), r4(v1, _));
      r5(1), r7(3, Some(3));
   }
   pub struct Inst { p: Prog, pool: Option<ascent::rayon::ThreadPool> }
   pub fn make(pool: Option<usize>) -> Box<dyn Driver> {
      let pool = pool.map(|n| ascent::rayon::ThreadPoolBuilder::new().num_threads(n).build().unwrap());
      let p = match &pool { Some(pl) => pl.install(|| Default::default()), None => Default::default() };
      Box::new(Inst { p, pool })
   }
   impl Driver for Inst {
      fn load(&mut self, rel: usize, rows: &[Sexp], append: bool) -> Option<()> {
         match rel {
         0 => { let v: Vec<(i64,i64,)> = parse_rows(rows)?; if append { self.p.r0.extend(v) } else { self.p.r0 = v } },
         1 => { let v: Vec<(i64,Option<i64>,)> = parse_rows(rows)?; if append { self.p.r1.extend(v) } else { self.p.r1 = v } },
         2 => { let v: Vec<(i64,)> = parse_rows(rows)?; if append { self.p.r2.extend(v) } else { self.p.r2 = v } },
         3 => { let v: Vec<(i64,i64,i64,)> = parse_rows(rows)?; if append { self.p.r3.extend(v) } else { self.p.r3 = v } },
         4 => { let v: Vec<(i64,i64,)> = parse_rows(rows)?; if append { self.p.r4.extend(v) } else { self.p.r4 = v } },
         5 => { let v: Vec<(i64,)> = parse_rows(rows)?; if append { self.p.r5.extend(v) } else { self.p.r5 = v } },
         6 => { let v: Vec<(i64,i64,)> = parse_rows(rows)?; if append { self.p.r6.extend(v) } else { self.p.r6 = v } },
         7 => { let v: Vec<(i64,Option<i64>,)> = parse_rows(rows)?; if append { self.p.r7.extend(v) } else { self.p.r7 = v } },
         8 => { let v: Vec<(i64,i64,)> = parse_rows(rows)?; if append { self.p.r8.extend(v) } else { self.p.r8 = v } },
            _ => return None,
         }
         Some(())
      }
      fn run(&mut self) { match &self.pool { Some(pl) => { let p = &mut self.p; pl.install(|| p.run()) }, None => self.p.run() } }
      fn run_here(&mut self) { self.p.run() }
      fn run_timeout(&mut self, k: usize) -> Option<bool> { let _ = k; None }
      fn dump(&self) -> String { vec![dump_rel(0, self.p.r0.iter().map(Row::render).collect()), dump_rel(1, self.p.r1.iter().map(Row::render).collect()), dump_rel(2, self.p.r2.iter().map(Row::render).collect()), dump_rel(3, self.p.r3.iter().map(Row::render).collect()), dump_rel(4, self.p.r4.iter().map(Row::render).collect()), dump_rel(5, self.p.r5.iter().map(Row::render).collect()), dump_rel(6, self.p.r6.iter().map(Row::render).collect()), dump_rel(7, self.p.r7.iter().map(Row::render).collect()), dump_rel(8, self.p.r8.iter().map(Row::render).collect())].join(" | ") }
      fn iters(&self) -> String { format!("iters {}", self.p.scc_iters.iter().map(|x| x.to_string()).collect::<Vec<_>>().join(" ")) }
   }
}

#[allow(unused, non_snake_case, clippy::all)]
pub mod n3s {
   use ascent::*;
   use ascent::aggregators::*;
   use ascent::lattice::{Dual, set::Set};
   use crate::common::*;
   ascent! {
      pub struct Prog;
      relation r0(i64, i64);
      relation r1(i64);
      lattice r2(i64, i64);
      relation r3(i64);
      relation r4(i64);
      relation r5(i64, i64);
      r2(v0, v1) <-- r0(v0, v1);
      r2(v0, (v1.clone() + 1)) <-- r2(v0, v1), r1(v1), if (v1.clone() < 5);
      r3(v0) <-- r0(v0, _), r2(v0, 0);
      r4(v0) <-- r1(v0), r2(v0, (v0.clone() + 1));
   }
   pub struct Inst { p: Prog, pool: Option<ascent::rayon::ThreadPool> }
   pub fn make(pool: Option<usize>) -> Box<dyn Driver> {
      let pool = pool.map(|n| ascent::rayon::ThreadPoolBuilder::new().num_threads(n).build().unwrap());
      let p = match &pool { Some(pl) => pl.install(|| Default::default()), None => Default::default() };
      Box::new(Inst { p, pool })
   }
   impl Driver for Inst {
      fn load(&mut self, rel: usize, rows: &[Sexp], append: bool) -> Option<()> {
         match rel {
         0 => { let v: Vec<(i64,i64,)> = parse_rows(rows)?; if append { self.p.r0.extend(v) } else { self.p.r0 = v } },
         1 => { let v: Vec<(i64,)> = parse_rows(rows)?; if append { self.p.r1.extend(v) } else { self.p.r1 = v } },
         2 => { let v: Vec<(i64,i64,)> = parse_rows(rows)?; if append { self.p.r2.extend(v) } else { self.p.r2 = v } },
         3 => { let v: Vec<(i64,)> = parse_rows(rows)?; if append { self.p.r3.extend(v) } else { self.p.r3 = v } },
         4 => { let v: Vec<(i64,)> = parse_rows(rows)?; if append { self.p.r4.extend(v) } else { self.p.r4 = v } },
         5 => { let v: Vec<(i64,i64,)> = parse_rows(rows)?; if append { self.p.r5.extend(v) } else { self.p.r5 = v } },
            _ => return None,
         }
         Some(())
      }
      fn run(&mut self) { match &self.pool { Some(pl) => { let p = &mut self.p; pl.install(|| p.run()) }, None => self.p.run() } }
      fn run_here(&mut self) { self.p.run() }
      fn run_timeout(&mut self, k: usize) -> Option<bool> { let _ = k; None }
      fn dump(&self) -> String { vec![dump_rel(0, self.p.r0.iter().map(Row::render).collect()), dump_rel(1, self.p.r1.iter().map(Row::render).collect()), dump_rel(2, self.p.r2.iter().map(Row::render).collect()), dump_rel(3, self.p.r3.iter().map(Row::render).collect()), dump_rel(4, self.p.r4.iter().map(Row::render).collect()), dump_rel(5, self.p.r5.iter().map(Row::render).collect())].join(" | ") }
      fn iters(&self) -> String { format!("iters {}", self.p.scc_iters.iter().map(|x| x.to_string()).collect::<Vec<_>>().join(" ")) }
   }
}

fn main() {
   common::main_loop(&[("g1s", g1s::make as common::Factory), ("g5s", g5s::make as common::Factory), ("g9s", g9s::make as common::Factory), ("g13s", g13s::make as common::Factory), ("n3s", n3s::make as common::Factory)]);
}
