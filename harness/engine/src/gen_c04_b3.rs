#[path = "common.rs"]
mod common;
#[allow(unused, non_snake_case, clippy::all)]
pub mod a3 {
   use ascent::*;
   use ascent::aggregators::*;
   use ascent::lattice::{Dual, set::Set};
   use crate::common::*;
   ascent! {
      pub struct Prog;
      relation r0(i64);
      relation r1(i64);
      relation r2(i64, i64);
      relation r3(i64, i64, i64);
      relation r4(i64, i64);
      relation r5(i64, i64);
      relation r6(i64);
      relation r7(i64, i64);
      relation r8(i64, i64);
      r3(((*v0) + 1), v0, v0) <-- r0(v0) if ((*v0) != 2), if ((*v0) < 6);
      r3(v2, ((*v0) + 1), v0) <-- r3(0, v0, 3), r3(v1, v2, 1), if ((*v0) < 6);
      r4(v0, v1) <-- r4(v0, v1), r4(v1, v1);
      r1(v3) <-- if let Some(v0) = Some(2), r4(v0, v1), r2(0, v0), r3(v2, v3, v4);
      r3(1, v0, ((*v1) + 1)) <-- r3(v0, v1, 2), if ((*v1) < 6);
      r5(v0, (v21 as i64)) <-- r2(v0, v1), agg v21 = count() in r3((*v0), (*v1), (*v1));
      r6(v0) <-- r1(v0), r2(v31, v31), r3(v32, v33, v32), agg v21 = sum(v20) in r4((*v32), v20);
      r7(v0, v21) <-- r0(v0), agg v21 = sum(v20) in r6(v20);
      r8(v1, 1) <-- r4(v0, v1), agg () = not() in r5(_, _);
   }
   pub struct Inst { p: Prog, pool: Option<ascent::rayon::ThreadPool> }
   pub fn make(pool: Option<usize>) -> Box<dyn Driver> {
      let pool = pool.map(|n| ascent::rayon::ThreadPoolBuilder::new().num_threads(n).build().unwrap());
      let p = match &pool { Some(pl) => pl.install(|| Default::default()), None => Default::default() };
      Box::new(Inst { p, pool })
   }
   impl Driver for Inst {
      fn load(&mut self, rel: usize, rows: &[Sexp], append: bool) -> Option<()> {
         match rel {
         0 => { let v: Vec<(i64,)> = parse_rows(rows)?; if append { self.p.r0.extend(v) } else { self.p.r0 = v } },
         1 => { let v: Vec<(i64,)> = parse_rows(rows)?; if append { self.p.r1.extend(v) } else { self.p.r1 = v } },
         2 => { let v: Vec<(i64,i64,)> = parse_rows(rows)?; if append { self.p.r2.extend(v) } else { self.p.r2 = v } },
         3 => { let v: Vec<(i64,i64,i64,)> = parse_rows(rows)?; if append { self.p.r3.extend(v) } else { self.p.r3 = v } },
         4 => { let v: Vec<(i64,i64,)> = parse_rows(rows)?; if append { self.p.r4.extend(v) } else { self.p.r4 = v } },
         5 => { let v: Vec<(i64,i64,)> = parse_rows(rows)?; if append { self.p.r5.extend(v) } else { self.p.r5 = v } },
         6 => { let v: Vec<(i64,)> = parse_rows(rows)?; if append { self.p.r6.extend(v) } else { self.p.r6 = v } },
         7 => { let v: Vec<(i64,i64,)> = parse_rows(rows)?; if append { self.p.r7.extend(v) } else { self.p.r7 = v } },
         8 => { let v: Vec<(i64,i64,)> = parse_rows(rows)?; if append { self.p.r8.extend(v) } else { self.p.r8 = v } },
            _ => return None,
         }
         Some(())
      }
      fn run(&mut self) { match &self.pool { Some(pl) => { let p = &mut self.p; pl.install(|| p.run()) }, None => self.p.run() } }
      fn run_here(&mut self) { self.p.run() }
      fn run_timeout(&mut self, k: usize) -> Option<bool> { let _ = k; None }
      fn dump(&self) -> String { vec![dump_rel(0, self.p.r0.iter().map(Row::render).collect()), dump_rel(1, self.p.r1.iter().map(Row::render).collect()), dump_rel(2, self.p.r2.iter().map(Row::render).collect()), dump_rel(3, self.p.r3.iter().map(Row::render).collect()), dump_rel(4, self.p.r4.iter().map(Row::render).collect()), dump_rel(5, self.p.r5.iter().map(Row::render).collect()), dump_rel(6, self.p.r6.iter().map(Row::render).collect()), dump_rel(7, self.p.r7.iter().map(Row::render).collect()), dump_rel(8, self.p.r8.iter().map(Row::render).collect())].join(" | ") }
      fn iters(&self) -> String { format!("iters {}", self.p.scc_iters.iter().map(|x| x.to_string()).collect::<Vec<_>>().join(" ")) }
   }
}

#[allow(unused, non_snake_case, clippy::all)]
pub mod a11 {
   use ascent::*;
   use ascent::aggregators::*;
   use ascent::lattice::{Dual, set::Set};
   use crate::common::*;
   ascent! {
      pub struct Prog;
      relation r0(i64, i64);
      relation r1(i64, i64);
      relation r2(i64, i64);
      relation r3(i64, i64);
      relation r4(i64);
      r1(v0, v1) <-- r1(v0, v1), r1(v1, v1);
      r1(v0, v1) <-- r2(v0, v1) if ((*v0) < 3), r1(v1, v2) if ((*v2) != (*v1));
      r2(v0, v1) <-- r2(v0, 2), let v1 = (*v0);
      r2(v2, v1) <-- r2(3, v0), r0(v0, v1), if let Some(v2) = None::<i64>;
      r2(v1, v1) <-- r0(v0, v1) if ((*v1) <= 5);
      r2(v1, (v0 + 1)) <-- let v0 = 2, r0((v0 + 0), v1) if (v0 <= 3), if (v0 < 6);
      r3(v1, v21) <-- r1(v0, v1), agg v21 = max(v20) in r0(_, v20);
      r4(v0) <-- r2(v0, v1), r0(v32, v0), agg () = not() in r2(1, (*v1));
   }
   pub struct Inst { p: Prog, pool: Option<ascent::rayon::ThreadPool> }
   pub fn make(pool: Option<usize>) -> Box<dyn Driver> {
      let pool = pool.map(|n| ascent::rayon::ThreadPoolBuilder::new().num_threads(n).build().unwrap());
      let p = match &pool { Some(pl) => pl.install(|| Default::default()), None => Default::default() };
      Box::new(Inst { p, pool })
   }
   impl Driver for Inst {
      fn load(&mut self, rel: usize, rows: &[Sexp], append: bool) -> Option<()> {
         match rel {
         0 => { let v: Vec<(i64,i64,)> = parse_rows(rows)?; if append { self.p.r0.extend(v) } else { self.p.r0 = v } },
         1 => { let v: Vec<(i64,i64,)> = parse_rows(rows)?; if append { self.p.r1.extend(v) } else { self.p.r1 = v } },
         2 => { let v: Vec<(i64,i64,)> = parse_rows(rows)?; if append { self.p.r2.extend(v) } else { self.p.r2 = v } },
         3 => { let v: Vec<(i64,i64,)> = parse_rows(rows)?; if append { self.p.r3.extend(v) } else { self.p.r3 = v } },
         4 => { let v: Vec<(i64,)> = parse_rows(rows)?; if append { self.p.r4.extend(v) } else { self.p.r4 = v } },
            _ => return None,
         }
         Some(())
      }
      fn run(&mut self) { match &self.pool { Some(pl) => { let p = &mut self.p; pl.install(|| p.run()) }, None => self.p.run() } }
      fn run_here(&mut self) { self.p.run() }
      fn run_timeout(&mut self, k: usize) -> Option<bool> { let _ = k; None }
      fn dump(&self) -> String { vec![dump_rel(0, self.p.r0.iter().map(Row::render).collect()), dump_rel(1, self.p.r1.iter().map(Row::render).collect()), dump_rel(2, self.p.r2.iter().map(Row::render).collect()), dump_rel(3, self.p.r3.iter().map(Row::render).collect()), dump_rel(4, self.p.r4.iter().map(Row::render).collect())].join(" | ") }
      fn iters(&self) -> String { format!("iters {}", self.p.scc_iters.iter().map(|x| x.to_string()).collect::<Vec<_>>().join(" ")) }
   }
}

#[allow(unused, non_snake_case, clippy::all)]
pub mod a19 {
   use ascent::*;
   use ascent::aggregators::*;
   use ascent::lattice::{Dual, set::Set};
   use crate::common::*;
   ascent! {
      pub struct Prog;
      relation r0(i64);
      relation r1(i64, i64);
      relation r2(i64, i64, i64);
      relation r3(i64, i64);
      relation r4(i64, i64);
      relation r5(i64, i64);
      relation r6(i64);
      relation r7(i64, i64);
      r1(v0, (v0 + 1)) <-- let v0 = 1, r0(v1), if (v0 < 6);
      r2(v0, v0, v0) <-- r0(v0);
      r3(v2, ((*v0) + 1)) <-- r1(v0, v1), r2(v2, v1, ((*v1) + 1)), if ((*v0) < 6);
      r5(v0, v1) <-- r1(v0, v1), r4(((*v0) + 1), v2);
      r3(0, v2) <-- r2(v0, 2, v1), r0(v1), r4(v0, v0) if ((*v0) < 1) let v2 = ((*v1) + 0);
      r4(v1, v2) <-- r3(v0, v1) if ((*v1) != 3) let v2 = ((*v1) + 0), r2((v2 + 1), v0, v0) if ((*v1) <= 5), r0(v1);
      r6(v0) <-- r5(v0, v1), agg v21 = min(v20) in r3(v20, (*v0));
      r7(v0, v21) <-- r1(v0, v1), agg v21 = sum(v20) in r2(0, (*v1), v20);
   }
   pub struct Inst { p: Prog, pool: Option<ascent::rayon::ThreadPool> }
   pub fn make(pool: Option<usize>) -> Box<dyn Driver> {
      let pool = pool.map(|n| ascent::rayon::ThreadPoolBuilder::new().num_threads(n).build().unwrap());
      let p = match &pool { Some(pl) => pl.install(|| Default::default()), None => Default::default() };
      Box::new(Inst { p, pool })
   }
   impl Driver for Inst {
      fn load(&mut self, rel: usize, rows: &[Sexp], append: bool) -> Option<()> {
         match rel {
         0 => { let v: Vec<(i64,)> = parse_rows(rows)?; if append { self.p.r0.extend(v) } else { self.p.r0 = v } },
         1 => { let v: Vec<(i64,i64,)> = parse_rows(rows)?; if append { self.p.r1.extend(v) } else { self.p.r1 = v } },
         2 => { let v: Vec<(i64,i64,i64,)> = parse_rows(rows)?; if append { self.p.r2.extend(v) } else { self.p.r2 = v } },
         3 => { let v: Vec<(i64,i64,)> = parse_rows(rows)?; if append { self.p.r3.extend(v) } else { self.p.r3 = v } },
         4 => { let v: Vec<(i64,i64,)> = parse_rows(rows)?; if append { self.p.r4.extend(v) } else { self.p.r4 = v } },
         5 => { let v: Vec<(i64,i64,)> = parse_rows(rows)?; if append { self.p.r5.extend(v) } else { self.p.r5 = v } },
         6 => { let v: Vec<(i64,)> = parse_rows(rows)?; if append { self.p.r6.extend(v) } else { self.p.r6 = v } },
         7 => { let v: Vec<(i64,i64,)> = parse_rows(rows)?; if append { self.p.r7.extend(v) } else { self.p.r7 = v } },
            _ => return None,
         }
         Some(())
      }
      fn run(&mut self) { match &self.pool { Some(pl) => { let p = &mut self.p; pl.install(|| p.run()) }, None => self.p.run() } }
      fn run_here(&mut self) { self.p.run() }
      fn run_timeout(&mut self, k: usize) -> Option<bool> { let _ = k; None }
      fn dump(&self) -> String { vec![dump_rel(0, self.p.r0.iter().map(Row::render).collect()), dump_rel(1, self.p.r1.iter().map(Row::render).collect()), dump_rel(2, self.p.r2.iter().map(Row::render).collect()), dump_rel(3, self.p.r3.iter().map(Row::render).collect()), dump_rel(4, self.p.r4.iter().map(Row::render).collect()), dump_rel(5, self.p.r5.iter().map(Row::render).collect()), dump_rel(6, self.p.r6.iter().map(Row::render).collect()), dump_rel(7, self.p.r7.iter().map(Row::render).collect())].join(" | ") }
      fn iters(&self) -> String { format!("iters {}", self.p.scc_iters.iter().map(|x| x.to_string()).collect::<Vec<_>>().join(" ")) }
   }
}

#[allow(unused, non_snake_case, clippy::all)]
pub mod a27 {
   use ascent::*;
   use ascent::aggregators::*;
   use ascent::lattice::{Dual, set::Set};
   use crate::common::*;
   ascent! {
      pub struct Prog;
      relation r0(i64, i64);
      relation r1(i64, i64);
      relation r2(i64, i64);
      relation r3(i64);
      relation r4(i64, i64);
      relation r5(i64);
      relation r6(i64);
      r2(((*v1) + 1), 2) <-- for v0 in 0..3, r0(v1, (v0 + 0)), if (v0 == 1), if ((*v1) < 6);
      r2(v2, v1) <-- r2(v0, v1), if ((*v0) != 2), r2(v2, v3), let v4 = ((*v1) + 2);
      r3(v0) <-- r0(v0, v1), r2(v0, v0), r0(v1, v2);
      r2(v0, v1) <-- let v0 = 3, r0(v1, (v0 + 1)), r3(v0) if ((*v1) < 6), let v2 = std::cmp::min((*v1), 4), r3(v0);
      r2(3, 1);
      r3(1) <-- r0(0, 0);
      r2(v2, v1) <-- r2(v0, v1) if ((*v1) < 5), r0(v0, v2);
      r4(v0, v21) <-- r1(v0, v1), agg v21 = max(v20) in r3(v20);
      r5(v1) <-- r1(v0, v1), r3(v0), r0(v32, v1), agg v21 = count() in r2((*v0), _);
      r6(v1) <-- r0(v0, v1), agg v21 = count() in r1((*v0), (*v0));
   }
   pub struct Inst { p: Prog, pool: Option<ascent::rayon::ThreadPool> }
   pub fn make(pool: Option<usize>) -> Box<dyn Driver> {
      let pool = pool.map(|n| ascent::rayon::ThreadPoolBuilder::new().num_threads(n).build().unwrap());
      let p = match &pool { Some(pl) => pl.install(|| Default::default()), None => Default::default() };
      Box::new(Inst { p, pool })
   }
   impl Driver for Inst {
      fn load(&mut self, rel: usize, rows: &[Sexp], append: bool) -> Option<()> {
         match rel {
         0 => { let v: Vec<(i64,i64,)> = parse_rows(rows)?; if append { self.p.r0.extend(v) } else { self.p.r0 = v } },
         1 => { let v: Vec<(i64,i64,)> = parse_rows(rows)?; if append { self.p.r1.extend(v) } else { self.p.r1 = v } },
         2 => { let v: Vec<(i64,i64,)> = parse_rows(rows)?; if append { self.p.r2.extend(v) } else { self.p.r2 = v } },
         3 => { let v: Vec<(i64,)> = parse_rows(rows)?; if append { self.p.r3.extend(v) } else { self.p.r3 = v } },
         4 => { let v: Vec<(i64,i64,)> = parse_rows(rows)?; if append { self.p.r4.extend(v) } else { self.p.r4 = v } },
         5 => { let v: Vec<(i64,)> = parse_rows(rows)?; if append { self.p.r5.extend(v) } else { self.p.r5 = v } },
         6 => { let v: Vec<(i64,)> = parse_rows(rows)?; if append { self.p.r6.extend(v) } else { self.p.r6 = v } },
            _ => return None,
         }
         Some(())
      }
      fn run(&mut self) { match &self.pool { Some(pl) => { let p = &mut self.p; pl.install(|| p.run()) }, None => self.p.run() } }
      fn run_here(&mut self) { self.p.run() }
      fn run_timeout(&mut self, k: usize) -> Option<bool> { let _ = k; None }
      fn dump(&self) -> String { vec![dump_rel(0, self.p.r0.iter().map(Row::render).collect()), dump_rel(1, self.p.r1.iter().map(Row::render).collect()), dump_rel(2, self.p.r2.iter().map(Row::render).collect()), dump_rel(3, self.p.r3.iter().map(Row::render).collect()), dump_rel(4, self.p.r4.iter().map(Row::render).collect()), dump_rel(5, self.p.r5.iter().map(Row::render).collect()), dump_rel(6, self.p.r6.iter().map(Row::render).collect())].join(" | ") }
      fn iters(&self) -> String { format!("iters {}", self.p.scc_iters.iter().map(|x| x.to_string()).collect::<Vec<_>>().join(" ")) }
   }
}

#[allow(unused, non_snake_case, clippy::all)]
pub mod a35 {
   use ascent::*;
   use ascent::aggregators::*;
   use ascent::lattice::{Dual, set::Set};
   use crate::common::*;
   ascent! {
      pub struct Prog;
      relation r0(i64, i64);
      relation r1(i64, i64);
      relation r2(i64, i64);
      relation r3(i64, i64);
      relation r4(i64, i64);
      relation r5(i64, i64);
      relation r6(i64);
      relation r7(i64, i64);
      r2(v2, v2) <-- if let Some(v0) = Some(3), r0(v1, v2);
      r3(v0, v2) <-- r2(v0, v1), r5(v2, v0) if ((*v1) <= 5) let v3 = ((*v0) + 0);
      r2(0, ((*v1) + 1)) <-- r3(v0, v1) if ((*v1) < 5), let v2 = (*v0), if ((*v1) < 6);
      r4(v0, v1) <-- r1(v0, v1), r1(v0, v0), r1(v1, v2);
      r3(v2, 2) <-- if let Some(v0) = Some(4), r1(v1, v2);
      r6(v1) <-- r2(v0, v1), r4(v1, v32), agg v21 = max(v20) in r1(v20, 3);
      r7(v1, v21) <-- r0(v0, v1), agg v21 = max(v20) in r4(_, v20);
   }
   pub struct Inst { p: Prog, pool: Option<ascent::rayon::ThreadPool> }
   pub fn make(pool: Option<usize>) -> Box<dyn Driver> {
      let pool = pool.map(|n| ascent::rayon::ThreadPoolBuilder::new().num_threads(n).build().unwrap());
      let p = match &pool { Some(pl) => pl.install(|| Default::default()), None => Default::default() };
      Box::new(Inst { p, pool })
   }
   impl Driver for Inst {
      fn load(&mut self, rel: usize, rows: &[Sexp], append: bool) -> Option<()> {
         match rel {
         0 => { let v: Vec<(i64,i64,)> = parse_rows(rows)?; if append { self.p.r0.extend(v) } else { self.p.r0 = v } },
         1 => { let v: Vec<(i64,i64,)> = parse_rows(rows)?; if append { self.p.r1.extend(v) } else { self.p.r1 = v } },
         2 => { let v: Vec<(i64,i64,)> = parse_rows(rows)?; if append { self.p.r2.extend(v) } else { self.p.r2 = v } },
         3 => { let v: Vec<(i64,i64,)> = parse_rows(rows)?; if append { self.p.r3.extend(v) } else { self.p.r3 = v } },
         4 => { let v: Vec<(i64,i64,)> = parse_rows(rows)?; if append { self.p.r4.extend(v) } else { self.p.r4 = v } },
         5 => { let v: Vec<(i64,i64,)> = parse_rows(rows)?; if append { self.p.r5.extend(v) } else { self.p.r5 = v } },
         6 => { let v: Vec<(i64,)> = parse_rows(rows)?; if append { self.p.r6.extend(v) } else { self.p.r6 = v } },
         7 => { let v: Vec<(i64,i64,)> = parse_rows(rows)?; if append { self.p.r7.extend(v) } else { self.p.r7 = v } },
            _ => return None,
         }
         Some(())
      }
      fn run(&mut self) { match &self.pool { Some(pl) => { let p = &mut self.p; pl.install(|| p.run()) }, None => self.p.run() } }
      fn run_here(&mut self) { self.p.run() }
      fn run_timeout(&mut self, k: usize) -> Option<bool> { let _ = k; None }
      fn dump(&self) -> String { vec![dump_rel(0, self.p.r0.iter().map(Row::render).collect()), dump_rel(1, self.p.r1.iter().map(Row::render).collect()), dump_rel(2, self.p.r2.iter().map(Row::render).collect()), dump_rel(3, self.p.r3.iter().map(Row::render).collect()), dump_rel(4, self.p.r4.iter().map(Row::render).collect()), dump_rel(5, self.p.r5.iter().map(Row::render).collect()), dump_rel(6, self.p.r6.iter().map(Row::render).collect()), dump_rel(7, self.p.r7.iter().map(Row::render).collect())].join(" | ") }
      fn iters(&self) -> String { format!("iters {}", self.p.scc_iters.iter().map(|x| x.to_string()).collect::<Vec<_>>().join(" ")) }
   }
}

#[allow(unused, non_snake_case, clippy::all)]
pub mod a43 {
   use ascent::*;
   use ascent::aggregators::*;
   use ascent::lattice::{Dual, set::Set};
   use crate::common::*;
   ascent! {
      pub struct Prog;
      relation r0(i64);
      relation r1(i64, i64);
      relation r2(i64, i64);
      relation r3(i64, i64);
      relation r4(i64, i64);
      relation r5(i64, i64);
      relation r6(i64, i64);
      relation r7(i64);
      relation r8(i64, i64);
      relation r9(i64);
      relation r10(i64);
      r1(3, 2) <-- r0(2);
      r2(0, v0) <-- r1(v0, v1);
      r3(v2, v0) <-- r2(v0, v1) if ((*v1) <= 4), r2(v2, v1);
      r4((v0 + 1), (v0 + 1)) <-- for v0 in 1..4, r3(v1, v0), r2(v2, 0) if ((*v1) <= 3), if (v0 < 6), if (v0 < 6);
      r5(2, v0) <-- r4(v0, 0) if ((*v0) < 2), if ((*v0) != 2);
      r2(v0, v8) <-- if let Some(v9) = Some(3), r3(v0, v1), r2(v1, v9) let v8 = ((*v0) + 1);
      r1(v0, v1) <-- r3(v0, v1), r2(v0, v0), r3(v1, v2);
      r3(0, 0);
      r5(v0, v1) <-- r2(v0, v1);
      r0(3);
      r3(v1, v3) <-- r3(v0, v1), r1(v2, v0) if ((*v2) < 5), r1(v1, v3);
      r6(v1, v21) <-- r2(v0, v1), agg v21 = min(v20) in r2((*v1), v20);
      r7(v0) <-- r4(v0, v1), r1(v32, v33), r0(v33), agg () = not() in r2(1, 2);
      r8(v0, v21) <-- r0(v0), agg v21 = min(v20) in r6(v20, 0);
      r9(v0) <-- r3(v0, v1), agg v21 = max(v20) in r4(v20, _);
      r10(v32) <-- r5(v0, v1), r2(v32, v33), r4(v33, v33), agg v21 = count() in r7((*v1));
   }
   pub struct Inst { p: Prog, pool: Option<ascent::rayon::ThreadPool> }
   pub fn make(pool: Option<usize>) -> Box<dyn Driver> {
      let pool = pool.map(|n| ascent::rayon::ThreadPoolBuilder::new().num_threads(n).build().unwrap());
      let p = match &pool { Some(pl) => pl.install(|| Default::default()), None => Default::default() };
      Box::new(Inst { p, pool })
   }
   impl Driver for Inst {
      fn load(&mut self, rel: usize, rows: &[Sexp], append: bool) -> Option<()> {
         match rel {
         0 => { let v: Vec<(i64,)> = parse_rows(rows)?; if append { self.p.r0.extend(v) } else { self.p.r0 = v } },
         1 => { let v: Vec<(i64,i64,)> = parse_rows(rows)?; if append { self.p.r1.extend(v) } else { self.p.r1 = v } },
         2 => { let v: Vec<(i64,i64,)> = parse_rows(rows)?; if append { self.p.r2.extend(v) } else { self.p.r2 = v } },
         3 => { let v: Vec<(i64,i64,)> = parse_rows(rows)?; if append { self.p.r3.extend(v) } else { self.p.r3 = v } },
         4 => { let v: Vec<(i64,i64,)> = parse_rows(rows)?; if append { self.p.r4.extend(v) } else { self.p.r4 = v } },
         5 => { let v: Vec<(i64,i64,)> = parse_rows(rows)?; if append { self.p.r5.extend(v) } else { self.p.r5 = v } },
         6 => { let v: Vec<(i64,i64,)> = parse_rows(rows)?; if append { self.p.r6.extend(v) } else { self.p.r6 = v } },
         7 => { let v: Vec<(i64,)> = parse_rows(rows)?; if append { self.p.r7.extend(v) } else { self.p.r7 = v } },
         8 => { let v: Vec<(i64,i64,)> = parse_rows(rows)?; if append { self.p.r8.extend(v) } else { self.p.r8 = v } },
         9 => { let v: Vec<(i64,)> = parse_rows(rows)?; if append { self.p.r9.extend(v) } else { self.p.r9 = v } },
         10 => { let v: Vec<(i64,)> = parse_rows(rows)?; if append { self.p.r10.extend(v) } else { self.p.r10 = v } },
            _ => return None,
         }
         Some(())
      }
      fn run(&mut self) { match &self.pool { Some(pl) => { let p = &mut self.p; pl.install(|| p.run()) }, None => self.p.run() } }
      fn run_here(&mut self) { self.p.run() }
      fn run_timeout(&mut self, k: usize) -> Option<bool> { let _ = k; None }
      fn dump(&self) -> String { vec![dump_rel(0, self.p.r0.iter().map(Row::render).collect()), dump_rel(1, self.p.r1.iter().map(Row::render).collect()), dump_rel(2, self.p.r2.iter().map(Row::render).collect()), dump_rel(3, self.p.r3.iter().map(Row::render).collect()), dump_rel(4, self.p.r4.iter().map(Row::render).collect()), dump_rel(5, self.p.r5.iter().map(Row::render).collect()), dump_rel(6, self.p.r6.iter().map(Row::render).collect()), dump_rel(7, self.p.r7.iter().map(Row::render).collect()), dump_rel(8, self.p.r8.iter().map(Row::render).collect()), dump_rel(9, self.p.r9.iter().map(Row::render).collect()), dump_rel(10, self.p.r10.iter().map(Row::render).collect())].join(" | ") }
      fn iters(&self) -> String { format!("iters {}", self.p.scc_iters.iter().map(|x| x.to_string()).collect::<Vec<_>>().join(" ")) }
   }
}

#[allow(unused, non_snake_case, clippy::all)]
pub mod a51 {
   use ascent::*;
   use ascent::aggregators::*;
   use ascent::lattice::{Dual, set::Set};
   use crate::common::*;
   ascent! {
      pub struct Prog;
      relation r0(i64, i64, i64);
      relation r1(i64, i64, i64);
      relation r2(i64, i64, i64);
      relation r3(i64);
      relation r4(i64, i64);
      relation r5(i64);
      relation r6(i64, i64);
      relation r7(i64);
      r2(v0, v0, v0) <-- r1(v0, 2, 1);
      r2(v0, v0, v1) <-- let v0 = 2, r2((v0 + 0), v0, v1), r2(0, v2, ((*v1) + 1)) if ((*v2) != 2);
      r2(((*v0) + 1), v1, v1) <-- r2(1, v0, 0) if ((*v0) < 4) let v1 = ((*v0) + 1), if ((*v0) < 6);
      r2(v5, v0, v0) <-- if let Some(v0) = Some(1), r1(v0, v1, v0), for v2 in [4, 4], r0(v3, v2, v4) if ((*v4) != 4), r0(v5, v6, 0);
      r3(v0) <-- r1(v0, v1, v2), r1(v2, v1, v33), agg () = not() in r2(_, _, (*v2));
      r4(v2, 0) <-- r0(v0, v1, v2), agg () = not() in r1(_, _, _);
      r5(v1) <-- r0(v0, v1, v2), r2(v33, v34, v35), agg v21 = max(v20) in r0(v20, (*v35), (*v0));
      r6(v34, v21) <-- r1(v0, v1, v2), r0(v2, v1, v33), r1(v0, v34, v33), agg v21 = sum(v20) in r1(_, (*v33), v20);
      r7(v34) <-- r1(v0, v1, v2), r2(v0, v33, v1), r1(v1, v34, v0), agg () = not() in r0(_, (*v2), _);
   }
   pub struct Inst { p: Prog, pool: Option<ascent::rayon::ThreadPool> }
   pub fn make(pool: Option<usize>) -> Box<dyn Driver> {
      let pool = pool.map(|n| ascent::rayon::ThreadPoolBuilder::new().num_threads(n).build().unwrap());
      let p = match &pool { Some(pl) => pl.install(|| Default::default()), None => Default::default() };
      Box::new(Inst { p, pool })
   }
   impl Driver for Inst {
      fn load(&mut self, rel: usize, rows: &[Sexp], append: bool) -> Option<()> {
         match rel {
         0 => { let v: Vec<(i64,i64,i64,)> = parse_rows(rows)?; if append { self.p.r0.extend(v) } else { self.p.r0 = v } },
         1 => { let v: Vec<(i64,i64,i64,)> = parse_rows(rows)?; if append { self.p.r1.extend(v) } else { self.p.r1 = v } },
         2 => { let v: Vec<(i64,i64,i64,)> = parse_rows(rows)?; if append { self.p.r2.extend(v) } else { self.p.r2 = v } },
         3 => { let v: Vec<(i64,)> = parse_rows(rows)?; if append { self.p.r3.extend(v) } else { self.p.r3 = v } },
         4 => { let v: Vec<(i64,i64,)> = parse_rows(rows)?; if append { self.p.r4.extend(v) } else { self.p.r4 = v } },
         5 => { let v: Vec<(i64,)> = parse_rows(rows)?; if append { self.p.r5.extend(v) } else { self.p.r5 = v } },
         6 => { let v: Vec<(i64,i64,)> = parse_rows(rows)?; if append { self.p.r6.extend(v) } else { self.p.r6 = v } },
         7 => { let v: Vec<(i64,)> = parse_rows(rows)?; if append { self.p.r7.extend(v) } else { self.p.r7 = v } },
            _ => return None,
         }
         Some(())
      }
      fn run(&mut self) { match &self.pool { Some(pl) => { let p = &mut self.p; pl.install(|| p.run()) }, None => self.p.run() } }
      fn run_here(&mut self) { self.p.run() }
      fn run_timeout(&mut self, k: usize) -> Option<bool> { let _ = k; None }
      fn dump(&self) -> String { vec![dump_rel(0, self.p.r0.iter().map(Row::render).collect()), dump_rel(1, self.p.r1.iter().map(Row::render).collect()), dump_rel(2, self.p.r2.iter().map(Row::render).collect()), dump_rel(3, self.p.r3.iter().map(Row::render).collect()), dump_rel(4, self.p.r4.iter().map(Row::render).collect()), dump_rel(5, self.p.r5.iter().map(Row::render).collect()), dump_rel(6, self.p.r6.iter().map(Row::render).collect()), dump_rel(7, self.p.r7.iter().map(Row::render).collect())].join(" | ") }
      fn iters(&self) -> String { format!("iters {}", self.p.scc_iters.iter().map(|x| x.to_string()).collect::<Vec<_>>().join(" ")) }
   }
}

#[allow(unused, non_snake_case, clippy::all)]
pub mod a59 {
   use ascent::*;
   use ascent::aggregators::*;
   use ascent::lattice::{Dual, set::Set};
   use crate::common::*;
   ascent! {
      pub struct Prog;
      relation r0(i64, i64);
      relation r1(i64, i64, i64);
      relation r2(i64, i64);
      relation r3(i64, i64);
      relation r4(i64, i64);
      r2(v0, v1) <-- let v9 = 1, r3(v0, v1), r3(v1, v9);
      r2(v0, v2) <-- r2(v0, v1), r0(v1, v2), r0(v2, v3);
      r3(2, v1) <-- if let Some(v0) = Some(4), r1(v0, v0, v0), r1(v1, v0, v2) if ((*v2) < 2);
      r3(v0, v1) <-- r2(3, 2), r3(1, v0), r1(v1, v0, v2) if ((*v2) <= 1) let v3 = ((*v1) + 0);
      r2(v2, 3) <-- for v0 in [3, 4], r3(v1, (v0 + 0)), if let Some(v2) = Some(std::cmp::min(v0, 4));
      r2(v0, v0) <-- if let Some(v0) = Some(0);
      r4(v0, v21) <-- r2(v0, v1), agg v21 = min(v20) in r3(v20, (*v1));
   }
   pub struct Inst { p: Prog, pool: Option<ascent::rayon::ThreadPool> }
   pub fn make(pool: Option<usize>) -> Box<dyn Driver> {
      let pool = pool.map(|n| ascent::rayon::ThreadPoolBuilder::new().num_threads(n).build().unwrap());
      let p = match &pool { Some(pl) => pl.install(|| Default::default()), None => Default::default() };
      Box::new(Inst { p, pool })
   }
   impl Driver for Inst {
      fn load(&mut self, rel: usize, rows: &[Sexp], append: bool) -> Option<()> {
         match rel {
         0 => { let v: Vec<(i64,i64,)> = parse_rows(rows)?; if append { self.p.r0.extend(v) } else { self.p.r0 = v } },
         1 => { let v: Vec<(i64,i64,i64,)> = parse_rows(rows)?; if append { self.p.r1.extend(v) } else { self.p.r1 = v } },
         2 => { let v: Vec<(i64,i64,)> = parse_rows(rows)?; if append { self.p.r2.extend(v) } else { self.p.r2 = v } },
         3 => { let v: Vec<(i64,i64,)> = parse_rows(rows)?; if append { self.p.r3.extend(v) } else { self.p.r3 = v } },
         4 => { let v: Vec<(i64,i64,)> = parse_rows(rows)?; if append { self.p.r4.extend(v) } else { self.p.r4 = v } },
            _ => return None,
         }
         Some(())
      }
      fn run(&mut self) { match &self.pool { Some(pl) => { let p = &mut self.p; pl.install(|| p.run()) }, None => self.p.run() } }
      fn run_here(&mut self) { self.p.run() }
      fn run_timeout(&mut self, k: usize) -> Option<bool> { let _ = k; None }
      fn dump(&self) -> String { vec![dump_rel(0, self.p.r0.iter().map(Row::render).collect()), dump_rel(1, self.p.r1.iter().map(Row::render).collect()), dump_rel(2, self.p.r2.iter().map(Row::render).collect()), dump_rel(3, self.p.r3.iter().map(Row::render).collect()), dump_rel(4, self.p.r4.iter().map(Row::render).collect())].join(" | ") }
      fn iters(&self) -> String { format!("iters {}", self.p.scc_iters.iter().map(|x| x.to_string()).collect::<Vec<_>>().join(" ")) }
   }
}

#[allow(unused, non_snake_case, clippy::all)]
pub mod a67 {
   use ascent::*;
   use ascent::aggregators::*;
   use ascent::lattice::{Dual, set::Set};
   use crate::common::*;
   ascent! {
      pub struct Prog;
      relation r0(i64, i64);
      relation r1(i64, i64, i64);
      relation r2(i64);
      relation r3(i64, i64);
      relation r4(i64, i64);
      relation r5(i64, i64);
      relation r6(i64);
      relation r7(i64);
      relation r8(i64);
      relation r9(i64);
      r1(((*v0) + 1), v0, v1) <-- r0(v0, v1) if ((*v1) != 2), if let Some(v2) = None::<i64>, if ((*v0) < 6);
      r2(v0) <-- r1(v0, v1, v2) if ((*v0) != 3);
      r3(v1, v1) <-- r2(v0), r3(v1, v2);
      r4(v0, ((*v1) + 1)) <-- if let Some(v0) = Some(2), r3(v1, v0), if ((*v1) < 6);
      r4(v0, v1) <-- r0(v0, v1), r0(v0, v0), r0(v1, v2);
      r3(v0, v1) <-- r3(v0, v1) if ((*v0) < 4), r4(v1, v2) if ((*v2) != (*v1));
      r4(v2, ((*v2) + 1)) <-- r3(v0, v1) if ((*v1) < 5), r4(v2, 2), if ((*v2) < 6);
      r3(v0, v1) <-- r4(1, v0), let v1 = (*v0);
      r3(v2, v0) <-- let v0 = 3, r0(v0, 1), r0(v1, v2), for v3 in 1..1;
      r1(1, 3, v1) <-- r0(v0, 0) if ((*v0) <= 3) let v1 = ((*v0) + 1);
      r5(v0, (v21 as i64)) <-- r4(v0, v1), agg v21 = count() in r1(_, 2, (*v0));
      r6(v0) <-- r0(v0, v1), r3(v32, v33), r1(v33, v1, v1), agg v21 = sum(v20) in r1((*v33), _, v20);
      r7(v1) <-- r3(v0, v1), r0(v32, v33), r3(v34, v32), agg v21 = min(v20) in r0(0, v20);
      r8(v0) <-- r0(v0, v1), agg () = not() in r0(_, (*v1));
      r9(v1) <-- r3(v0, v1), r0(v1, v32), agg () = not() in r2(_);
   }
   pub struct Inst { p: Prog, pool: Option<ascent::rayon::ThreadPool> }
   pub fn make(pool: Option<usize>) -> Box<dyn Driver> {
      let pool = pool.map(|n| ascent::rayon::ThreadPoolBuilder::new().num_threads(n).build().unwrap());
      let p = match &pool { Some(pl) => pl.install(|| Default::default()), None => Default::default() };
      Box::new(Inst { p, pool })
   }
   impl Driver for Inst {
      fn load(&mut self, rel: usize, rows: &[Sexp], append: bool) -> Option<()> {
         match rel {
         0 => { let v: Vec<(i64,i64,)> = parse_rows(rows)?; if append { self.p.r0.extend(v) } else { self.p.r0 = v } },
         1 => { let v: Vec<(i64,i64,i64,)> = parse_rows(rows)?; if append { self.p.r1.extend(v) } else { self.p.r1 = v } },
         2 => { let v: Vec<(i64,)> = parse_rows(rows)?; if append { self.p.r2.extend(v) } else { self.p.r2 = v } },
         3 => { let v: Vec<(i64,i64,)> = parse_rows(rows)?; if append { self.p.r3.extend(v) } else { self.p.r3 = v } },
         4 => { let v: Vec<(i64,i64,)> = parse_rows(rows)?; if append { self.p.r4.extend(v) } else { self.p.r4 = v } },
         5 => { let v: Vec<(i64,i64,)> = parse_rows(rows)?; if append { self.p.r5.extend(v) } else { self.p.r5 = v } },
         6 => { let v: Vec<(i64,)> = parse_rows(rows)?; if append { self.p.r6.extend(v) } else { self.p.r6 = v } },
         7 => { let v: Vec<(i64,)> = parse_rows(rows)?; if append { self.p.r7.extend(v) } else { self.p.r7 = v } },
         8 => { let v: Vec<(i64,)> = parse_rows(rows)?; if append { self.p.r8.extend(v) } else { self.p.r8 = v } },
         9 => { let v: Vec<(i64,)> = parse_rows(rows)?; if append { self.p.r9.extend(v) } else { self.p.r9 = v } },
            _ => return None,
         }
         Some(())
      }
      fn run(&mut self) { match &self.pool { Some(pl) => { let p = &mut self.p; pl.install(|| p.run()) }, None => self.p.run() } }
      fn run_here(&mut self) { self.p.run() }
      fn run_timeout(&mut self, k: usize) -> Option<bool> { let _ = k; None }
      fn dump(&self) -> String { vec![dump_rel(0, self.p.r0.iter().map(Row::render).collect()), dump_rel(1, self.p.r1.iter().map(Row::render).collect()), dump_rel(2, self.p.r2.iter().map(Row::render).collect()), dump_rel(3, self.p.r3.iter().map(Row::render).collect()), dump_rel(4, self.p.r4.iter().map(Row::render).collect()), dump_rel(5, self.p.r5.iter().map(Row::render).collect()), dump_rel(6, self.p.r6.iter().map(Row::render).collect()), dump_rel(7, self.p.r7.iter().map(Row::render).collect()), dump_rel(8, self.p.r8.iter().map(Row::render).collect()), dump_rel(9, self.p.r9.iter().map(Row::render).collect())].join(" | ") }
      fn iters(&self) -> String { format!("iters {}", self.p.scc_iters.iter().map(|x| x.to_string()).collect::<Vec<_>>().join(" ")) }
   }
}

#[allow(unused, non_snake_case, clippy::all)]
pub mod a75 {
   use ascent::*;
   use ascent::aggregators::*;
   use ascent::lattice::{Dual, set::Set};
   use crate::common::*;
   ascent! {
      pub struct Prog;
      relation r0(i64, i64);
      relation r1(i64, i64);
      relation r2(i64, i64);
      relation r3(i64, i64);
      r1((v0 + 1), v2) <-- let v0 = 0, r0(v1, v2) if ((*v1) != 5), if (v0 < 6);
      r2(v0, v0) <-- r1(v0, 2), r1(v0, v0) if ((*v0) <= 4);
      r2(v0, v1) <-- r2(v0, v1) if ((*v0) < 2), r1(v1, v2) if ((*v2) != (*v1));
      r1(v0, ((*v1) + 1)) <-- if let Some(v0) = Some(2), r0(1, v1), let v2 = v0, if ((*v1) < 6);
      r1(v0, 3) <-- r1(v0, v1);
      r3(v1, (v21 as i64)) <-- r2(v0, v1), agg v21 = count() in r0(_, 1);
   }
   pub struct Inst { p: Prog, pool: Option<ascent::rayon::ThreadPool> }
   pub fn make(pool: Option<usize>) -> Box<dyn Driver> {
      let pool = pool.map(|n| ascent::rayon::ThreadPoolBuilder::new().num_threads(n).build().unwrap());
      let p = match &pool { Some(pl) => pl.install(|| Default::default()), None => Default::default() };
      Box::new(Inst { p, pool })
   }
   impl Driver for Inst {
      fn load(&mut self, rel: usize, rows: &[Sexp], append: bool) -> Option<()> {
         match rel {
         0 => { let v: Vec<(i64,i64,)> = parse_rows(rows)?; if append { self.p.r0.extend(v) } else { self.p.r0 = v } },
         1 => { let v: Vec<(i64,i64,)> = parse_rows(rows)?; if append { self.p.r1.extend(v) } else { self.p.r1 = v } },
         2 => { let v: Vec<(i64,i64,)> = parse_rows(rows)?; if append { self.p.r2.extend(v) } else { self.p.r2 = v } },
         3 => { let v: Vec<(i64,i64,)> = parse_rows(rows)?; if append { self.p.r3.extend(v) } else { self.p.r3 = v } },
            _ => return None,
         }
         Some(())
      }
      fn run(&mut self) { match &self.pool { Some(pl) => { let p = &mut self.p; pl.install(|| p.run()) }, None => self.p.run() } }
      fn run_here(&mut self) { self.p.run() }
      fn run_timeout(&mut self, k: usize) -> Option<bool> { let _ = k; None }
      fn dump(&self) -> String { vec![dump_rel(0, self.p.r0.iter().map(Row::render).collect()), dump_rel(1, self.p.r1.iter().map(Row::render).collect()), dump_rel(2, self.p.r2.iter().map(Row::render).collect()), dump_rel(3, self.p.r3.iter().map(Row::render).collect())].join(" | ") }
      fn iters(&self) -> String { format!("iters {}", self.p.scc_iters.iter().map(|x| x.to_string()).collect::<Vec<_>>().join(" ")) }
   }
}

fn main() {
   common::main_loop(&[("a3", a3::make as common::Factory), ("a11", a11::make as common::Factory), ("a19", a19::make as common::Factory), ("a27", a27::make as common::Factory), ("a35", a35::make as common::Factory), ("a43", a43::make as common::Factory), ("a51", a51::make as common::Factory), ("a59", a59::make as common::Factory), ("a67", a67::make as common::Factory), ("a75", a75::make as common::Factory)]);
}
