#[path = "common.rs"]
mod common;
#[allow(unused, non_snake_case, clippy::all)]
pub mod h1x {
   use ascent::*;
   use ascent::aggregators::*;
   use ascent::lattice::{Dual, set::Set};
   use crate::common::*;
   ascent! {
      pub struct Prog;
      relation r0(i64, i64);
      relation r1(i64, Option<i64>);
      relation r2(i64);
      relation r3(i64, i64, i64);
      relation r4(i64, i64);
      relation r5(i64);
      relation r6(i64, i64);
      relation r7(i64, i64, i64);
      relation r8(i64);
      r6(v3, v2) <-- r0(v0, v1), r7(v2, v102, v100), if (v100.clone() < 1), r7(v3, v103, v101), if (v101.clone() < 1);
      r6(3, std::cmp::min(std::cmp::min(v1.clone(), 2), 6)) <-- r4(v0, v105), r7(v1, v106, v104), if (v104.clone() < 1), if (v1.clone() < 5);
      r7(std::cmp::min(std::cmp::min(v1.clone(), 2), 6), std::cmp::min(std::cmp::min(v1.clone(), 2), 6), std::cmp::min(std::cmp::min(v1.clone(), 2), 6)) <-- r4(v0, v105), r7(v1, v106, v104), if (v104.clone() < 1), if (v1.clone() < 5);
      r8((v1.clone() + 1)) <-- r4(v0, v105), r7(v1, v106, v104), if (v104.clone() < 1), if (v1.clone() < 5);
      r6(3, std::cmp::min(std::cmp::min(v1.clone(), 2), 6)) <-- r4(v0, v107), r2(v1), if (v1.clone() < 5);
      r7(std::cmp::min(std::cmp::min(v1.clone(), 2), 6), std::cmp::min(std::cmp::min(v1.clone(), 2), 6), std::cmp::min(std::cmp::min(v1.clone(), 2), 6)) <-- r4(v0, v107), r2(v1), if (v1.clone() < 5);
      r8((v1.clone() + 1)) <-- r4(v0, v107), r2(v1), if (v1.clone() < 5);
      r6(v0, v0) <-- r2(v0), r7(v109, v110, v108) if (v109.clone() == v0.clone()), if (v108.clone() < 1);
      r7(v0, v0, v0) <-- r7(v0, v112, v111), if (v111.clone() < 1);
      r6(3, std::cmp::min(std::cmp::max(v0.clone(), 1), 6)) <-- r7(v0, v114, v115) if (v114.clone() == v0.clone()) if (v115.clone() == v0.clone()) if (v0.clone() == 3) let v1 = std::cmp::min(std::cmp::max(v0.clone(), 3), 6), r3(v113, v116, v2) if (v116.clone() == 3), if (v0.clone() < 3), if ((v0.clone() + 1) < 2);
      r7(std::cmp::min(std::cmp::max(v0.clone(), 1), 6), std::cmp::min(std::cmp::max(v0.clone(), 1), 6), std::cmp::min(std::cmp::max(v0.clone(), 1), 6)) <-- r7(v0, v114, v115) if (v114.clone() == v0.clone()) if (v115.clone() == v0.clone()) if (v0.clone() == 3) let v1 = std::cmp::min(std::cmp::max(v0.clone(), 3), 6), r3(v113, v116, v2) if (v116.clone() == 3), if (v0.clone() < 3), if ((v0.clone() + 1) < 2);
      r7(v2, v1, v0) <-- r7(v0, v114, v115) if (v114.clone() == v0.clone()) if (v115.clone() == v0.clone()) if (v0.clone() == 3) let v1 = std::cmp::min(std::cmp::max(v0.clone(), 3), 6), r3(v113, v116, v2) if (v116.clone() == 3), if (v0.clone() < 3), if ((v0.clone() + 1) < 2);
      r6(3, std::cmp::min(std::cmp::max(v0.clone(), 1), 6)) <-- r7(v0, v117, v118) if (v117.clone() == v0.clone()) if (v118.clone() == v0.clone()) if (v0.clone() == 3) let v1 = std::cmp::min(std::cmp::max(v0.clone(), 3), 6), r0(v119, v2) if (v119.clone() == v0.clone()), if ((v0.clone() + 1) < 2);
      r7(std::cmp::min(std::cmp::max(v0.clone(), 1), 6), std::cmp::min(std::cmp::max(v0.clone(), 1), 6), std::cmp::min(std::cmp::max(v0.clone(), 1), 6)) <-- r7(v0, v117, v118) if (v117.clone() == v0.clone()) if (v118.clone() == v0.clone()) if (v0.clone() == 3) let v1 = std::cmp::min(std::cmp::max(v0.clone(), 3), 6), r0(v119, v2) if (v119.clone() == v0.clone()), if ((v0.clone() + 1) < 2);
      r7(v2, v1, v0) <-- r7(v0, v117, v118) if (v117.clone() == v0.clone()) if (v118.clone() == v0.clone()) if (v0.clone() == 3) let v1 = std::cmp::min(std::cmp::max(v0.clone(), 3), 6), r0(v119, v2) if (v119.clone() == v0.clone()), if ((v0.clone() + 1) < 2);
      r7(v1, v1, v0) <-- r8(v0), r3(v120, v122, v1) if (v122.clone() == 3), if (v0.clone() < 3), if ((v0.clone() + 0) < 2), r3(v121, v123, v2) if (v123.clone() == 3), if (v1.clone() < 3), if ((v0.clone() + v1.clone()) < 2);
      r7(v1, v1, v0) <-- r8(v0), r3(v120, v124, v1) if (v124.clone() == 3), if (v0.clone() < 3), if ((v0.clone() + 0) < 2), r0(v125, v2) if (v125.clone() == v1.clone()), if ((v0.clone() + v1.clone()) < 2);
      r7(v1, v1, v0) <-- r8(v0), r0(v126, v1) if (v126.clone() == v0.clone()), if ((v0.clone() + 0) < 2), r3(v121, v127, v2) if (v127.clone() == 3), if (v1.clone() < 3), if ((v0.clone() + v1.clone()) < 2);
      r7(v1, v1, v0) <-- r8(v0), r0(v128, v1) if (v128.clone() == v0.clone()), if ((v0.clone() + 0) < 2), r0(v129, v2) if (v129.clone() == v1.clone()), if ((v0.clone() + v1.clone()) < 2);
      r5(v0) <-- r3(v130, v0, v131) if (v131.clone() == 3);
      r7(1, 1, 1);
   }
   pub struct Inst { p: Prog, pool: Option<ascent::rayon::ThreadPool> }
   pub fn make(pool: Option<usize>) -> Box<dyn Driver> {
      let pool = pool.map(|n| ascent::rayon::ThreadPoolBuilder::new().num_threads(n).build().unwrap());
      let p = match &pool { Some(pl) => pl.install(|| Default::default()), None => Default::default() };
      Box::new(Inst { p, pool })
   }
   impl Driver for Inst {
      fn load(&mut self, rel: usize, rows: &[Sexp], append: bool) -> Option<()> {
         match rel {
         0 => { let v: Vec<(i64,i64,)> = parse_rows(rows)?; if append { self.p.r0.extend(v) } else { self.p.r0 = v } },
         1 => { let v: Vec<(i64,Option<i64>,)> = parse_rows(rows)?; if append { self.p.r1.extend(v) } else { self.p.r1 = v } },
         2 => { let v: Vec<(i64,)> = parse_rows(rows)?; if append { self.p.r2.extend(v) } else { self.p.r2 = v } },
         3 => { let v: Vec<(i64,i64,i64,)> = parse_rows(rows)?; if append { self.p.r3.extend(v) } else { self.p.r3 = v } },
         4 => { let v: Vec<(i64,i64,)> = parse_rows(rows)?; if append { self.p.r4.extend(v) } else { self.p.r4 = v } },
         5 => { let v: Vec<(i64,)> = parse_rows(rows)?; if append { self.p.r5.extend(v) } else { self.p.r5 = v } },
         6 => { let v: Vec<(i64,i64,)> = parse_rows(rows)?; if append { self.p.r6.extend(v) } else { self.p.r6 = v } },
         7 => { let v: Vec<(i64,i64,i64,)> = parse_rows(rows)?; if append { self.p.r7.extend(v) } else { self.p.r7 = v } },
         8 => { let v: Vec<(i64,)> = parse_rows(rows)?; if append { self.p.r8.extend(v) } else { self.p.r8 = v } },
            _ => return None,
         }
         Some(())
      }
      fn run(&mut self) { match &self.pool { Some(pl) => { let p = &mut self.p; pl.install(|| p.run()) }, None => self.p.run() } }
      fn run_here(&mut self) { self.p.run() }
      fn run_timeout(&mut self, k: usize) -> Option<bool> { let _ = k; None }
      fn dump(&self) -> String { vec![dump_rel(0, self.p.r0.iter().map(Row::render).collect()), dump_rel(1, self.p.r1.iter().map(Row::render).collect()), dump_rel(2, self.p.r2.iter().map(Row::render).collect()), dump_rel(3, self.p.r3.iter().map(Row::render).collect()), dump_rel(4, self.p.r4.iter().map(Row::render).collect()), dump_rel(5, self.p.r5.iter().map(Row::render).collect()), dump_rel(6, self.p.r6.iter().map(Row::render).collect()), dump_rel(7, self.p.r7.iter().map(Row::render).collect()), dump_rel(8, self.p.r8.iter().map(Row::render).collect())].join(" | ") }
      fn iters(&self) -> String { format!("iters {}", self.p.scc_iters.iter().map(|x| x.to_string()).collect::<Vec<_>>().join(" ")) }
   }
}

#[allow(unused, non_snake_case, clippy::all)]
pub mod h5x {
   use ascent::*;
   use ascent::aggregators::*;
   use ascent::lattice::{Dual, set::Set};
   use crate::common::*;
   ascent! {
      pub struct Prog;
      relation r0(i64, i64);
      relation r1(i64, Option<i64>);
      relation r2(i64);
      relation r3(i64, i64, i64);
      relation r4(i64);
      relation r5(i64, i64);
      relation r6(i64, i64);
      relation r7(i64, i64);
      r5(2, v0) <-- r2(v0) if (v0.clone() < 5), r2(v100) if (v100.clone() == v0.clone()), r6(v101, v102) if (v101.clone() == v0.clone()) if (v102.clone() == (v0.clone() + 2)), r2(v1), r6(v103, v104) if (v103.clone() == v1.clone()) if (v104.clone() == (v1.clone() + 2));
      r5(3, std::cmp::min(std::cmp::max(v1.clone(), 0), 6)) <-- r2(v0) if (v0.clone() < 5), r2(v100) if (v100.clone() == v0.clone()), r6(v101, v102) if (v101.clone() == v0.clone()) if (v102.clone() == (v0.clone() + 2)), r2(v1), r6(v103, v104) if (v103.clone() == v1.clone()) if (v104.clone() == (v1.clone() + 2));
      r6(1, (std::cmp::min(std::cmp::max(v1.clone(), 0), 6) + 0)) <-- r2(v0) if (v0.clone() < 5), r2(v100) if (v100.clone() == v0.clone()), r6(v101, v102) if (v101.clone() == v0.clone()) if (v102.clone() == (v0.clone() + 2)), r2(v1), r6(v103, v104) if (v103.clone() == v1.clone()) if (v104.clone() == (v1.clone() + 2));
      r6((std::cmp::min(std::cmp::max(v1.clone(), 0), 6) + 0), 2) <-- r2(v0) if (v0.clone() < 5), r2(v100) if (v100.clone() == v0.clone()), r6(v101, v102) if (v101.clone() == v0.clone()) if (v102.clone() == (v0.clone() + 2)), r2(v1), r6(v103, v104) if (v103.clone() == v1.clone()) if (v104.clone() == (v1.clone() + 2));
      r5(v1, v0) <-- r2(v0) if (v0.clone() < 5), r2(v100) if (v100.clone() == v0.clone()), r6(v101, v102) if (v101.clone() == v0.clone()) if (v102.clone() == (v0.clone() + 2)), r2(v1), r6(v103, v104) if (v103.clone() == v1.clone()) if (v104.clone() == (v1.clone() + 2));
      r6(1, std::cmp::min((v0.clone() + 1), 6)) <-- r5(v0, v106), r3(v105, v107, v108) if (v108.clone() == std::cmp::max(v0.clone(), 2)), if (v0.clone() <= v105.clone());
      r6(std::cmp::min((v0.clone() + 1), 6), 2) <-- r5(v0, v106), r3(v105, v107, v108) if (v108.clone() == std::cmp::max(v0.clone(), 2)), if (v0.clone() <= v105.clone());
      r7(v0, v1) <-- r6(v0, v109), r2(v1), r6(v110, v111) if (v110.clone() == v1.clone()) if (v111.clone() == (v1.clone() + 2)), r2(v2), r6(v112, v113) if (v112.clone() == v2.clone()) if (v113.clone() == (v2.clone() + 2));
      r5(2, v2) <-- r7(v0, v118) if (v118.clone() == 3), r3(v114, v119, v1) if (v119.clone() == v0.clone()), r5(v115, v116), if (v1.clone() == 4), r2(v2);
      r5(3, std::cmp::min(std::cmp::max(v2.clone(), 3), 6)) <-- r7(v0, v118) if (v118.clone() == 3), r3(v114, v119, v1) if (v119.clone() == v0.clone()), r5(v115, v116), if (v1.clone() == 4), r2(v2);
      r6(1, (std::cmp::min(std::cmp::max(v2.clone(), 3), 6) + 0)) <-- r7(v0, v118) if (v118.clone() == 3), r3(v114, v119, v1) if (v119.clone() == v0.clone()), r5(v115, v116), if (v1.clone() == 4), r2(v2);
      r6((std::cmp::min(std::cmp::max(v2.clone(), 3), 6) + 0), 2) <-- r7(v0, v118) if (v118.clone() == 3), r3(v114, v119, v1) if (v119.clone() == v0.clone()), r5(v115, v116), if (v1.clone() == 4), r2(v2);
      r5(2, v2) <-- r7(v0, v120) if (v120.clone() == 3), r3(v114, v1, v121) if (v121.clone() == v0.clone()), r7(v122, v117), if (v1.clone() == 4), r2(v2);
      r5(3, std::cmp::min(std::cmp::max(v2.clone(), 3), 6)) <-- r7(v0, v120) if (v120.clone() == 3), r3(v114, v1, v121) if (v121.clone() == v0.clone()), r7(v122, v117), if (v1.clone() == 4), r2(v2);
      r6(1, (std::cmp::min(std::cmp::max(v2.clone(), 3), 6) + 0)) <-- r7(v0, v120) if (v120.clone() == 3), r3(v114, v1, v121) if (v121.clone() == v0.clone()), r7(v122, v117), if (v1.clone() == 4), r2(v2);
      r6((std::cmp::min(std::cmp::max(v2.clone(), 3), 6) + 0), 2) <-- r7(v0, v120) if (v120.clone() == 3), r3(v114, v1, v121) if (v121.clone() == v0.clone()), r7(v122, v117), if (v1.clone() == 4), r2(v2);
      r5(2, v2) <-- r3(v0, v124, v1) if (v124.clone() == v0.clone()) if (v1.clone() <= 1), r5(v2, v125), r3(v123, v126, v127) if (v127.clone() == std::cmp::max(v2.clone(), 2)), if (v2.clone() <= v123.clone());
      r5(3, std::cmp::min((v1.clone() + v1.clone()), 6)) <-- r3(v0, v124, v1) if (v124.clone() == v0.clone()) if (v1.clone() <= 1), r5(v2, v125), r3(v123, v126, v127) if (v127.clone() == std::cmp::max(v2.clone(), 2)), if (v2.clone() <= v123.clone());
      r6(1, (std::cmp::min((v1.clone() + v1.clone()), 6) + 0)) <-- r3(v0, v124, v1) if (v124.clone() == v0.clone()) if (v1.clone() <= 1), r5(v2, v125), r3(v123, v126, v127) if (v127.clone() == std::cmp::max(v2.clone(), 2)), if (v2.clone() <= v123.clone());
      r6((std::cmp::min((v1.clone() + v1.clone()), 6) + 0), 2) <-- r3(v0, v124, v1) if (v124.clone() == v0.clone()) if (v1.clone() <= 1), r5(v2, v125), r3(v123, v126, v127) if (v127.clone() == std::cmp::max(v2.clone(), 2)), if (v2.clone() <= v123.clone());
      r6(v2, v0) <-- r3(v0, v124, v1) if (v124.clone() == v0.clone()) if (v1.clone() <= 1), r5(v2, v125), r3(v123, v126, v127) if (v127.clone() == std::cmp::max(v2.clone(), 2)), if (v2.clone() <= v123.clone());
      r7(v1, 3) <-- r2(v0) if (v0.clone() == 3), r5(v1, v129), r3(v128, v130, v131) if (v131.clone() == std::cmp::max(v1.clone(), 2)), if (v1.clone() <= v128.clone());
      r7(v1, 3) <-- r2(v0) if (v0.clone() == 3), r3(v2, v132, v1) if (v132.clone() == (v0.clone() + 2));
      r6(1, 0);
      r6(0, 2);
   }
   pub struct Inst { p: Prog, pool: Option<ascent::rayon::ThreadPool> }
   pub fn make(pool: Option<usize>) -> Box<dyn Driver> {
      let pool = pool.map(|n| ascent::rayon::ThreadPoolBuilder::new().num_threads(n).build().unwrap());
      let p = match &pool { Some(pl) => pl.install(|| Default::default()), None => Default::default() };
      Box::new(Inst { p, pool })
   }
   impl Driver for Inst {
      fn load(&mut self, rel: usize, rows: &[Sexp], append: bool) -> Option<()> {
         match rel {
         0 => { let v: Vec<(i64,i64,)> = parse_rows(rows)?; if append { self.p.r0.extend(v) } else { self.p.r0 = v } },
         1 => { let v: Vec<(i64,Option<i64>,)> = parse_rows(rows)?; if append { self.p.r1.extend(v) } else { self.p.r1 = v } },
         2 => { let v: Vec<(i64,)> = parse_rows(rows)?; if append { self.p.r2.extend(v) } else { self.p.r2 = v } },
         3 => { let v: Vec<(i64,i64,i64,)> = parse_rows(rows)?; if append { self.p.r3.extend(v) } else { self.p.r3 = v } },
         4 => { let v: Vec<(i64,)> = parse_rows(rows)?; if append { self.p.r4.extend(v) } else { self.p.r4 = v } },
         5 => { let v: Vec<(i64,i64,)> = parse_rows(rows)?; if append { self.p.r5.extend(v) } else { self.p.r5 = v } },
         6 => { let v: Vec<(i64,i64,)> = parse_rows(rows)?; if append { self.p.r6.extend(v) } else { self.p.r6 = v } },
         7 => { let v: Vec<(i64,i64,)> = parse_rows(rows)?; if append { self.p.r7.extend(v) } else { self.p.r7 = v } },
            _ => return None,
         }
         Some(())
      }
      fn run(&mut self) { match &self.pool { Some(pl) => { let p = &mut self.p; pl.install(|| p.run()) }, None => self.p.run() } }
      fn run_here(&mut self) { self.p.run() }
      fn run_timeout(&mut self, k: usize) -> Option<bool> { let _ = k; None }
      fn dump(&self) -> String { vec![dump_rel(0, self.p.r0.iter().map(Row::render).collect()), dump_rel(1, self.p.r1.iter().map(Row::render).collect()), dump_rel(2, self.p.r2.iter().map(Row::render).collect()), dump_rel(3, self.p.r3.iter().map(Row::render).collect()), dump_rel(4, self.p.r4.iter().map(Row::render).collect()), dump_rel(5, self.p.r5.iter().map(Row::render).collect()), dump_rel(6, self.p.r6.iter().map(Row::render).collect()), dump_rel(7, self.p.r7.iter().map(Row::render).collect())].join(" | ") }
      fn iters(&self) -> String { format!("iters {}", self.p.scc_iters.iter().map(|x| x.to_string()).collect::<Vec<_>>().join(" ")) }
   }
}

#[allow(unused, non_snake_case, clippy::all)]
pub mod h9x {
   use ascent::*;
   use ascent::aggregators::*;
   use ascent::lattice::{Dual, set::Set};
   use crate::common::*;
   ascent! {
      pub struct Prog;
      relation r0(i64, i64);
      relation r1(i64, Option<i64>);
      relation r2(i64);
      relation r3(i64, i64, i64);
      relation r4(i64);
      relation r5(i64, i64);
      relation r6(i64);
      relation r7(i64, i64);
      relation r8(i64, i64);
      r6(v1) <-- r2(v0), r0(v1, v108) if (v108.clone() == v0.clone()), r3(v100, v109, v101) if (v109.clone() == std::cmp::min(v100.clone(), 2)), r1(v102, v110) if let Some(v103) = v110.clone(), agg () = not() in r3(v102.clone(), _, _), if (v102.clone() == 2), if (v102.clone() < 5), r0(v2, v111) if (v111.clone() == v1.clone()), r3(v104, v112, v105) if (v112.clone() == std::cmp::min(v104.clone(), 2)), r1(v106, v113) if let Some(v107) = v113.clone(), agg () = not() in r3(v106.clone(), _, _), if (v106.clone() == 2), if (v106.clone() < 5);
      r6(v2) <-- r7(v0, v116) if (v116.clone() == 1), r1(v1, v117) if let Some(v114) = v117.clone(), agg () = not() in r3(v1.clone(), _, _), if (v1.clone() == 2), r1(v2, v118) if let Some(v115) = v118.clone(), agg () = not() in r3(v2.clone(), _, _), if (v2.clone() == 2);
      r8(std::cmp::min(std::cmp::max(v0.clone(), 0), 6), 3) <-- r2(v120), r1(v0, v121) if let Some(v119) = v121.clone(), agg () = not() in r3(v0.clone(), _, _), if (v0.clone() == 2);
      r8(std::cmp::min(std::cmp::max(v0.clone(), 0), 6), 3) <-- r2(v122), r0(v2, v0);
      r8(std::cmp::min((v1.clone() + 0), 6), 3) <-- r7(v128, v0) if (v128.clone() == 2), r1(v1, v123), r1(v129, v130) if (v129.clone() == v1.clone()) if (v130.clone() == v123.clone()), r0(v131, v132) if (v131.clone() == v1.clone()) if (v132.clone() == v1.clone()), r3(v124, v133, v125) if (v133.clone() == std::cmp::min(v124.clone(), 2)), r1(v126, v134) if let Some(v127) = v134.clone(), agg () = not() in r3(v126.clone(), _, _), if (v126.clone() == 2), if (v126.clone() < 5), if (v1.clone() == 3);
      r6(1) <-- r7(v128, v0) if (v128.clone() == 2), r1(v1, v123), r1(v129, v130) if (v129.clone() == v1.clone()) if (v130.clone() == v123.clone()), r0(v131, v132) if (v131.clone() == v1.clone()) if (v132.clone() == v1.clone()), r3(v124, v133, v125) if (v133.clone() == std::cmp::min(v124.clone(), 2)), r1(v126, v134) if let Some(v127) = v134.clone(), agg () = not() in r3(v126.clone(), _, _), if (v126.clone() == 2), if (v126.clone() < 5), if (v1.clone() == 3);
      r7(v0, 0) <-- r2(v0) if (v0.clone() < 2) let v1 = std::cmp::min(std::cmp::max(v0.clone(), 2), 6), r0(v139, v140) if (v139.clone() == v0.clone()) if (v140.clone() == v1.clone()), r3(v135, v141, v136) if (v141.clone() == std::cmp::min(v135.clone(), 2)), r1(v137, v142) if let Some(v138) = v142.clone(), agg () = not() in r3(v137.clone(), _, _), if (v137.clone() == 2), if (v137.clone() < 5), r5(v3, v2);
      r7(v0, (v0.clone() + 1)) <-- r4(v0), r1(v144, v145) if (v144.clone() == v0.clone()) if let Some(v143) = v145.clone(), agg () = not() in r3(v0.clone(), _, _), if (v0.clone() == 2), if (v0.clone() < 5);
      r5(1, v0) <-- r2(v0);
      r8(2, 3);
   }
   pub struct Inst { p: Prog, pool: Option<ascent::rayon::ThreadPool> }
   pub fn make(pool: Option<usize>) -> Box<dyn Driver> {
      let pool = pool.map(|n| ascent::rayon::ThreadPoolBuilder::new().num_threads(n).build().unwrap());
      let p = match &pool { Some(pl) => pl.install(|| Default::default()), None => Default::default() };
      Box::new(Inst { p, pool })
   }
   impl Driver for Inst {
      fn load(&mut self, rel: usize, rows: &[Sexp], append: bool) -> Option<()> {
         match rel {
         0 => { let v: Vec<(i64,i64,)> = parse_rows(rows)?; if append { self.p.r0.extend(v) } else { self.p.r0 = v } },
         1 => { let v: Vec<(i64,Option<i64>,)> = parse_rows(rows)?; if append { self.p.r1.extend(v) } else { self.p.r1 = v } },
         2 => { let v: Vec<(i64,)> = parse_rows(rows)?; if append { self.p.r2.extend(v) } else { self.p.r2 = v } },
         3 => { let v: Vec<(i64,i64,i64,)> = parse_rows(rows)?; if append { self.p.r3.extend(v) } else { self.p.r3 = v } },
         4 => { let v: Vec<(i64,)> = parse_rows(rows)?; if append { self.p.r4.extend(v) } else { self.p.r4 = v } },
         5 => { let v: Vec<(i64,i64,)> = parse_rows(rows)?; if append { self.p.r5.extend(v) } else { self.p.r5 = v } },
         6 => { let v: Vec<(i64,)> = parse_rows(rows)?; if append { self.p.r6.extend(v) } else { self.p.r6 = v } },
         7 => { let v: Vec<(i64,i64,)> = parse_rows(rows)?; if append { self.p.r7.extend(v) } else { self.p.r7 = v } },
         8 => { let v: Vec<(i64,i64,)> = parse_rows(rows)?; if append { self.p.r8.extend(v) } else { self.p.r8 = v } },
            _ => return None,
         }
         Some(())
      }
      fn run(&mut self) { match &self.pool { Some(pl) => { let p = &mut self.p; pl.install(|| p.run()) }, None => self.p.run() } }
      fn run_here(&mut self) { self.p.run() }
      fn run_timeout(&mut self, k: usize) -> Option<bool> { let _ = k; None }
      fn dump(&self) -> String { vec![dump_rel(0, self.p.r0.iter().map(Row::render).collect()), dump_rel(1, self.p.r1.iter().map(Row::render).collect()), dump_rel(2, self.p.r2.iter().map(Row::render).collect()), dump_rel(3, self.p.r3.iter().map(Row::render).collect()), dump_rel(4, self.p.r4.iter().map(Row::render).collect()), dump_rel(5, self.p.r5.iter().map(Row::render).collect()), dump_rel(6, self.p.r6.iter().map(Row::render).collect()), dump_rel(7, self.p.r7.iter().map(Row::render).collect()), dump_rel(8, self.p.r8.iter().map(Row::render).collect())].join(" | ") }
      fn iters(&self) -> String { format!("iters {}", self.p.scc_iters.iter().map(|x| x.to_string()).collect::<Vec<_>>().join(" ")) }
   }
}

#[allow(unused, non_snake_case, clippy::all)]
pub mod a1x {
   use ascent::*;
   use ascent::aggregators::*;
   use ascent::lattice::{Dual, set::Set};
   use crate::common::*;
   ascent! {
      pub struct Prog;
      relation r0(i64, i64);
      relation r1(i64);
      relation r2(i64, i64);
      relation r3(i64);
      r2(v0, v1) <-- r1(v0), r0(v100, v1) if (1 < v1.clone());
      r3(v0) <-- r2(v0, v101);
   }
   pub struct Inst { p: Prog, pool: Option<ascent::rayon::ThreadPool> }
   pub fn make(pool: Option<usize>) -> Box<dyn Driver> {
      let pool = pool.map(|n| ascent::rayon::ThreadPoolBuilder::new().num_threads(n).build().unwrap());
      let p = match &pool { Some(pl) => pl.install(|| Default::default()), None => Default::default() };
      Box::new(Inst { p, pool })
   }
   impl Driver for Inst {
      fn load(&mut self, rel: usize, rows: &[Sexp], append: bool) -> Option<()> {
         match rel {
         0 => { let v: Vec<(i64,i64,)> = parse_rows(rows)?; if append { self.p.r0.extend(v) } else { self.p.r0 = v } },
         1 => { let v: Vec<(i64,)> = parse_rows(rows)?; if append { self.p.r1.extend(v) } else { self.p.r1 = v } },
         2 => { let v: Vec<(i64,i64,)> = parse_rows(rows)?; if append { self.p.r2.extend(v) } else { self.p.r2 = v } },
         3 => { let v: Vec<(i64,)> = parse_rows(rows)?; if append { self.p.r3.extend(v) } else { self.p.r3 = v } },
            _ => return None,
         }
         Some(())
      }
      fn run(&mut self) { match &self.pool { Some(pl) => { let p = &mut self.p; pl.install(|| p.run()) }, None => self.p.run() } }
      fn run_here(&mut self) { self.p.run() }
      fn run_timeout(&mut self, k: usize) -> Option<bool> { let _ = k; None }
      fn dump(&self) -> String { vec![dump_rel(0, self.p.r0.iter().map(Row::render).collect()), dump_rel(1, self.p.r1.iter().map(Row::render).collect()), dump_rel(2, self.p.r2.iter().map(Row::render).collect()), dump_rel(3, self.p.r3.iter().map(Row::render).collect())].join(" | ") }
      fn iters(&self) -> String { format!("iters {}", self.p.scc_iters.iter().map(|x| x.to_string()).collect::<Vec<_>>().join(" ")) }
   }
}

#[allow(unused, non_snake_case, clippy::all)]
pub mod e1x {
   use ascent::*;
   use ascent::aggregators::*;
   use ascent::lattice::{Dual, set::Set};
   use crate::common::*;
   ascent! {
      pub struct Prog;
      relation r0(i64, i64);
      relation r1(i64);
      relation r2(i64, i64);
      relation r3(i64);
      r2(v0, v1) <-- r1(v0), r0(v100, v1), if ((6 - (v0.clone() + 2)) < 8);
      r3(v0) <-- r2(v0, v101);
   }
   pub struct Inst { p: Prog, pool: Option<ascent::rayon::ThreadPool> }
   pub fn make(pool: Option<usize>) -> Box<dyn Driver> {
      let pool = pool.map(|n| ascent::rayon::ThreadPoolBuilder::new().num_threads(n).build().unwrap());
      let p = match &pool { Some(pl) => pl.install(|| Default::default()), None => Default::default() };
      Box::new(Inst { p, pool })
   }
   impl Driver for Inst {
      fn load(&mut self, rel: usize, rows: &[Sexp], append: bool) -> Option<()> {
         match rel {
         0 => { let v: Vec<(i64,i64,)> = parse_rows(rows)?; if append { self.p.r0.extend(v) } else { self.p.r0 = v } },
         1 => { let v: Vec<(i64,)> = parse_rows(rows)?; if append { self.p.r1.extend(v) } else { self.p.r1 = v } },
         2 => { let v: Vec<(i64,i64,)> = parse_rows(rows)?; if append { self.p.r2.extend(v) } else { self.p.r2 = v } },
         3 => { let v: Vec<(i64,)> = parse_rows(rows)?; if append { self.p.r3.extend(v) } else { self.p.r3 = v } },
            _ => return None,
         }
         Some(())
      }
      fn run(&mut self) { match &self.pool { Some(pl) => { let p = &mut self.p; pl.install(|| p.run()) }, None => self.p.run() } }
      fn run_here(&mut self) { self.p.run() }
      fn run_timeout(&mut self, k: usize) -> Option<bool> { let _ = k; None }
      fn dump(&self) -> String { vec![dump_rel(0, self.p.r0.iter().map(Row::render).collect()), dump_rel(1, self.p.r1.iter().map(Row::render).collect()), dump_rel(2, self.p.r2.iter().map(Row::render).collect()), dump_rel(3, self.p.r3.iter().map(Row::render).collect())].join(" | ") }
      fn iters(&self) -> String { format!("iters {}", self.p.scc_iters.iter().map(|x| x.to_string()).collect::<Vec<_>>().join(" ")) }
   }
}

#[allow(unused, non_snake_case, clippy::all)]
pub mod o0x {
   use ascent::*;
   use ascent::aggregators::*;
   use ascent::lattice::{Dual, set::Set};
   use crate::common::*;
   ascent! {
      pub struct Prog;
      relation r0(i64, Option<i64>);
      relation r1(i64);
      relation r2(i64, i64);
      relation r3(i64);
      r3(v0) <-- r1(v0), r0(v100, v101) if (v100.clone() == v0.clone()) if (v101.clone() == None::<i64>);
      r2(v0, v0) <-- r3(v0);
   }
   pub struct Inst { p: Prog, pool: Option<ascent::rayon::ThreadPool> }
   pub fn make(pool: Option<usize>) -> Box<dyn Driver> {
      let pool = pool.map(|n| ascent::rayon::ThreadPoolBuilder::new().num_threads(n).build().unwrap());
      let p = match &pool { Some(pl) => pl.install(|| Default::default()), None => Default::default() };
      Box::new(Inst { p, pool })
   }
   impl Driver for Inst {
      fn load(&mut self, rel: usize, rows: &[Sexp], append: bool) -> Option<()> {
         match rel {
         0 => { let v: Vec<(i64,Option<i64>,)> = parse_rows(rows)?; if append { self.p.r0.extend(v) } else { self.p.r0 = v } },
         1 => { let v: Vec<(i64,)> = parse_rows(rows)?; if append { self.p.r1.extend(v) } else { self.p.r1 = v } },
         2 => { let v: Vec<(i64,i64,)> = parse_rows(rows)?; if append { self.p.r2.extend(v) } else { self.p.r2 = v } },
         3 => { let v: Vec<(i64,)> = parse_rows(rows)?; if append { self.p.r3.extend(v) } else { self.p.r3 = v } },
            _ => return None,
         }
         Some(())
      }
      fn run(&mut self) { match &self.pool { Some(pl) => { let p = &mut self.p; pl.install(|| p.run()) }, None => self.p.run() } }
      fn run_here(&mut self) { self.p.run() }
      fn run_timeout(&mut self, k: usize) -> Option<bool> { let _ = k; None }
      fn dump(&self) -> String { vec![dump_rel(0, self.p.r0.iter().map(Row::render).collect()), dump_rel(1, self.p.r1.iter().map(Row::render).collect()), dump_rel(2, self.p.r2.iter().map(Row::render).collect()), dump_rel(3, self.p.r3.iter().map(Row::render).collect())].join(" | ") }
      fn iters(&self) -> String { format!("iters {}", self.p.scc_iters.iter().map(|x| x.to_string()).collect::<Vec<_>>().join(" ")) }
   }
}

fn main() {
   common::main_loop(&[("h1x", h1x::make as common::Factory), ("h5x", h5x::make as common::Factory), ("h9x", h9x::make as common::Factory), ("a1x", a1x::make as common::Factory), ("e1x", e1x::make as common::Factory), ("o0x", o0x::make as common::Factory)]);
}
