#[path = "common.rs"]
mod common;
#[allow(unused, non_snake_case, clippy::all)]
pub mod h1x {
   use ascent::*;
   use ascent::aggregators::*;
   use ascent::lattice::{Dual, set::Set};
   use crate::common::*;
   ascent! {
      pub struct Prog;
      relation r0(i64, i64);
      relation r1(i64, Option<i64>);
      relation r2(i64);
      relation r3(i64, i64, i64);
      relation r4(i64, i64);
      relation r5(i64);
      relation r6(i64, i64);
      relation r7(i64, i64, i64);
      relation r8(i64);
      r7(std::cmp::min(std::cmp::max(v1.clone(), 0), 6), std::cmp::min(std::cmp::max(v1.clone(), 0), 6), std::cmp::min(std::cmp::max(v1.clone(), 0), 6)) <-- r2(v0), r7(v1, v101, v100), if (v100.clone() < 1);
      r7(v2, 0, v0) <-- r6(v0, v1), r7(v2, v104, v102), if (v102.clone() < 1), r7(v105, v106, v103) if (v105.clone() == v2.clone()), if (v103.clone() < 1);
      r7(v2, 0, v0) <-- r6(v0, v1), r0(v4, v2), r7(v107, v108, v103) if (v107.clone() == v2.clone()), if (v103.clone() < 1);
      r8(v0) <-- r6(v0, v1), r7(v2, v110, v109), if (v109.clone() < 1);
      r8(v0) <-- r6(v0, v1), r6(v4, v2);
      r8((v1.clone() + 1)) <-- r5(v0) if (v0.clone() <= 1), r3(v111, v113, v1) if (v113.clone() == 3), if (v0.clone() < 3), if (std::cmp::max(v0.clone(), 3) < 2), r3(v112, v114, v2) if (v114.clone() == 3), if (v0.clone() < 3), if (std::cmp::max(v1.clone(), 3) < 2), if (v1.clone() < 5);
      r8((v1.clone() + 1)) <-- r5(v0) if (v0.clone() <= 1), r3(v111, v115, v1) if (v115.clone() == 3), if (v0.clone() < 3), if (std::cmp::max(v0.clone(), 3) < 2), r0(v116, v2) if (v116.clone() == v0.clone()), if (std::cmp::max(v1.clone(), 3) < 2), if (v1.clone() < 5);
      r8((v1.clone() + 1)) <-- r5(v0) if (v0.clone() <= 1), r0(v117, v1) if (v117.clone() == v0.clone()), if (std::cmp::max(v0.clone(), 3) < 2), r3(v112, v118, v2) if (v118.clone() == 3), if (v0.clone() < 3), if (std::cmp::max(v1.clone(), 3) < 2), if (v1.clone() < 5);
      r8((v1.clone() + 1)) <-- r5(v0) if (v0.clone() <= 1), r0(v119, v1) if (v119.clone() == v0.clone()), if (std::cmp::max(v0.clone(), 3) < 2), r0(v120, v2) if (v120.clone() == v0.clone()), if (std::cmp::max(v1.clone(), 3) < 2), if (v1.clone() < 5);
      r5(v0) <-- r3(v121, v0, v122) if (v122.clone() == 3);
      r7(1, 1, 1);
   }
   pub struct Inst { p: Prog, pool: Option<ascent::rayon::ThreadPool> }
   pub fn make(pool: Option<usize>) -> Box<dyn Driver> {
      let pool = pool.map(|n| ascent::rayon::ThreadPoolBuilder::new().num_threads(n).build().unwrap());
      let p = match &pool { Some(pl) => pl.install(|| Default::default()), None => Default::default() };
      Box::new(Inst { p, pool })
   }
   impl Driver for Inst {
      fn load(&mut self, rel: usize, rows: &[Sexp], append: bool) -> Option<()> {
         match rel {
         0 => { let v: Vec<(i64,i64,)> = parse_rows(rows)?; if append { self.p.r0.extend(v) } else { self.p.r0 = v } },
         1 => { let v: Vec<(i64,Option<i64>,)> = parse_rows(rows)?; if append { self.p.r1.extend(v) } else { self.p.r1 = v } },
         2 => { let v: Vec<(i64,)> = parse_rows(rows)?; if append { self.p.r2.extend(v) } else { self.p.r2 = v } },
         3 => { let v: Vec<(i64,i64,i64,)> = parse_rows(rows)?; if append { self.p.r3.extend(v) } else { self.p.r3 = v } },
         4 => { let v: Vec<(i64,i64,)> = parse_rows(rows)?; if append { self.p.r4.extend(v) } else { self.p.r4 = v } },
         5 => { let v: Vec<(i64,)> = parse_rows(rows)?; if append { self.p.r5.extend(v) } else { self.p.r5 = v } },
         6 => { let v: Vec<(i64,i64,)> = parse_rows(rows)?; if append { self.p.r6.extend(v) } else { self.p.r6 = v } },
         7 => { let v: Vec<(i64,i64,i64,)> = parse_rows(rows)?; if append { self.p.r7.extend(v) } else { self.p.r7 = v } },
         8 => { let v: Vec<(i64,)> = parse_rows(rows)?; if append { self.p.r8.extend(v) } else { self.p.r8 = v } },
            _ => return None,
         }
         Some(())
      }
      fn run(&mut self) { match &self.pool { Some(pl) => { let p = &mut self.p; pl.install(|| p.run()) }, None => self.p.run() } }
      fn run_here(&mut self) { self.p.run() }
      fn run_timeout(&mut self, k: usize) -> Option<bool> { let _ = k; None }
      fn dump(&self) -> String { vec![dump_rel(0, self.p.r0.iter().map(Row::render).collect()), dump_rel(1, self.p.r1.iter().map(Row::render).collect()), dump_rel(2, self.p.r2.iter().map(Row::render).collect()), dump_rel(3, self.p.r3.iter().map(Row::render).collect()), dump_rel(4, self.p.r4.iter().map(Row::render).collect()), dump_rel(5, self.p.r5.iter().map(Row::render).collect()), dump_rel(6, self.p.r6.iter().map(Row::render).collect()), dump_rel(7, self.p.r7.iter().map(Row::render).collect()), dump_rel(8, self.p.r8.iter().map(Row::render).collect())].join(" | ") }
      fn iters(&self) -> String { format!("iters {}", self.p.scc_iters.iter().map(|x| x.to_string()).collect::<Vec<_>>().join(" ")) }
   }
}

#[allow(unused, non_snake_case, clippy::all)]
pub mod h5x {
   use ascent::*;
   use ascent::aggregators::*;
   use ascent::lattice::{Dual, set::Set};
   use crate::common::*;
   ascent! {
      pub struct Prog;
      relation r0(i64, i64);
      relation r1(i64, Option<i64>);
      relation r2(i64);
      relation r3(i64, i64, i64);
      relation r4(i64, i64);
      relation r5(i64);
      relation r6(i64, i64, i64);
      relation r7(i64, i64, i64);
      relation r8(i64, i64);
      r7(v1, (v1.clone() + 1), v1) <-- r0(v0, v103) if (v103.clone() == (v0.clone() + 0)), r1(v104, v100) if (v104.clone() == v0.clone()), if (v0.clone() < 0), r3(v101, v105, v102) if (v105.clone() == v0.clone()), if (v0.clone() <= 0), r5(v1), if (v1.clone() < 5);
      r7(v1, (v1.clone() + 1), v1) <-- r0(v0, v106) if (v106.clone() == (v0.clone() + 0)), r1(v107, v100) if (v107.clone() == v0.clone()), if (v0.clone() <= 0), r5(v1), if (v1.clone() < 5);
      r7(v0, 3, v0) <-- r4(v0, v108) if (v108.clone() == v0.clone()), if (v0.clone() <= 1);
      r7(std::cmp::min(std::cmp::min(v0.clone(), 1), 6), v2, std::cmp::min(std::cmp::min(v0.clone(), 1), 6)) <-- r7(v0, v115, v116) if (v115.clone() == std::cmp::min(v0.clone(), 1)) if (v116.clone() == v0.clone()) if (v0.clone() != 0), r1(v1, v109), if (v1.clone() < 0), r3(v110, v117, v111) if (v117.clone() == v0.clone()), if (v0.clone() <= 0), r1(v2, v112), if (v2.clone() < 0), r3(v113, v118, v114) if (v118.clone() == v0.clone()), if (v0.clone() <= 0), if (v1.clone() < 5), if (v1.clone() < 5);
      r7(std::cmp::min(std::cmp::min(v0.clone(), 1), 6), 0, std::cmp::min(std::cmp::min(v0.clone(), 1), 6)) <-- r7(v0, v115, v116) if (v115.clone() == std::cmp::min(v0.clone(), 1)) if (v116.clone() == v0.clone()) if (v0.clone() != 0), r1(v1, v109), if (v1.clone() < 0), r3(v110, v117, v111) if (v117.clone() == v0.clone()), if (v0.clone() <= 0), r1(v2, v112), if (v2.clone() < 0), r3(v113, v118, v114) if (v118.clone() == v0.clone()), if (v0.clone() <= 0), if (v1.clone() < 5), if (v1.clone() < 5);
      r6((v1.clone() + 1), (v1.clone() + 1), v0) <-- r7(v0, v115, v116) if (v115.clone() == std::cmp::min(v0.clone(), 1)) if (v116.clone() == v0.clone()) if (v0.clone() != 0), r1(v1, v109), if (v1.clone() < 0), r3(v110, v117, v111) if (v117.clone() == v0.clone()), if (v0.clone() <= 0), r1(v2, v112), if (v2.clone() < 0), r3(v113, v118, v114) if (v118.clone() == v0.clone()), if (v0.clone() <= 0), if (v1.clone() < 5), if (v1.clone() < 5);
      r7(std::cmp::min(std::cmp::min(v0.clone(), 1), 6), v2, std::cmp::min(std::cmp::min(v0.clone(), 1), 6)) <-- r7(v0, v119, v120) if (v119.clone() == std::cmp::min(v0.clone(), 1)) if (v120.clone() == v0.clone()) if (v0.clone() != 0), r1(v1, v109), if (v1.clone() < 0), r3(v110, v121, v111) if (v121.clone() == v0.clone()), if (v0.clone() <= 0), r1(v2, v112), if (v0.clone() <= 0), if (v1.clone() < 5), if (v1.clone() < 5);
      r7(std::cmp::min(std::cmp::min(v0.clone(), 1), 6), 0, std::cmp::min(std::cmp::min(v0.clone(), 1), 6)) <-- r7(v0, v119, v120) if (v119.clone() == std::cmp::min(v0.clone(), 1)) if (v120.clone() == v0.clone()) if (v0.clone() != 0), r1(v1, v109), if (v1.clone() < 0), r3(v110, v121, v111) if (v121.clone() == v0.clone()), if (v0.clone() <= 0), r1(v2, v112), if (v0.clone() <= 0), if (v1.clone() < 5), if (v1.clone() < 5);
      r6((v1.clone() + 1), (v1.clone() + 1), v0) <-- r7(v0, v119, v120) if (v119.clone() == std::cmp::min(v0.clone(), 1)) if (v120.clone() == v0.clone()) if (v0.clone() != 0), r1(v1, v109), if (v1.clone() < 0), r3(v110, v121, v111) if (v121.clone() == v0.clone()), if (v0.clone() <= 0), r1(v2, v112), if (v0.clone() <= 0), if (v1.clone() < 5), if (v1.clone() < 5);
      r7(std::cmp::min(std::cmp::min(v0.clone(), 1), 6), v2, std::cmp::min(std::cmp::min(v0.clone(), 1), 6)) <-- r7(v0, v122, v123) if (v122.clone() == std::cmp::min(v0.clone(), 1)) if (v123.clone() == v0.clone()) if (v0.clone() != 0), r1(v1, v109), if (v0.clone() <= 0), r1(v2, v112), if (v2.clone() < 0), r3(v113, v124, v114) if (v124.clone() == v0.clone()), if (v0.clone() <= 0), if (v1.clone() < 5), if (v1.clone() < 5);
      r7(std::cmp::min(std::cmp::min(v0.clone(), 1), 6), 0, std::cmp::min(std::cmp::min(v0.clone(), 1), 6)) <-- r7(v0, v122, v123) if (v122.clone() == std::cmp::min(v0.clone(), 1)) if (v123.clone() == v0.clone()) if (v0.clone() != 0), r1(v1, v109), if (v0.clone() <= 0), r1(v2, v112), if (v2.clone() < 0), r3(v113, v124, v114) if (v124.clone() == v0.clone()), if (v0.clone() <= 0), if (v1.clone() < 5), if (v1.clone() < 5);
      r6((v1.clone() + 1), (v1.clone() + 1), v0) <-- r7(v0, v122, v123) if (v122.clone() == std::cmp::min(v0.clone(), 1)) if (v123.clone() == v0.clone()) if (v0.clone() != 0), r1(v1, v109), if (v0.clone() <= 0), r1(v2, v112), if (v2.clone() < 0), r3(v113, v124, v114) if (v124.clone() == v0.clone()), if (v0.clone() <= 0), if (v1.clone() < 5), if (v1.clone() < 5);
      r7(std::cmp::min(std::cmp::min(v0.clone(), 1), 6), v2, std::cmp::min(std::cmp::min(v0.clone(), 1), 6)) <-- r7(v0, v125, v126) if (v125.clone() == std::cmp::min(v0.clone(), 1)) if (v126.clone() == v0.clone()) if (v0.clone() != 0), r1(v1, v109), if (v0.clone() <= 0), r1(v2, v112), if (v0.clone() <= 0), if (v1.clone() < 5), if (v1.clone() < 5);
      r7(std::cmp::min(std::cmp::min(v0.clone(), 1), 6), 0, std::cmp::min(std::cmp::min(v0.clone(), 1), 6)) <-- r7(v0, v125, v126) if (v125.clone() == std::cmp::min(v0.clone(), 1)) if (v126.clone() == v0.clone()) if (v0.clone() != 0), r1(v1, v109), if (v0.clone() <= 0), r1(v2, v112), if (v0.clone() <= 0), if (v1.clone() < 5), if (v1.clone() < 5);
      r6((v1.clone() + 1), (v1.clone() + 1), v0) <-- r7(v0, v125, v126) if (v125.clone() == std::cmp::min(v0.clone(), 1)) if (v126.clone() == v0.clone()) if (v0.clone() != 0), r1(v1, v109), if (v0.clone() <= 0), r1(v2, v112), if (v0.clone() <= 0), if (v1.clone() < 5), if (v1.clone() < 5);
      r6(1, v1, v3) <-- r5(v0), r1(v1, v127), if (v1.clone() < 0), r3(v128, v133, v129) if (v133.clone() == v0.clone()), if (v0.clone() <= 0), r1(v3, v130), if (v3.clone() < 0), r3(v131, v134, v132) if (v134.clone() == v0.clone()), if (v0.clone() <= 0);
      r6(1, v1, v3) <-- r5(v0), r1(v1, v127), if (v1.clone() < 0), r3(v128, v135, v129) if (v135.clone() == v0.clone()), if (v0.clone() <= 0), r1(v3, v130), if (v0.clone() <= 0);
      r6(1, v1, v3) <-- r5(v0), r1(v1, v127), if (v0.clone() <= 0), r1(v3, v130), if (v3.clone() < 0), r3(v131, v136, v132) if (v136.clone() == v0.clone()), if (v0.clone() <= 0);
      r6(1, v1, v3) <-- r5(v0), r1(v1, v127), if (v0.clone() <= 0), r1(v3, v130), if (v0.clone() <= 0);
      r6(1, v1, v3) <-- r5(v0), r0(v1, v137) if (v137.clone() == v1.clone()), r1(v3, v130), if (v3.clone() < 0), r3(v131, v138, v132) if (v138.clone() == v0.clone()), if (v0.clone() <= 0);
      r6(1, v1, v3) <-- r5(v0), r0(v1, v139) if (v139.clone() == v1.clone()), r1(v3, v130), if (v0.clone() <= 0);
   }
   pub struct Inst { p: Prog, pool: Option<ascent::rayon::ThreadPool> }
   pub fn make(pool: Option<usize>) -> Box<dyn Driver> {
      let pool = pool.map(|n| ascent::rayon::ThreadPoolBuilder::new().num_threads(n).build().unwrap());
      let p = match &pool { Some(pl) => pl.install(|| Default::default()), None => Default::default() };
      Box::new(Inst { p, pool })
   }
   impl Driver for Inst {
      fn load(&mut self, rel: usize, rows: &[Sexp], append: bool) -> Option<()> {
         match rel {
         0 => { let v: Vec<(i64,i64,)> = parse_rows(rows)?; if append { self.p.r0.extend(v) } else { self.p.r0 = v } },
         1 => { let v: Vec<(i64,Option<i64>,)> = parse_rows(rows)?; if append { self.p.r1.extend(v) } else { self.p.r1 = v } },
         2 => { let v: Vec<(i64,)> = parse_rows(rows)?; if append { self.p.r2.extend(v) } else { self.p.r2 = v } },
         3 => { let v: Vec<(i64,i64,i64,)> = parse_rows(rows)?; if append { self.p.r3.extend(v) } else { self.p.r3 = v } },
         4 => { let v: Vec<(i64,i64,)> = parse_rows(rows)?; if append { self.p.r4.extend(v) } else { self.p.r4 = v } },
         5 => { let v: Vec<(i64,)> = parse_rows(rows)?; if append { self.p.r5.extend(v) } else { self.p.r5 = v } },
         6 => { let v: Vec<(i64,i64,i64,)> = parse_rows(rows)?; if append { self.p.r6.extend(v) } else { self.p.r6 = v } },
         7 => { let v: Vec<(i64,i64,i64,)> = parse_rows(rows)?; if append { self.p.r7.extend(v) } else { self.p.r7 = v } },
         8 => { let v: Vec<(i64,i64,)> = parse_rows(rows)?; if append { self.p.r8.extend(v) } else { self.p.r8 = v } },
            _ => return None,
         }
         Some(())
      }
      fn run(&mut self) { match &self.pool { Some(pl) => { let p = &mut self.p; pl.install(|| p.run()) }, None => self.p.run() } }
      fn run_here(&mut self) { self.p.run() }
      fn run_timeout(&mut self, k: usize) -> Option<bool> { let _ = k; None }
      fn dump(&self) -> String { vec![dump_rel(0, self.p.r0.iter().map(Row::render).collect()), dump_rel(1, self.p.r1.iter().map(Row::render).collect()), dump_rel(2, self.p.r2.iter().map(Row::render).collect()), dump_rel(3, self.p.r3.iter().map(Row::render).collect()), dump_rel(4, self.p.r4.iter().map(Row::render).collect()), dump_rel(5, self.p.r5.iter().map(Row::render).collect()), dump_rel(6, self.p.r6.iter().map(Row::render).collect()), dump_rel(7, self.p.r7.iter().map(Row::render).collect()), dump_rel(8, self.p.r8.iter().map(Row::render).collect())].join(" | ") }
      fn iters(&self) -> String { format!("iters {}", self.p.scc_iters.iter().map(|x| x.to_string()).collect::<Vec<_>>().join(" ")) }
   }
}

#[allow(unused, non_snake_case, clippy::all)]
pub mod h9x {
   use ascent::*;
   use ascent::aggregators::*;
   use ascent::lattice::{Dual, set::Set};
   use crate::common::*;
   ascent! {
      pub struct Prog;
      relation r0(i64, i64);
      relation r1(i64, Option<i64>);
      relation r2(i64);
      relation r3(i64, i64, i64);
      relation r4(i64, i64);
      relation r5(i64, i64);
      relation r6(i64);
      relation r7(i64, Option<i64>);
      relation r8(i64, i64);
      r8(v2, v0) <-- r5(v0, v110) if (v110.clone() == 1) if (v0.clone() != 3), r3(v100, v1, v2), r3(v102, v111, v101) if (v111.clone() == std::cmp::max(v102.clone(), 3)), r4(v103, v112) if (v112.clone() == 0), if (v101.clone() < 1), let v104 = std::cmp::min(std::cmp::min(v101.clone(), 1), 6), if (v104.clone() == v103.clone()), r3(v105, v3, v113) if (v113.clone() == v2.clone()), r3(v107, v114, v106) if (v114.clone() == std::cmp::max(v107.clone(), 3)), r4(v108, v115) if (v115.clone() == 0), if (v106.clone() < 1), let v109 = std::cmp::min(std::cmp::min(v106.clone(), 1), 6), if (v109.clone() == v108.clone());
      r7(2, Some(v0.clone())) <-- r8(v0, v1), r3(v116, v122, v2) if (v122.clone() == std::cmp::max(v116.clone(), 3)), r4(v117, v123) if (v123.clone() == 0), if (v2.clone() < 1), let v118 = std::cmp::min(std::cmp::min(v2.clone(), 1), 6), if (v118.clone() == v117.clone()), r3(v119, v124, v125) if (v124.clone() == std::cmp::max(v119.clone(), 3)) if (v125.clone() == v0.clone()), r4(v120, v126) if (v126.clone() == 0), if (v0.clone() < 1), let v121 = std::cmp::min(std::cmp::min(v0.clone(), 1), 6), if (v121.clone() == v120.clone());
      r7(v0, Some(v0.clone())) <-- r8(v0, v1), r3(v116, v122, v2) if (v122.clone() == std::cmp::max(v116.clone(), 3)), r4(v117, v123) if (v123.clone() == 0), if (v2.clone() < 1), let v118 = std::cmp::min(std::cmp::min(v2.clone(), 1), 6), if (v118.clone() == v117.clone()), r3(v119, v124, v125) if (v124.clone() == std::cmp::max(v119.clone(), 3)) if (v125.clone() == v0.clone()), r4(v120, v126) if (v126.clone() == 0), if (v0.clone() < 1), let v121 = std::cmp::min(std::cmp::min(v0.clone(), 1), 6), if (v121.clone() == v120.clone());
      r7(2, Some(v0.clone())) <-- r8(v0, v1), r7(v2, v127) if (v127.clone() == None::<i64>), r3(v119, v128, v129) if (v128.clone() == std::cmp::max(v119.clone(), 3)) if (v129.clone() == v0.clone()), r4(v120, v130) if (v130.clone() == 0), if (v0.clone() < 1), let v121 = std::cmp::min(std::cmp::min(v0.clone(), 1), 6), if (v121.clone() == v120.clone());
      r7(v0, Some(v0.clone())) <-- r8(v0, v1), r7(v2, v127) if (v127.clone() == None::<i64>), r3(v119, v128, v129) if (v128.clone() == std::cmp::max(v119.clone(), 3)) if (v129.clone() == v0.clone()), r4(v120, v130) if (v130.clone() == 0), if (v0.clone() < 1), let v121 = std::cmp::min(std::cmp::min(v0.clone(), 1), 6), if (v121.clone() == v120.clone());
      r7(std::cmp::min((v1.clone() + v1.clone()), 6), Some(3)) <-- r5(v0, v134) if (v134.clone() == v0.clone()) if (v0.clone() == 3), r3(v131, v135, v1) if (v135.clone() == std::cmp::max(v131.clone(), 3)), r4(v132, v136) if (v136.clone() == 0), if (v1.clone() < 1), let v133 = std::cmp::min(std::cmp::min(v1.clone(), 1), 6), if (v133.clone() == v132.clone());
      r8(std::cmp::min((v1.clone() + v1.clone()), 6), std::cmp::min((v1.clone() + v1.clone()), 6)) <-- r5(v0, v134) if (v134.clone() == v0.clone()) if (v0.clone() == 3), r3(v131, v135, v1) if (v135.clone() == std::cmp::max(v131.clone(), 3)), r4(v132, v136) if (v136.clone() == 0), if (v1.clone() < 1), let v133 = std::cmp::min(std::cmp::min(v1.clone(), 1), 6), if (v133.clone() == v132.clone());
      r7((v2.clone() + 1), Some(v1.clone())) <-- r8(v142, v0) if (v0.clone() <= 1), r3(v137, v1, v2), r3(v139, v143, v138) if (v143.clone() == std::cmp::max(v139.clone(), 3)), r4(v140, v144) if (v144.clone() == 0), if (v138.clone() < 1), let v141 = std::cmp::min(std::cmp::min(v138.clone(), 1), 6), if (v141.clone() == v140.clone()), if (v2.clone() < 5);
      r7(2, Some(3));
      r8(2, 2);
   }
   pub struct Inst { p: Prog, pool: Option<ascent::rayon::ThreadPool> }
   pub fn make(pool: Option<usize>) -> Box<dyn Driver> {
      let pool = pool.map(|n| ascent::rayon::ThreadPoolBuilder::new().num_threads(n).build().unwrap());
      let p = match &pool { Some(pl) => pl.install(|| Default::default()), None => Default::default() };
      Box::new(Inst { p, pool })
   }
   impl Driver for Inst {
      fn load(&mut self, rel: usize, rows: &[Sexp], append: bool) -> Option<()> {
         match rel {
         0 => { let v: Vec<(i64,i64,)> = parse_rows(rows)?; if append { self.p.r0.extend(v) } else { self.p.r0 = v } },
         1 => { let v: Vec<(i64,Option<i64>,)> = parse_rows(rows)?; if append { self.p.r1.extend(v) } else { self.p.r1 = v } },
         2 => { let v: Vec<(i64,)> = parse_rows(rows)?; if append { self.p.r2.extend(v) } else { self.p.r2 = v } },
         3 => { let v: Vec<(i64,i64,i64,)> = parse_rows(rows)?; if append { self.p.r3.extend(v) } else { self.p.r3 = v } },
         4 => { let v: Vec<(i64,i64,)> = parse_rows(rows)?; if append { self.p.r4.extend(v) } else { self.p.r4 = v } },
         5 => { let v: Vec<(i64,i64,)> = parse_rows(rows)?; if append { self.p.r5.extend(v) } else { self.p.r5 = v } },
         6 => { let v: Vec<(i64,)> = parse_rows(rows)?; if append { self.p.r6.extend(v) } else { self.p.r6 = v } },
         7 => { let v: Vec<(i64,Option<i64>,)> = parse_rows(rows)?; if append { self.p.r7.extend(v) } else { self.p.r7 = v } },
         8 => { let v: Vec<(i64,i64,)> = parse_rows(rows)?; if append { self.p.r8.extend(v) } else { self.p.r8 = v } },
            _ => return None,
         }
         Some(())
      }
      fn run(&mut self) { match &self.pool { Some(pl) => { let p = &mut self.p; pl.install(|| p.run()) }, None => self.p.run() } }
      fn run_here(&mut self) { self.p.run() }
      fn run_timeout(&mut self, k: usize) -> Option<bool> { let _ = k; None }
      fn dump(&self) -> String { vec![dump_rel(0, self.p.r0.iter().map(Row::render).collect()), dump_rel(1, self.p.r1.iter().map(Row::render).collect()), dump_rel(2, self.p.r2.iter().map(Row::render).collect()), dump_rel(3, self.p.r3.iter().map(Row::render).collect()), dump_rel(4, self.p.r4.iter().map(Row::render).collect()), dump_rel(5, self.p.r5.iter().map(Row::render).collect()), dump_rel(6, self.p.r6.iter().map(Row::render).collect()), dump_rel(7, self.p.r7.iter().map(Row::render).collect()), dump_rel(8, self.p.r8.iter().map(Row::render).collect())].join(" | ") }
      fn iters(&self) -> String { format!("iters {}", self.p.scc_iters.iter().map(|x| x.to_string()).collect::<Vec<_>>().join(" ")) }
   }
}

#[allow(unused, non_snake_case, clippy::all)]
pub mod h13x {
   use ascent::*;
   use ascent::aggregators::*;
   use ascent::lattice::{Dual, set::Set};
   use crate::common::*;
   ascent! {
      pub struct Prog;
      relation r0(i64, i64);
      relation r1(i64, Option<i64>);
      relation r2(i64);
      relation r3(i64, i64, i64);
      relation r4(i64, Option<i64>);
      relation r5(i64, i64, i64);
      relation r6(i64);
      r5(v1, v0, v1) <-- r2(v0) if (v0.clone() < 4), r3(v100, v1, v101) if (v100.clone() == 0) if (v101.clone() == v0.clone()), r2(v102) if (v102.clone() == v1.clone()), if (v0.clone() == 5);
      r5(v1, v0, v1) <-- r2(v0) if (v0.clone() < 4), r6(v1);
      r6(v0) <-- r1(v107, v108) if (v107.clone() == 3) if let Some(v0) = v108.clone() if (v0.clone() == 1), r0(v103, v1), r3(v109, v104, v110) if (v109.clone() == 0) if (v110.clone() == v103.clone()), r2(v111) if (v111.clone() == v104.clone()), if (v103.clone() == 5), if (v104.clone() <= 3), r0(v105, v112) if (v112.clone() == v1.clone()), r3(v113, v106, v114) if (v113.clone() == 0) if (v114.clone() == v105.clone()), r2(v115) if (v115.clone() == v106.clone()), if (v105.clone() == 5), if (v106.clone() <= 3);
      r6(v0) <-- r1(v107, v108) if (v107.clone() == 3) if let Some(v0) = v108.clone() if (v0.clone() == 1), r0(v103, v1), r3(v109, v104, v110) if (v109.clone() == 0) if (v110.clone() == v103.clone()), r2(v111) if (v111.clone() == v104.clone()), if (v103.clone() == 5), if (v104.clone() <= 3), r0(v105, v112) if (v112.clone() == v1.clone()), r3(v113, v106, v114) if (v113.clone() == 0) if (v114.clone() == v105.clone()), r2(v115) if (v115.clone() == v106.clone()), if (v105.clone() == 5), if (v106.clone() <= 3);
      r6((v0.clone() + 0)) <-- r1(v107, v108) if (v107.clone() == 3) if let Some(v0) = v108.clone() if (v0.clone() == 1), r0(v103, v1), r3(v109, v104, v110) if (v109.clone() == 0) if (v110.clone() == v103.clone()), r2(v111) if (v111.clone() == v104.clone()), if (v103.clone() == 5), if (v104.clone() <= 3), r0(v105, v112) if (v112.clone() == v1.clone()), r3(v113, v106, v114) if (v113.clone() == 0) if (v114.clone() == v105.clone()), r2(v115) if (v115.clone() == v106.clone()), if (v105.clone() == 5), if (v106.clone() <= 3);
      r6((v0.clone() + 1)) <-- r0(v116, v0), r3(v118, v117, v119) if (v118.clone() == 0) if (v119.clone() == v116.clone()), r2(v120) if (v120.clone() == v117.clone()), if (v116.clone() == 5), if (v117.clone() <= 3), if (v0.clone() < 5);
      r6(v1) <-- r3(v0, v123, v1) if (v123.clone() == 0), r0(v121, v2), r3(v124, v122, v125) if (v124.clone() == 0) if (v125.clone() == v121.clone()), r2(v126) if (v126.clone() == v122.clone()), if (v121.clone() == 5), if (v122.clone() <= 3);
      r6(std::cmp::min(std::cmp::max(v0.clone(), 1), 6)) <-- r6(v0), r0(v127, v1), r3(v131, v128, v132) if (v131.clone() == 0) if (v132.clone() == v127.clone()), r2(v133) if (v133.clone() == v128.clone()), if (v127.clone() == 5), if (v128.clone() <= 3), r0(v129, v3), r3(v134, v130, v135) if (v134.clone() == 0) if (v135.clone() == v129.clone()), r2(v136) if (v136.clone() == v130.clone()), if (v129.clone() == 5), if (v130.clone() <= 3);
      r5(v3, 0, v0) <-- r6(v0), r0(v127, v1), r3(v131, v128, v132) if (v131.clone() == 0) if (v132.clone() == v127.clone()), r2(v133) if (v133.clone() == v128.clone()), if (v127.clone() == 5), if (v128.clone() <= 3), r0(v129, v3), r3(v134, v130, v135) if (v134.clone() == 0) if (v135.clone() == v129.clone()), r2(v136) if (v136.clone() == v130.clone()), if (v129.clone() == 5), if (v130.clone() <= 3);
      r6(std::cmp::min(std::cmp::max(v0.clone(), 1), 6)) <-- r6(v0), r4(v1, v137) if (v0.clone() <= 4), r0(v129, v3), r3(v138, v130, v139) if (v138.clone() == 0) if (v139.clone() == v129.clone()), r2(v140) if (v140.clone() == v130.clone()), if (v129.clone() == 5), if (v130.clone() <= 3);
      r5(v3, 0, v0) <-- r6(v0), r4(v1, v137) if (v0.clone() <= 4), r0(v129, v3), r3(v138, v130, v139) if (v138.clone() == 0) if (v139.clone() == v129.clone()), r2(v140) if (v140.clone() == v130.clone()), if (v129.clone() == 5), if (v130.clone() <= 3);
      r4((v0.clone() + 1), Some(v0.clone())) <-- r2(v0), if (v0.clone() < 5);
   }
   pub struct Inst { p: Prog, pool: Option<ascent::rayon::ThreadPool> }
   pub fn make(pool: Option<usize>) -> Box<dyn Driver> {
      let pool = pool.map(|n| ascent::rayon::ThreadPoolBuilder::new().num_threads(n).build().unwrap());
      let p = match &pool { Some(pl) => pl.install(|| Default::default()), None => Default::default() };
      Box::new(Inst { p, pool })
   }
   impl Driver for Inst {
      fn load(&mut self, rel: usize, rows: &[Sexp], append: bool) -> Option<()> {
         match rel {
         0 => { let v: Vec<(i64,i64,)> = parse_rows(rows)?; if append { self.p.r0.extend(v) } else { self.p.r0 = v } },
         1 => { let v: Vec<(i64,Option<i64>,)> = parse_rows(rows)?; if append { self.p.r1.extend(v) } else { self.p.r1 = v } },
         2 => { let v: Vec<(i64,)> = parse_rows(rows)?; if append { self.p.r2.extend(v) } else { self.p.r2 = v } },
         3 => { let v: Vec<(i64,i64,i64,)> = parse_rows(rows)?; if append { self.p.r3.extend(v) } else { self.p.r3 = v } },
         4 => { let v: Vec<(i64,Option<i64>,)> = parse_rows(rows)?; if append { self.p.r4.extend(v) } else { self.p.r4 = v } },
         5 => { let v: Vec<(i64,i64,i64,)> = parse_rows(rows)?; if append { self.p.r5.extend(v) } else { self.p.r5 = v } },
         6 => { let v: Vec<(i64,)> = parse_rows(rows)?; if append { self.p.r6.extend(v) } else { self.p.r6 = v } },
            _ => return None,
         }
         Some(())
      }
      fn run(&mut self) { match &self.pool { Some(pl) => { let p = &mut self.p; pl.install(|| p.run()) }, None => self.p.run() } }
      fn run_here(&mut self) { self.p.run() }
      fn run_timeout(&mut self, k: usize) -> Option<bool> { let _ = k; None }
      fn dump(&self) -> String { vec![dump_rel(0, self.p.r0.iter().map(Row::render).collect()), dump_rel(1, self.p.r1.iter().map(Row::render).collect()), dump_rel(2, self.p.r2.iter().map(Row::render).collect()), dump_rel(3, self.p.r3.iter().map(Row::render).collect()), dump_rel(4, self.p.r4.iter().map(Row::render).collect()), dump_rel(5, self.p.r5.iter().map(Row::render).collect()), dump_rel(6, self.p.r6.iter().map(Row::render).collect())].join(" | ") }
      fn iters(&self) -> String { format!("iters {}", self.p.scc_iters.iter().map(|x| x.to_string()).collect::<Vec<_>>().join(" ")) }
   }
}

#[allow(unused, non_snake_case, clippy::all)]
pub mod a3x {
   use ascent::*;
   use ascent::aggregators::*;
   use ascent::lattice::{Dual, set::Set};
   use crate::common::*;
   ascent! {
      pub struct Prog;
      relation r0(i64, i64);
      relation r1(i64);
      relation r2(i64, i64);
      relation r3(i64);
      r2(v0, v2) <-- r1(v0), r1(v100), r0(v101, v2) if (v101.clone() != 0);
      r3(v0) <-- r2(v0, v102);
   }
   pub struct Inst { p: Prog, pool: Option<ascent::rayon::ThreadPool> }
   pub fn make(pool: Option<usize>) -> Box<dyn Driver> {
      let pool = pool.map(|n| ascent::rayon::ThreadPoolBuilder::new().num_threads(n).build().unwrap());
      let p = match &pool { Some(pl) => pl.install(|| Default::default()), None => Default::default() };
      Box::new(Inst { p, pool })
   }
   impl Driver for Inst {
      fn load(&mut self, rel: usize, rows: &[Sexp], append: bool) -> Option<()> {
         match rel {
         0 => { let v: Vec<(i64,i64,)> = parse_rows(rows)?; if append { self.p.r0.extend(v) } else { self.p.r0 = v } },
         1 => { let v: Vec<(i64,)> = parse_rows(rows)?; if append { self.p.r1.extend(v) } else { self.p.r1 = v } },
         2 => { let v: Vec<(i64,i64,)> = parse_rows(rows)?; if append { self.p.r2.extend(v) } else { self.p.r2 = v } },
         3 => { let v: Vec<(i64,)> = parse_rows(rows)?; if append { self.p.r3.extend(v) } else { self.p.r3 = v } },
            _ => return None,
         }
         Some(())
      }
      fn run(&mut self) { match &self.pool { Some(pl) => { let p = &mut self.p; pl.install(|| p.run()) }, None => self.p.run() } }
      fn run_here(&mut self) { self.p.run() }
      fn run_timeout(&mut self, k: usize) -> Option<bool> { let _ = k; None }
      fn dump(&self) -> String { vec![dump_rel(0, self.p.r0.iter().map(Row::render).collect()), dump_rel(1, self.p.r1.iter().map(Row::render).collect()), dump_rel(2, self.p.r2.iter().map(Row::render).collect()), dump_rel(3, self.p.r3.iter().map(Row::render).collect())].join(" | ") }
      fn iters(&self) -> String { format!("iters {}", self.p.scc_iters.iter().map(|x| x.to_string()).collect::<Vec<_>>().join(" ")) }
   }
}

#[allow(unused, non_snake_case, clippy::all)]
pub mod e3x {
   use ascent::*;
   use ascent::aggregators::*;
   use ascent::lattice::{Dual, set::Set};
   use crate::common::*;
   ascent! {
      pub struct Prog;
      relation r0(i64, i64);
      relation r1(i64);
      relation r2(i64, i64);
      relation r3(i64);
      r2(v0, v1) <-- r1(v0), r0(v100, v1), if ((v100.clone() * (v0.clone() + 2)) < 4);
      r3(v0) <-- r2(v0, v101);
   }
   pub struct Inst { p: Prog, pool: Option<ascent::rayon::ThreadPool> }
   pub fn make(pool: Option<usize>) -> Box<dyn Driver> {
      let pool = pool.map(|n| ascent::rayon::ThreadPoolBuilder::new().num_threads(n).build().unwrap());
      let p = match &pool { Some(pl) => pl.install(|| Default::default()), None => Default::default() };
      Box::new(Inst { p, pool })
   }
   impl Driver for Inst {
      fn load(&mut self, rel: usize, rows: &[Sexp], append: bool) -> Option<()> {
         match rel {
         0 => { let v: Vec<(i64,i64,)> = parse_rows(rows)?; if append { self.p.r0.extend(v) } else { self.p.r0 = v } },
         1 => { let v: Vec<(i64,)> = parse_rows(rows)?; if append { self.p.r1.extend(v) } else { self.p.r1 = v } },
         2 => { let v: Vec<(i64,i64,)> = parse_rows(rows)?; if append { self.p.r2.extend(v) } else { self.p.r2 = v } },
         3 => { let v: Vec<(i64,)> = parse_rows(rows)?; if append { self.p.r3.extend(v) } else { self.p.r3 = v } },
            _ => return None,
         }
         Some(())
      }
      fn run(&mut self) { match &self.pool { Some(pl) => { let p = &mut self.p; pl.install(|| p.run()) }, None => self.p.run() } }
      fn run_here(&mut self) { self.p.run() }
      fn run_timeout(&mut self, k: usize) -> Option<bool> { let _ = k; None }
      fn dump(&self) -> String { vec![dump_rel(0, self.p.r0.iter().map(Row::render).collect()), dump_rel(1, self.p.r1.iter().map(Row::render).collect()), dump_rel(2, self.p.r2.iter().map(Row::render).collect()), dump_rel(3, self.p.r3.iter().map(Row::render).collect())].join(" | ") }
      fn iters(&self) -> String { format!("iters {}", self.p.scc_iters.iter().map(|x| x.to_string()).collect::<Vec<_>>().join(" ")) }
   }
}

#[allow(unused, non_snake_case, clippy::all)]
pub mod o2x {
   use ascent::*;
   use ascent::aggregators::*;
   use ascent::lattice::{Dual, set::Set};
   use crate::common::*;
   ascent! {
      pub struct Prog;
      relation r0(i64, Option<i64>);
      relation r1(i64);
      relation r2(i64, i64);
      relation r3(i64);
      r3(v0) <-- r1(v0), r0(v101, v102) if (v101.clone() == v0.clone()) if let Some(v100) = v102.clone(), if (v100.clone() <= 3);
      r2(v0, v0) <-- r3(v0);
   }
   pub struct Inst { p: Prog, pool: Option<ascent::rayon::ThreadPool> }
   pub fn make(pool: Option<usize>) -> Box<dyn Driver> {
      let pool = pool.map(|n| ascent::rayon::ThreadPoolBuilder::new().num_threads(n).build().unwrap());
      let p = match &pool { Some(pl) => pl.install(|| Default::default()), None => Default::default() };
      Box::new(Inst { p, pool })
   }
   impl Driver for Inst {
      fn load(&mut self, rel: usize, rows: &[Sexp], append: bool) -> Option<()> {
         match rel {
         0 => { let v: Vec<(i64,Option<i64>,)> = parse_rows(rows)?; if append { self.p.r0.extend(v) } else { self.p.r0 = v } },
         1 => { let v: Vec<(i64,)> = parse_rows(rows)?; if append { self.p.r1.extend(v) } else { self.p.r1 = v } },
         2 => { let v: Vec<(i64,i64,)> = parse_rows(rows)?; if append { self.p.r2.extend(v) } else { self.p.r2 = v } },
         3 => { let v: Vec<(i64,)> = parse_rows(rows)?; if append { self.p.r3.extend(v) } else { self.p.r3 = v } },
            _ => return None,
         }
         Some(())
      }
      fn run(&mut self) { match &self.pool { Some(pl) => { let p = &mut self.p; pl.install(|| p.run()) }, None => self.p.run() } }
      fn run_here(&mut self) { self.p.run() }
      fn run_timeout(&mut self, k: usize) -> Option<bool> { let _ = k; None }
      fn dump(&self) -> String { vec![dump_rel(0, self.p.r0.iter().map(Row::render).collect()), dump_rel(1, self.p.r1.iter().map(Row::render).collect()), dump_rel(2, self.p.r2.iter().map(Row::render).collect()), dump_rel(3, self.p.r3.iter().map(Row::render).collect())].join(" | ") }
      fn iters(&self) -> String { format!("iters {}", self.p.scc_iters.iter().map(|x| x.to_string()).collect::<Vec<_>>().join(" ")) }
   }
}

fn main() {
   common::main_loop(&[("h1x", h1x::make as common::Factory), ("h5x", h5x::make as common::Factory), ("h9x", h9x::make as common::Factory), ("h13x", h13x::make as common::Factory), ("a3x", a3x::make as common::Factory), ("e3x", e3x::make as common::Factory), ("o2x", o2x::make as common::Factory)]);
}
