#[path = "common.rs"]
mod common;
#[allow(unused, non_snake_case, clippy::all)]
pub mod m1_perm1 {
   use ascent::*;
   use ascent::aggregators::*;
   use ascent::lattice::{Dual, set::Set};
   use crate::common::*;
   ascent! {
      pub struct Prog;
      relation r2(i64);
      relation r0(i64, i64);
      relation r1(i64, i64);
      relation r3(i64, i64, i64);
      r3(v1, ((*v0) + 1), v1) <-- r2(v0) if ((*v0) < 2), r1(v1, v0), if ((*v0) < 6);
      r3(v0, v1, v2) <-- r0(v0, v1) if ((*v0) < 3), r1(v1, v2) if ((*v2) != (*v1));
      r3(1, 2, 1);
      r3(v1, v1, v1) <-- r1(0, v0), r0(3, 2), r1(v0, v1);
      r3(0, 3, 3) <-- r0(1, 1);
      r2(v0) <-- r0(v0, v1) if ((*v0) < 3), r1(v1, v2) if ((*v2) != (*v1));
      r1(3, 3) <-- r1(1, 1);
      r3(v0, v0, (v0 + 1)) <-- let v0 = 2, r1(v0, v0), r3(v0, (v0 + 1), (v0 + 1)), if (v0 < 6), if (v0 <= 6);
   }
   pub struct Inst { p: Prog, pool: Option<ascent::rayon::ThreadPool> }
   pub fn make(pool: Option<usize>) -> Box<dyn Driver> {
      let pool = pool.map(|n| ascent::rayon::ThreadPoolBuilder::new().num_threads(n).build().unwrap());
      let p = match &pool { Some(pl) => pl.install(|| Default::default()), None => Default::default() };
      Box::new(Inst { p, pool })
   }
   impl Driver for Inst {
      fn load(&mut self, rel: usize, rows: &[Sexp], append: bool) -> Option<()> {
         match rel {
         0 => { let v: Vec<(i64,i64,)> = parse_rows(rows)?; if append { self.p.r0.extend(v) } else { self.p.r0 = v } },
         1 => { let v: Vec<(i64,i64,)> = parse_rows(rows)?; if append { self.p.r1.extend(v) } else { self.p.r1 = v } },
         2 => { let v: Vec<(i64,)> = parse_rows(rows)?; if append { self.p.r2.extend(v) } else { self.p.r2 = v } },
         3 => { let v: Vec<(i64,i64,i64,)> = parse_rows(rows)?; if append { self.p.r3.extend(v) } else { self.p.r3 = v } },
            _ => return None,
         }
         Some(())
      }
      fn run(&mut self) { match &self.pool { Some(pl) => { let p = &mut self.p; pl.install(|| p.run()) }, None => self.p.run() } }
      fn run_here(&mut self) { self.p.run() }
      fn run_timeout(&mut self, k: usize) -> Option<bool> { let _ = k; None }
      fn dump(&self) -> String { vec![dump_rel(0, self.p.r0.iter().map(Row::render).collect()), dump_rel(1, self.p.r1.iter().map(Row::render).collect()), dump_rel(2, self.p.r2.iter().map(Row::render).collect()), dump_rel(3, self.p.r3.iter().map(Row::render).collect())].join(" | ") }
      fn iters(&self) -> String { format!("iters {}", self.p.scc_iters.iter().map(|x| x.to_string()).collect::<Vec<_>>().join(" ")) }
   }
}

#[allow(unused, non_snake_case, clippy::all)]
pub mod m3 {
   use ascent::*;
   use ascent::aggregators::*;
   use ascent::lattice::{Dual, set::Set};
   use crate::common::*;
   ascent! {
      pub struct Prog;
      relation r0(i64, i64);
      relation r1(i64);
      relation r2(i64);
      relation r3(i64, i64);
      relation r4(i64, i64);
      relation r5(i64, i64, i64);
      r1(v1) <-- let v0 = 0, r0(v1, v0), if ((*v1) != 3);
      r2(v1) <-- if let Some(v0) = Some(4), r1(v1), r0(v0, v2);
      r3(v0, 1) <-- r2(v0) if ((*v0) != 1);
      r4(v0, v0) <-- r3(v0, 3), if ((*v0) <= 1), r2(v0);
      r5((v2 + 1), v2, 1) <-- r4(v0, v1) if ((*v0) < 1) let v2 = ((*v1) + 0), r3(v2, v0), let v3 = (*v1), if (v2 < 6), if (v2 <= 6);
      r3(v0, v8) <-- if let Some(v9) = Some(2), r0(v0, v1), r3(v1, v9) let v8 = ((*v0) + 1);
      r4(v0, 1) <-- r0(v0, 3) if ((*v0) != 6), let v1 = (*v0);
      r0(3, 0);
      r1(((*v0) + 1)) <-- r0(1, v0), if ((*v0) < 6);
   }
   pub struct Inst { p: Prog, pool: Option<ascent::rayon::ThreadPool> }
   pub fn make(pool: Option<usize>) -> Box<dyn Driver> {
      let pool = pool.map(|n| ascent::rayon::ThreadPoolBuilder::new().num_threads(n).build().unwrap());
      let p = match &pool { Some(pl) => pl.install(|| Default::default()), None => Default::default() };
      Box::new(Inst { p, pool })
   }
   impl Driver for Inst {
      fn load(&mut self, rel: usize, rows: &[Sexp], append: bool) -> Option<()> {
         match rel {
         0 => { let v: Vec<(i64,i64,)> = parse_rows(rows)?; if append { self.p.r0.extend(v) } else { self.p.r0 = v } },
         1 => { let v: Vec<(i64,)> = parse_rows(rows)?; if append { self.p.r1.extend(v) } else { self.p.r1 = v } },
         2 => { let v: Vec<(i64,)> = parse_rows(rows)?; if append { self.p.r2.extend(v) } else { self.p.r2 = v } },
         3 => { let v: Vec<(i64,i64,)> = parse_rows(rows)?; if append { self.p.r3.extend(v) } else { self.p.r3 = v } },
         4 => { let v: Vec<(i64,i64,)> = parse_rows(rows)?; if append { self.p.r4.extend(v) } else { self.p.r4 = v } },
         5 => { let v: Vec<(i64,i64,i64,)> = parse_rows(rows)?; if append { self.p.r5.extend(v) } else { self.p.r5 = v } },
            _ => return None,
         }
         Some(())
      }
      fn run(&mut self) { match &self.pool { Some(pl) => { let p = &mut self.p; pl.install(|| p.run()) }, None => self.p.run() } }
      fn run_here(&mut self) { self.p.run() }
      fn run_timeout(&mut self, k: usize) -> Option<bool> { let _ = k; None }
      fn dump(&self) -> String { vec![dump_rel(0, self.p.r0.iter().map(Row::render).collect()), dump_rel(1, self.p.r1.iter().map(Row::render).collect()), dump_rel(2, self.p.r2.iter().map(Row::render).collect()), dump_rel(3, self.p.r3.iter().map(Row::render).collect()), dump_rel(4, self.p.r4.iter().map(Row::render).collect()), dump_rel(5, self.p.r5.iter().map(Row::render).collect())].join(" | ") }
      fn iters(&self) -> String { format!("iters {}", self.p.scc_iters.iter().map(|x| x.to_string()).collect::<Vec<_>>().join(" ")) }
   }
}

#[allow(unused, non_snake_case, clippy::all)]
pub mod m4_ren0 {
   use ascent::*;
   use ascent::aggregators::*;
   use ascent::lattice::{Dual, set::Set};
   use crate::common::*;
   ascent! {
      pub struct Prog;
      relation rel0_(i64, i64);
      relation rel1_(i64);
      relation rel2_(i64, i64, i64);
      relation rel3_(i64, i64, i64);
      rel3_(x0_, 0, 0) <-- if let Some(x0_) = Some(3), rel1_(x0_) if (x0_ <= 2), if (x0_ <= 6);
      rel3_(x0_, x2_, x2_) <-- if let Some(x0_) = Some(4), rel3_(x1_, x0_, x2_), rel1_(((*x1_) + 1)), if (x0_ <= 6);
      rel2_(x0_, x1_, x2_) <-- rel0_(x0_, x1_) if ((*x0_) < 5), rel0_(x1_, x2_) if ((*x2_) != (*x1_));
      rel2_(x0_, x0_, x0_) <-- rel1_(3), let x0_ = 3, if (x0_ <= 6);
   }
   pub struct Inst { p: Prog, pool: Option<ascent::rayon::ThreadPool> }
   pub fn make(pool: Option<usize>) -> Box<dyn Driver> {
      let pool = pool.map(|n| ascent::rayon::ThreadPoolBuilder::new().num_threads(n).build().unwrap());
      let p = match &pool { Some(pl) => pl.install(|| Default::default()), None => Default::default() };
      Box::new(Inst { p, pool })
   }
   impl Driver for Inst {
      fn load(&mut self, rel: usize, rows: &[Sexp], append: bool) -> Option<()> {
         match rel {
         0 => { let v: Vec<(i64,i64,)> = parse_rows(rows)?; if append { self.p.rel0_.extend(v) } else { self.p.rel0_ = v } },
         1 => { let v: Vec<(i64,)> = parse_rows(rows)?; if append { self.p.rel1_.extend(v) } else { self.p.rel1_ = v } },
         2 => { let v: Vec<(i64,i64,i64,)> = parse_rows(rows)?; if append { self.p.rel2_.extend(v) } else { self.p.rel2_ = v } },
         3 => { let v: Vec<(i64,i64,i64,)> = parse_rows(rows)?; if append { self.p.rel3_.extend(v) } else { self.p.rel3_ = v } },
            _ => return None,
         }
         Some(())
      }
      fn run(&mut self) { match &self.pool { Some(pl) => { let p = &mut self.p; pl.install(|| p.run()) }, None => self.p.run() } }
      fn run_here(&mut self) { self.p.run() }
      fn run_timeout(&mut self, k: usize) -> Option<bool> { let _ = k; None }
      fn dump(&self) -> String { vec![dump_rel(0, self.p.rel0_.iter().map(Row::render).collect()), dump_rel(1, self.p.rel1_.iter().map(Row::render).collect()), dump_rel(2, self.p.rel2_.iter().map(Row::render).collect()), dump_rel(3, self.p.rel3_.iter().map(Row::render).collect())].join(" | ") }
      fn iters(&self) -> String { format!("iters {}", self.p.scc_iters.iter().map(|x| x.to_string()).collect::<Vec<_>>().join(" ")) }
   }
}

#[allow(unused, non_snake_case, clippy::all)]
pub mod m5_str {
   use ascent::*;
   use ascent::aggregators::*;
   use ascent::lattice::{Dual, set::Set};
   use crate::common::*;
   ascent! {
      pub struct Prog;
      relation r0(String, String);
      relation r1(String, String);
      relation r2(String, String);
      r2(v0, v1) <-- r2(v0, v1), r2(v1, v1), if (v1.clone() != "s2".to_string());
      r2(v1, v1) <-- r0(v0, v1), r2(v0, v2);
   }
   pub struct Inst { p: Prog, pool: Option<ascent::rayon::ThreadPool> }
   pub fn make(pool: Option<usize>) -> Box<dyn Driver> {
      let pool = pool.map(|n| ascent::rayon::ThreadPoolBuilder::new().num_threads(n).build().unwrap());
      let p = match &pool { Some(pl) => pl.install(|| Default::default()), None => Default::default() };
      Box::new(Inst { p, pool })
   }
   impl Driver for Inst {
      fn load(&mut self, rel: usize, rows: &[Sexp], append: bool) -> Option<()> {
         match rel {
         0 => { let v: Vec<(String,String,)> = parse_rows(rows)?; if append { self.p.r0.extend(v) } else { self.p.r0 = v } },
         1 => { let v: Vec<(String,String,)> = parse_rows(rows)?; if append { self.p.r1.extend(v) } else { self.p.r1 = v } },
         2 => { let v: Vec<(String,String,)> = parse_rows(rows)?; if append { self.p.r2.extend(v) } else { self.p.r2 = v } },
            _ => return None,
         }
         Some(())
      }
      fn run(&mut self) { match &self.pool { Some(pl) => { let p = &mut self.p; pl.install(|| p.run()) }, None => self.p.run() } }
      fn run_here(&mut self) { self.p.run() }
      fn run_timeout(&mut self, k: usize) -> Option<bool> { let _ = k; None }
      fn dump(&self) -> String { vec![dump_rel(0, self.p.r0.iter().map(Row::render).collect()), dump_rel(1, self.p.r1.iter().map(Row::render).collect()), dump_rel(2, self.p.r2.iter().map(Row::render).collect())].join(" | ") }
      fn iters(&self) -> String { format!("iters {}", self.p.scc_iters.iter().map(|x| x.to_string()).collect::<Vec<_>>().join(" ")) }
   }
}

#[allow(unused, non_snake_case, clippy::all)]
pub mod m7 {
   use ascent::*;
   use ascent::aggregators::*;
   use ascent::lattice::{Dual, set::Set};
   use crate::common::*;
   ascent! {
      pub struct Prog;
      relation r0(i64, i64);
      relation r1(i64, i64);
      relation r2(i64, i64);
      relation r3(i64);
      r1(v0, v0) <-- r0(v0, v1), if ((*v0) != 3);
      r2(v1, v1) <-- r0(v0, v1);
      r3(2) <-- r1(0, v0), r2(v1, v2), if ((*v0) != 2);
      r1(v0, v1) <-- r0(v0, v1), r2(v0, v0), r0(v1, v2), if ((*v2) == 1);
      r1(v0, v2) <-- r0(v0, v1), r1(v1, v2), r0(v2, v3);
      r3(v1) <-- r0(v0, v1), if ((*v0) == 0);
      r1(1, 2);
      r1(1, 3);
   }
   pub struct Inst { p: Prog, pool: Option<ascent::rayon::ThreadPool> }
   pub fn make(pool: Option<usize>) -> Box<dyn Driver> {
      let pool = pool.map(|n| ascent::rayon::ThreadPoolBuilder::new().num_threads(n).build().unwrap());
      let p = match &pool { Some(pl) => pl.install(|| Default::default()), None => Default::default() };
      Box::new(Inst { p, pool })
   }
   impl Driver for Inst {
      fn load(&mut self, rel: usize, rows: &[Sexp], append: bool) -> Option<()> {
         match rel {
         0 => { let v: Vec<(i64,i64,)> = parse_rows(rows)?; if append { self.p.r0.extend(v) } else { self.p.r0 = v } },
         1 => { let v: Vec<(i64,i64,)> = parse_rows(rows)?; if append { self.p.r1.extend(v) } else { self.p.r1 = v } },
         2 => { let v: Vec<(i64,i64,)> = parse_rows(rows)?; if append { self.p.r2.extend(v) } else { self.p.r2 = v } },
         3 => { let v: Vec<(i64,)> = parse_rows(rows)?; if append { self.p.r3.extend(v) } else { self.p.r3 = v } },
            _ => return None,
         }
         Some(())
      }
      fn run(&mut self) { match &self.pool { Some(pl) => { let p = &mut self.p; pl.install(|| p.run()) }, None => self.p.run() } }
      fn run_here(&mut self) { self.p.run() }
      fn run_timeout(&mut self, k: usize) -> Option<bool> { let _ = k; None }
      fn dump(&self) -> String { vec![dump_rel(0, self.p.r0.iter().map(Row::render).collect()), dump_rel(1, self.p.r1.iter().map(Row::render).collect()), dump_rel(2, self.p.r2.iter().map(Row::render).collect()), dump_rel(3, self.p.r3.iter().map(Row::render).collect())].join(" | ") }
      fn iters(&self) -> String { format!("iters {}", self.p.scc_iters.iter().map(|x| x.to_string()).collect::<Vec<_>>().join(" ")) }
   }
}

#[allow(unused, non_snake_case, clippy::all)]
pub mod m8_perm0 {
   use ascent::*;
   use ascent::aggregators::*;
   use ascent::lattice::{Dual, set::Set};
   use crate::common::*;
   ascent! {
      pub struct Prog;
      relation r3(i64, i64);
      relation r1(i64, i64);
      relation r2(i64, i64, i64);
      relation r0(i64);
      relation r4(i64);
      r1(v1, v0) <-- r1(v0, v1), r0(v0);
      r1(v0, v0) <-- r0(v0), if ((*v0) != 0);
      r4(v0) <-- r3(v0, v1), r1(v1, v2), if ((*v2) == 0);
      r3(v1, v0) <-- r2(0, v0, v1), if ((*v1) == 2);
   }
   pub struct Inst { p: Prog, pool: Option<ascent::rayon::ThreadPool> }
   pub fn make(pool: Option<usize>) -> Box<dyn Driver> {
      let pool = pool.map(|n| ascent::rayon::ThreadPoolBuilder::new().num_threads(n).build().unwrap());
      let p = match &pool { Some(pl) => pl.install(|| Default::default()), None => Default::default() };
      Box::new(Inst { p, pool })
   }
   impl Driver for Inst {
      fn load(&mut self, rel: usize, rows: &[Sexp], append: bool) -> Option<()> {
         match rel {
         0 => { let v: Vec<(i64,)> = parse_rows(rows)?; if append { self.p.r0.extend(v) } else { self.p.r0 = v } },
         1 => { let v: Vec<(i64,i64,)> = parse_rows(rows)?; if append { self.p.r1.extend(v) } else { self.p.r1 = v } },
         2 => { let v: Vec<(i64,i64,i64,)> = parse_rows(rows)?; if append { self.p.r2.extend(v) } else { self.p.r2 = v } },
         3 => { let v: Vec<(i64,i64,)> = parse_rows(rows)?; if append { self.p.r3.extend(v) } else { self.p.r3 = v } },
         4 => { let v: Vec<(i64,)> = parse_rows(rows)?; if append { self.p.r4.extend(v) } else { self.p.r4 = v } },
            _ => return None,
         }
         Some(())
      }
      fn run(&mut self) { match &self.pool { Some(pl) => { let p = &mut self.p; pl.install(|| p.run()) }, None => self.p.run() } }
      fn run_here(&mut self) { self.p.run() }
      fn run_timeout(&mut self, k: usize) -> Option<bool> { let _ = k; None }
      fn dump(&self) -> String { vec![dump_rel(0, self.p.r0.iter().map(Row::render).collect()), dump_rel(1, self.p.r1.iter().map(Row::render).collect()), dump_rel(2, self.p.r2.iter().map(Row::render).collect()), dump_rel(3, self.p.r3.iter().map(Row::render).collect()), dump_rel(4, self.p.r4.iter().map(Row::render).collect())].join(" | ") }
      fn iters(&self) -> String { format!("iters {}", self.p.scc_iters.iter().map(|x| x.to_string()).collect::<Vec<_>>().join(" ")) }
   }
}

#[allow(unused, non_snake_case, clippy::all)]
pub mod m9_perm1 {
   use ascent::*;
   use ascent::aggregators::*;
   use ascent::lattice::{Dual, set::Set};
   use crate::common::*;
   ascent! {
      pub struct Prog;
      relation r0(i64, i64);
      relation r2(i64, i64, i64);
      relation r1(i64, i64);
      r2(v0, v0, v0) <-- r1(v0, 3), if ((*v0) == 1);
      r2(v0, v1, v0) <-- r1(v0, v1), r1(v1, v1);
      r2(v2, v1, v5) <-- r1(v0, v1), r2(v4, v1, v5), r2(v2, v1, v3), if ((*v0) != 2);
      r1(3, 2);
      r1(v1, v2) <-- r1(1, v2), r2(v0, 3, v1), if ((*v0) != 3);
   }
   pub struct Inst { p: Prog, pool: Option<ascent::rayon::ThreadPool> }
   pub fn make(pool: Option<usize>) -> Box<dyn Driver> {
      let pool = pool.map(|n| ascent::rayon::ThreadPoolBuilder::new().num_threads(n).build().unwrap());
      let p = match &pool { Some(pl) => pl.install(|| Default::default()), None => Default::default() };
      Box::new(Inst { p, pool })
   }
   impl Driver for Inst {
      fn load(&mut self, rel: usize, rows: &[Sexp], append: bool) -> Option<()> {
         match rel {
         0 => { let v: Vec<(i64,i64,)> = parse_rows(rows)?; if append { self.p.r0.extend(v) } else { self.p.r0 = v } },
         1 => { let v: Vec<(i64,i64,)> = parse_rows(rows)?; if append { self.p.r1.extend(v) } else { self.p.r1 = v } },
         2 => { let v: Vec<(i64,i64,i64,)> = parse_rows(rows)?; if append { self.p.r2.extend(v) } else { self.p.r2 = v } },
            _ => return None,
         }
         Some(())
      }
      fn run(&mut self) { match &self.pool { Some(pl) => { let p = &mut self.p; pl.install(|| p.run()) }, None => self.p.run() } }
      fn run_here(&mut self) { self.p.run() }
      fn run_timeout(&mut self, k: usize) -> Option<bool> { let _ = k; None }
      fn dump(&self) -> String { vec![dump_rel(0, self.p.r0.iter().map(Row::render).collect()), dump_rel(1, self.p.r1.iter().map(Row::render).collect()), dump_rel(2, self.p.r2.iter().map(Row::render).collect())].join(" | ") }
      fn iters(&self) -> String { format!("iters {}", self.p.scc_iters.iter().map(|x| x.to_string()).collect::<Vec<_>>().join(" ")) }
   }
}

#[allow(unused, non_snake_case, clippy::all)]
pub mod m10_ren0 {
   use ascent::*;
   use ascent::aggregators::*;
   use ascent::lattice::{Dual, set::Set};
   use crate::common::*;
   ascent! {
      pub struct Prog;
      relation rel0_(i64, i64);
      relation rel1_(i64, i64);
      relation rel2_(i64);
      relation rel3_(i64, i64, i64);
      rel1_(((*x1_) + 1), x1_) <-- for x0_ in 2..3, rel0_(x1_, x0_) if ((*x1_) != 3), if ((*x1_) < 6);
      rel2_(x0_) <-- rel0_(x0_, 3);
      rel3_(x3_, x3_, x1_) <-- if let Some(x0_) = Some(2), rel1_(x1_, x2_), rel2_(x3_);
      rel1_(x0_, x1_) <-- rel0_(x0_, x1_), rel0_(x0_, x0_), rel0_(x1_, x2_);
      rel2_(x0_) <-- rel0_(x0_, x1_), rel0_(x1_, x1_);
      rel1_(x0_, x0_) <-- rel0_(x0_, 3);
   }
   pub struct Inst { p: Prog, pool: Option<ascent::rayon::ThreadPool> }
   pub fn make(pool: Option<usize>) -> Box<dyn Driver> {
      let pool = pool.map(|n| ascent::rayon::ThreadPoolBuilder::new().num_threads(n).build().unwrap());
      let p = match &pool { Some(pl) => pl.install(|| Default::default()), None => Default::default() };
      Box::new(Inst { p, pool })
   }
   impl Driver for Inst {
      fn load(&mut self, rel: usize, rows: &[Sexp], append: bool) -> Option<()> {
         match rel {
         0 => { let v: Vec<(i64,i64,)> = parse_rows(rows)?; if append { self.p.rel0_.extend(v) } else { self.p.rel0_ = v } },
         1 => { let v: Vec<(i64,i64,)> = parse_rows(rows)?; if append { self.p.rel1_.extend(v) } else { self.p.rel1_ = v } },
         2 => { let v: Vec<(i64,)> = parse_rows(rows)?; if append { self.p.rel2_.extend(v) } else { self.p.rel2_ = v } },
         3 => { let v: Vec<(i64,i64,i64,)> = parse_rows(rows)?; if append { self.p.rel3_.extend(v) } else { self.p.rel3_ = v } },
            _ => return None,
         }
         Some(())
      }
      fn run(&mut self) { match &self.pool { Some(pl) => { let p = &mut self.p; pl.install(|| p.run()) }, None => self.p.run() } }
      fn run_here(&mut self) { self.p.run() }
      fn run_timeout(&mut self, k: usize) -> Option<bool> { let _ = k; None }
      fn dump(&self) -> String { vec![dump_rel(0, self.p.rel0_.iter().map(Row::render).collect()), dump_rel(1, self.p.rel1_.iter().map(Row::render).collect()), dump_rel(2, self.p.rel2_.iter().map(Row::render).collect()), dump_rel(3, self.p.rel3_.iter().map(Row::render).collect())].join(" | ") }
      fn iters(&self) -> String { format!("iters {}", self.p.scc_iters.iter().map(|x| x.to_string()).collect::<Vec<_>>().join(" ")) }
   }
}

#[allow(unused, non_snake_case, clippy::all)]
pub mod m12_perm0 {
   use ascent::*;
   use ascent::aggregators::*;
   use ascent::lattice::{Dual, set::Set};
   use crate::common::*;
   ascent! {
      pub struct Prog;
      relation r2(i64);
      relation r1(i64, i64, i64);
      relation r4(i64, i64, i64);
      relation r5(i64, i64);
      relation r0(i64, i64, i64);
      relation r3(i64);
      r3(((*v0) + 1)) <-- r0(v0, v1, v2), r3(1), if ((*v0) < 6);
      r4(v0, v1, v2) <-- r5(v0, v1), r5(v1, v2), r5(v0, v0);
      r5(((*v0) + 1), v0) <-- r4(1, 2, v0) if ((*v0) < 2), if ((*v0) < 6);
      r3(v2) <-- r1(v0, v1, v2) if ((*v0) != 5) let v3 = ((*v2) + 0);
   }
   pub struct Inst { p: Prog, pool: Option<ascent::rayon::ThreadPool> }
   pub fn make(pool: Option<usize>) -> Box<dyn Driver> {
      let pool = pool.map(|n| ascent::rayon::ThreadPoolBuilder::new().num_threads(n).build().unwrap());
      let p = match &pool { Some(pl) => pl.install(|| Default::default()), None => Default::default() };
      Box::new(Inst { p, pool })
   }
   impl Driver for Inst {
      fn load(&mut self, rel: usize, rows: &[Sexp], append: bool) -> Option<()> {
         match rel {
         0 => { let v: Vec<(i64,i64,i64,)> = parse_rows(rows)?; if append { self.p.r0.extend(v) } else { self.p.r0 = v } },
         1 => { let v: Vec<(i64,i64,i64,)> = parse_rows(rows)?; if append { self.p.r1.extend(v) } else { self.p.r1 = v } },
         2 => { let v: Vec<(i64,)> = parse_rows(rows)?; if append { self.p.r2.extend(v) } else { self.p.r2 = v } },
         3 => { let v: Vec<(i64,)> = parse_rows(rows)?; if append { self.p.r3.extend(v) } else { self.p.r3 = v } },
         4 => { let v: Vec<(i64,i64,i64,)> = parse_rows(rows)?; if append { self.p.r4.extend(v) } else { self.p.r4 = v } },
         5 => { let v: Vec<(i64,i64,)> = parse_rows(rows)?; if append { self.p.r5.extend(v) } else { self.p.r5 = v } },
            _ => return None,
         }
         Some(())
      }
      fn run(&mut self) { match &self.pool { Some(pl) => { let p = &mut self.p; pl.install(|| p.run()) }, None => self.p.run() } }
      fn run_here(&mut self) { self.p.run() }
      fn run_timeout(&mut self, k: usize) -> Option<bool> { let _ = k; None }
      fn dump(&self) -> String { vec![dump_rel(0, self.p.r0.iter().map(Row::render).collect()), dump_rel(1, self.p.r1.iter().map(Row::render).collect()), dump_rel(2, self.p.r2.iter().map(Row::render).collect()), dump_rel(3, self.p.r3.iter().map(Row::render).collect()), dump_rel(4, self.p.r4.iter().map(Row::render).collect()), dump_rel(5, self.p.r5.iter().map(Row::render).collect())].join(" | ") }
      fn iters(&self) -> String { format!("iters {}", self.p.scc_iters.iter().map(|x| x.to_string()).collect::<Vec<_>>().join(" ")) }
   }
}

fn main() {
   common::main_loop(&[("m1_perm1", m1_perm1::make as common::Factory), ("m3", m3::make as common::Factory), ("m4_ren0", m4_ren0::make as common::Factory), ("m5_str", m5_str::make as common::Factory), ("m7", m7::make as common::Factory), ("m8_perm0", m8_perm0::make as common::Factory), ("m9_perm1", m9_perm1::make as common::Factory), ("m10_ren0", m10_ren0::make as common::Factory), ("m12_perm0", m12_perm0::make as common::Factory)]);
}
