#[path = "common.rs"]
mod common;
#[allow(unused, non_snake_case, clippy::all)]
pub mod m1 {
   use ascent::*;
   use ascent::aggregators::*;
   use ascent::lattice::{Dual, set::Set};
   use crate::common::*;
   ascent! {
      pub struct Prog;
      relation r0(i64, i64);
      relation r1(i64, i64);
      relation r2(i64);
      relation r3(i64, i64, i64);
      r3(0, 3, 3) <-- r0(1, 1);
      r3(v0, v0, (v0 + 1)) <-- let v0 = 2, r3(v0, (v0 + 1), (v0 + 1)), r1(v0, v0), if (v0 <= 6), if (v0 < 6);
      r3(v0, v1, v2) <-- r0(v0, v1) if ((*v0) < 3), r1(v1, v2) if ((*v2) != (*v1));
      r2(v0) <-- r0(v0, v1) if ((*v0) < 3), r1(v1, v2) if ((*v2) != (*v1));
      r3(v1, ((*v0) + 1), v1) <-- r2(v0) if ((*v0) < 2), r1(v1, v0), if ((*v0) < 6);
      r3(v1, v1, v1) <-- r0(3, 2), r1(0, v0), r1(v0, v1);
      r1(3, 3) <-- r1(1, 1);
      r3(1, 2, 1);
   }
   pub struct Inst { p: Prog, pool: Option<ascent::rayon::ThreadPool> }
   pub fn make(pool: Option<usize>) -> Box<dyn Driver> {
      let pool = pool.map(|n| ascent::rayon::ThreadPoolBuilder::new().num_threads(n).build().unwrap());
      let p = match &pool { Some(pl) => pl.install(|| Default::default()), None => Default::default() };
      Box::new(Inst { p, pool })
   }
   impl Driver for Inst {
      fn load(&mut self, rel: usize, rows: &[Sexp], append: bool) -> Option<()> {
         match rel {
         0 => { let v: Vec<(i64,i64,)> = parse_rows(rows)?; if append { self.p.r0.extend(v) } else { self.p.r0 = v } },
         1 => { let v: Vec<(i64,i64,)> = parse_rows(rows)?; if append { self.p.r1.extend(v) } else { self.p.r1 = v } },
         2 => { let v: Vec<(i64,)> = parse_rows(rows)?; if append { self.p.r2.extend(v) } else { self.p.r2 = v } },
         3 => { let v: Vec<(i64,i64,i64,)> = parse_rows(rows)?; if append { self.p.r3.extend(v) } else { self.p.r3 = v } },
            _ => return None,
         }
         Some(())
      }
      fn run(&mut self) { match &self.pool { Some(pl) => { let p = &mut self.p; pl.install(|| p.run()) }, None => self.p.run() } }
      fn run_here(&mut self) { self.p.run() }
      fn run_timeout(&mut self, k: usize) -> Option<bool> { let _ = k; None }
      fn dump(&self) -> String { vec![dump_rel(0, self.p.r0.iter().map(Row::render).collect()), dump_rel(1, self.p.r1.iter().map(Row::render).collect()), dump_rel(2, self.p.r2.iter().map(Row::render).collect()), dump_rel(3, self.p.r3.iter().map(Row::render).collect())].join(" | ") }
      fn iters(&self) -> String { format!("iters {}", self.p.scc_iters.iter().map(|x| x.to_string()).collect::<Vec<_>>().join(" ")) }
   }
}

#[allow(unused, non_snake_case, clippy::all)]
pub mod m2_ren0 {
   use ascent::*;
   use ascent::aggregators::*;
   use ascent::lattice::{Dual, set::Set};
   use crate::common::*;
   ascent! {
      pub struct Prog;
      relation rel0_(i64, i64);
      relation rel1_(i64);
      relation rel2_(i64);
      relation rel3_(i64, i64);
      relation rel4_(i64, i64);
      relation rel5_(i64, i64);
      rel2_(x2_) <-- rel0_(0, x0_) if ((*x0_) <= 6) let x1_ = ((*x0_) + 0), let x2_ = 1, if (x2_ <= 6);
      rel3_(0, x1_) <-- for x0_ in 2..1, rel2_(x0_) if (x0_ < 6), rel1_(x1_);
      rel2_(3) <-- rel3_(x0_, x1_);
      rel4_(x0_, x1_) <-- rel0_(x0_, x1_), rel3_(x0_, x0_), rel0_(x1_, x2_);
      rel2_(x0_) <-- rel5_(x0_, x1_), rel5_(x0_, x0_), rel5_(x1_, x2_);
      rel4_(x2_, x1_) <-- if let Some(x0_) = Some(0), rel2_(x1_) if ((*x1_) < 5), rel1_(x2_) if ((*x2_) != 3);
      rel3_(x0_, x2_) <-- rel3_(0, 0), rel4_(0, x0_) if ((*x0_) <= 3), rel3_(((*x0_) + 0), x1_), if let Some(x2_) = Some(((*x0_) + 0)), if (x2_ <= 6);
      rel5_(((*x0_) + 1), x0_) <-- rel5_(x0_, x1_), if ((*x0_) < 6);
   }
   pub struct Inst { p: Prog, pool: Option<ascent::rayon::ThreadPool> }
   pub fn make(pool: Option<usize>) -> Box<dyn Driver> {
      let pool = pool.map(|n| ascent::rayon::ThreadPoolBuilder::new().num_threads(n).build().unwrap());
      let p = match &pool { Some(pl) => pl.install(|| Default::default()), None => Default::default() };
      Box::new(Inst { p, pool })
   }
   impl Driver for Inst {
      fn load(&mut self, rel: usize, rows: &[Sexp], append: bool) -> Option<()> {
         match rel {
         0 => { let v: Vec<(i64,i64,)> = parse_rows(rows)?; if append { self.p.rel0_.extend(v) } else { self.p.rel0_ = v } },
         1 => { let v: Vec<(i64,)> = parse_rows(rows)?; if append { self.p.rel1_.extend(v) } else { self.p.rel1_ = v } },
         2 => { let v: Vec<(i64,)> = parse_rows(rows)?; if append { self.p.rel2_.extend(v) } else { self.p.rel2_ = v } },
         3 => { let v: Vec<(i64,i64,)> = parse_rows(rows)?; if append { self.p.rel3_.extend(v) } else { self.p.rel3_ = v } },
         4 => { let v: Vec<(i64,i64,)> = parse_rows(rows)?; if append { self.p.rel4_.extend(v) } else { self.p.rel4_ = v } },
         5 => { let v: Vec<(i64,i64,)> = parse_rows(rows)?; if append { self.p.rel5_.extend(v) } else { self.p.rel5_ = v } },
            _ => return None,
         }
         Some(())
      }
      fn run(&mut self) { match &self.pool { Some(pl) => { let p = &mut self.p; pl.install(|| p.run()) }, None => self.p.run() } }
      fn run_here(&mut self) { self.p.run() }
      fn run_timeout(&mut self, k: usize) -> Option<bool> { let _ = k; None }
      fn dump(&self) -> String { vec![dump_rel(0, self.p.rel0_.iter().map(Row::render).collect()), dump_rel(1, self.p.rel1_.iter().map(Row::render).collect()), dump_rel(2, self.p.rel2_.iter().map(Row::render).collect()), dump_rel(3, self.p.rel3_.iter().map(Row::render).collect()), dump_rel(4, self.p.rel4_.iter().map(Row::render).collect()), dump_rel(5, self.p.rel5_.iter().map(Row::render).collect())].join(" | ") }
      fn iters(&self) -> String { format!("iters {}", self.p.scc_iters.iter().map(|x| x.to_string()).collect::<Vec<_>>().join(" ")) }
   }
}

#[allow(unused, non_snake_case, clippy::all)]
pub mod m4_perm0 {
   use ascent::*;
   use ascent::aggregators::*;
   use ascent::lattice::{Dual, set::Set};
   use crate::common::*;
   ascent! {
      pub struct Prog;
      relation r3(i64, i64, i64);
      relation r0(i64, i64);
      relation r2(i64, i64, i64);
      relation r1(i64);
      r3(v0, v2, v2) <-- if let Some(v0) = Some(4), r3(v1, v0, v2), r1(((*v1) + 1)), if (v0 <= 6);
      r3(v0, 0, 0) <-- if let Some(v0) = Some(3), if (v0 <= 6), r1(v0) if (v0 <= 2);
      r2(v0, v1, v2) <-- r0(v0, v1) if ((*v0) < 5), r0(v1, v2) if ((*v2) != (*v1));
      r2(v0, v0, v0) <-- r1(3), let v0 = 3, if (v0 <= 6);
   }
   pub struct Inst { p: Prog, pool: Option<ascent::rayon::ThreadPool> }
   pub fn make(pool: Option<usize>) -> Box<dyn Driver> {
      let pool = pool.map(|n| ascent::rayon::ThreadPoolBuilder::new().num_threads(n).build().unwrap());
      let p = match &pool { Some(pl) => pl.install(|| Default::default()), None => Default::default() };
      Box::new(Inst { p, pool })
   }
   impl Driver for Inst {
      fn load(&mut self, rel: usize, rows: &[Sexp], append: bool) -> Option<()> {
         match rel {
         0 => { let v: Vec<(i64,i64,)> = parse_rows(rows)?; if append { self.p.r0.extend(v) } else { self.p.r0 = v } },
         1 => { let v: Vec<(i64,)> = parse_rows(rows)?; if append { self.p.r1.extend(v) } else { self.p.r1 = v } },
         2 => { let v: Vec<(i64,i64,i64,)> = parse_rows(rows)?; if append { self.p.r2.extend(v) } else { self.p.r2 = v } },
         3 => { let v: Vec<(i64,i64,i64,)> = parse_rows(rows)?; if append { self.p.r3.extend(v) } else { self.p.r3 = v } },
            _ => return None,
         }
         Some(())
      }
      fn run(&mut self) { match &self.pool { Some(pl) => { let p = &mut self.p; pl.install(|| p.run()) }, None => self.p.run() } }
      fn run_here(&mut self) { self.p.run() }
      fn run_timeout(&mut self, k: usize) -> Option<bool> { let _ = k; None }
      fn dump(&self) -> String { vec![dump_rel(0, self.p.r0.iter().map(Row::render).collect()), dump_rel(1, self.p.r1.iter().map(Row::render).collect()), dump_rel(2, self.p.r2.iter().map(Row::render).collect()), dump_rel(3, self.p.r3.iter().map(Row::render).collect())].join(" | ") }
      fn iters(&self) -> String { format!("iters {}", self.p.scc_iters.iter().map(|x| x.to_string()).collect::<Vec<_>>().join(" ")) }
   }
}

#[allow(unused, non_snake_case, clippy::all)]
pub mod m5_ren1 {
   use ascent::*;
   use ascent::aggregators::*;
   use ascent::lattice::{Dual, set::Set};
   use crate::common::*;
   ascent! {
      pub struct Prog;
      relation edge(i64, i64);
      relation path(i64, i64);
      relation node(i64, i64);
      node(a, b) <-- node(a, b), node(b, b), if ((*b) != 2);
      node(b, b) <-- edge(a, b), node(a, c);
   }
   pub struct Inst { p: Prog, pool: Option<ascent::rayon::ThreadPool> }
   pub fn make(pool: Option<usize>) -> Box<dyn Driver> {
      let pool = pool.map(|n| ascent::rayon::ThreadPoolBuilder::new().num_threads(n).build().unwrap());
      let p = match &pool { Some(pl) => pl.install(|| Default::default()), None => Default::default() };
      Box::new(Inst { p, pool })
   }
   impl Driver for Inst {
      fn load(&mut self, rel: usize, rows: &[Sexp], append: bool) -> Option<()> {
         match rel {
         0 => { let v: Vec<(i64,i64,)> = parse_rows(rows)?; if append { self.p.edge.extend(v) } else { self.p.edge = v } },
         1 => { let v: Vec<(i64,i64,)> = parse_rows(rows)?; if append { self.p.path.extend(v) } else { self.p.path = v } },
         2 => { let v: Vec<(i64,i64,)> = parse_rows(rows)?; if append { self.p.node.extend(v) } else { self.p.node = v } },
            _ => return None,
         }
         Some(())
      }
      fn run(&mut self) { match &self.pool { Some(pl) => { let p = &mut self.p; pl.install(|| p.run()) }, None => self.p.run() } }
      fn run_here(&mut self) { self.p.run() }
      fn run_timeout(&mut self, k: usize) -> Option<bool> { let _ = k; None }
      fn dump(&self) -> String { vec![dump_rel(0, self.p.edge.iter().map(Row::render).collect()), dump_rel(1, self.p.path.iter().map(Row::render).collect()), dump_rel(2, self.p.node.iter().map(Row::render).collect())].join(" | ") }
      fn iters(&self) -> String { format!("iters {}", self.p.scc_iters.iter().map(|x| x.to_string()).collect::<Vec<_>>().join(" ")) }
   }
}

#[allow(unused, non_snake_case, clippy::all)]
pub mod m6_i32 {
   use ascent::*;
   use ascent::aggregators::*;
   use ascent::lattice::{Dual, set::Set};
   use crate::common::*;
   ascent! {
      pub struct Prog;
      relation r0(i32, i32);
      relation r1(i32, i32);
      relation r2(i32, i32);
      r2(100007, v0) <-- r1(v0, v1);
      r2(v0, v0) <-- r2(100021, v0), r2(v0, v1);
      r2(v0, v1) <-- r2(v0, v1), r2(v1, v1);
      r2(v0, v2) <-- r1(v0, v1), r2(v1, v2), r1(v2, v3);
      r2(v0, v1) <-- r0(v0, v1), if ((*v0) == 100021);
      r1(100007, 100000);
   }
   pub struct Inst { p: Prog, pool: Option<ascent::rayon::ThreadPool> }
   pub fn make(pool: Option<usize>) -> Box<dyn Driver> {
      let pool = pool.map(|n| ascent::rayon::ThreadPoolBuilder::new().num_threads(n).build().unwrap());
      let p = match &pool { Some(pl) => pl.install(|| Default::default()), None => Default::default() };
      Box::new(Inst { p, pool })
   }
   impl Driver for Inst {
      fn load(&mut self, rel: usize, rows: &[Sexp], append: bool) -> Option<()> {
         match rel {
         0 => { let v: Vec<(i32,i32,)> = parse_rows(rows)?; if append { self.p.r0.extend(v) } else { self.p.r0 = v } },
         1 => { let v: Vec<(i32,i32,)> = parse_rows(rows)?; if append { self.p.r1.extend(v) } else { self.p.r1 = v } },
         2 => { let v: Vec<(i32,i32,)> = parse_rows(rows)?; if append { self.p.r2.extend(v) } else { self.p.r2 = v } },
            _ => return None,
         }
         Some(())
      }
      fn run(&mut self) { match &self.pool { Some(pl) => { let p = &mut self.p; pl.install(|| p.run()) }, None => self.p.run() } }
      fn run_here(&mut self) { self.p.run() }
      fn run_timeout(&mut self, k: usize) -> Option<bool> { let _ = k; None }
      fn dump(&self) -> String { vec![dump_rel(0, self.p.r0.iter().map(Row::render).collect()), dump_rel(1, self.p.r1.iter().map(Row::render).collect()), dump_rel(2, self.p.r2.iter().map(Row::render).collect())].join(" | ") }
      fn iters(&self) -> String { format!("iters {}", self.p.scc_iters.iter().map(|x| x.to_string()).collect::<Vec<_>>().join(" ")) }
   }
}

#[allow(unused, non_snake_case, clippy::all)]
pub mod m7_str {
   use ascent::*;
   use ascent::aggregators::*;
   use ascent::lattice::{Dual, set::Set};
   use crate::common::*;
   ascent! {
      pub struct Prog;
      relation r0(String, String);
      relation r1(String, String);
      relation r2(String, String);
      relation r3(String);
      r1(v0, v0) <-- r0(v0, v1), if (v0.clone() != "s3".to_string());
      r2(v1, v1) <-- r0(v0, v1);
      r3("s2".to_string()) <-- r1("s0".to_string(), v0), r2(v1, v2), if (v0.clone() != "s2".to_string());
      r1(v0, v1) <-- r0(v0, v1), r2(v0, v0), r0(v1, v2), if (v2.clone() == "s1".to_string());
      r1(v0, v2) <-- r0(v0, v1), r1(v1, v2), r0(v2, v3);
      r3(v1) <-- r0(v0, v1), if (v0.clone() == "s0".to_string());
      r1("s1".to_string(), "s2".to_string());
      r1("s1".to_string(), "s3".to_string());
   }
   pub struct Inst { p: Prog, pool: Option<ascent::rayon::ThreadPool> }
   pub fn make(pool: Option<usize>) -> Box<dyn Driver> {
      let pool = pool.map(|n| ascent::rayon::ThreadPoolBuilder::new().num_threads(n).build().unwrap());
      let p = match &pool { Some(pl) => pl.install(|| Default::default()), None => Default::default() };
      Box::new(Inst { p, pool })
   }
   impl Driver for Inst {
      fn load(&mut self, rel: usize, rows: &[Sexp], append: bool) -> Option<()> {
         match rel {
         0 => { let v: Vec<(String,String,)> = parse_rows(rows)?; if append { self.p.r0.extend(v) } else { self.p.r0 = v } },
         1 => { let v: Vec<(String,String,)> = parse_rows(rows)?; if append { self.p.r1.extend(v) } else { self.p.r1 = v } },
         2 => { let v: Vec<(String,String,)> = parse_rows(rows)?; if append { self.p.r2.extend(v) } else { self.p.r2 = v } },
         3 => { let v: Vec<(String,)> = parse_rows(rows)?; if append { self.p.r3.extend(v) } else { self.p.r3 = v } },
            _ => return None,
         }
         Some(())
      }
      fn run(&mut self) { match &self.pool { Some(pl) => { let p = &mut self.p; pl.install(|| p.run()) }, None => self.p.run() } }
      fn run_here(&mut self) { self.p.run() }
      fn run_timeout(&mut self, k: usize) -> Option<bool> { let _ = k; None }
      fn dump(&self) -> String { vec![dump_rel(0, self.p.r0.iter().map(Row::render).collect()), dump_rel(1, self.p.r1.iter().map(Row::render).collect()), dump_rel(2, self.p.r2.iter().map(Row::render).collect()), dump_rel(3, self.p.r3.iter().map(Row::render).collect())].join(" | ") }
      fn iters(&self) -> String { format!("iters {}", self.p.scc_iters.iter().map(|x| x.to_string()).collect::<Vec<_>>().join(" ")) }
   }
}

#[allow(unused, non_snake_case, clippy::all)]
pub mod m9 {
   use ascent::*;
   use ascent::aggregators::*;
   use ascent::lattice::{Dual, set::Set};
   use crate::common::*;
   ascent! {
      pub struct Prog;
      relation r0(i64, i64);
      relation r1(i64, i64);
      relation r2(i64, i64, i64);
      r2(v0, v0, v0) <-- r1(v0, 3), if ((*v0) == 1);
      r2(v0, v1, v0) <-- r1(v0, v1), r1(v1, v1);
      r1(v1, v2) <-- r2(v0, 3, v1), r1(1, v2), if ((*v0) != 3);
      r1(3, 2);
      r2(v2, v1, v5) <-- r1(v0, v1), r2(v2, v1, v3), r2(v4, v1, v5), if ((*v0) != 2);
   }
   pub struct Inst { p: Prog, pool: Option<ascent::rayon::ThreadPool> }
   pub fn make(pool: Option<usize>) -> Box<dyn Driver> {
      let pool = pool.map(|n| ascent::rayon::ThreadPoolBuilder::new().num_threads(n).build().unwrap());
      let p = match &pool { Some(pl) => pl.install(|| Default::default()), None => Default::default() };
      Box::new(Inst { p, pool })
   }
   impl Driver for Inst {
      fn load(&mut self, rel: usize, rows: &[Sexp], append: bool) -> Option<()> {
         match rel {
         0 => { let v: Vec<(i64,i64,)> = parse_rows(rows)?; if append { self.p.r0.extend(v) } else { self.p.r0 = v } },
         1 => { let v: Vec<(i64,i64,)> = parse_rows(rows)?; if append { self.p.r1.extend(v) } else { self.p.r1 = v } },
         2 => { let v: Vec<(i64,i64,i64,)> = parse_rows(rows)?; if append { self.p.r2.extend(v) } else { self.p.r2 = v } },
            _ => return None,
         }
         Some(())
      }
      fn run(&mut self) { match &self.pool { Some(pl) => { let p = &mut self.p; pl.install(|| p.run()) }, None => self.p.run() } }
      fn run_here(&mut self) { self.p.run() }
      fn run_timeout(&mut self, k: usize) -> Option<bool> { let _ = k; None }
      fn dump(&self) -> String { vec![dump_rel(0, self.p.r0.iter().map(Row::render).collect()), dump_rel(1, self.p.r1.iter().map(Row::render).collect()), dump_rel(2, self.p.r2.iter().map(Row::render).collect())].join(" | ") }
      fn iters(&self) -> String { format!("iters {}", self.p.scc_iters.iter().map(|x| x.to_string()).collect::<Vec<_>>().join(" ")) }
   }
}

#[allow(unused, non_snake_case, clippy::all)]
pub mod m10_perm0 {
   use ascent::*;
   use ascent::aggregators::*;
   use ascent::lattice::{Dual, set::Set};
   use crate::common::*;
   ascent! {
      pub struct Prog;
      relation r2(i64);
      relation r1(i64, i64);
      relation r3(i64, i64, i64);
      relation r0(i64, i64);
      r1(v0, v1) <-- r0(v0, v1), r0(v1, v2), r0(v0, v0);
      r1(v0, v0) <-- r0(v0, 3);
      r2(v0) <-- r0(v0, 3);
      r1(((*v1) + 1), v1) <-- for v0 in 2..3, r0(v1, v0) if ((*v1) != 3), if ((*v1) < 6);
      r3(v3, v3, v1) <-- r1(v1, v2), r2(v3), if let Some(v0) = Some(2);
      r2(v0) <-- r0(v0, v1), r0(v1, v1);
   }
   pub struct Inst { p: Prog, pool: Option<ascent::rayon::ThreadPool> }
   pub fn make(pool: Option<usize>) -> Box<dyn Driver> {
      let pool = pool.map(|n| ascent::rayon::ThreadPoolBuilder::new().num_threads(n).build().unwrap());
      let p = match &pool { Some(pl) => pl.install(|| Default::default()), None => Default::default() };
      Box::new(Inst { p, pool })
   }
   impl Driver for Inst {
      fn load(&mut self, rel: usize, rows: &[Sexp], append: bool) -> Option<()> {
         match rel {
         0 => { let v: Vec<(i64,i64,)> = parse_rows(rows)?; if append { self.p.r0.extend(v) } else { self.p.r0 = v } },
         1 => { let v: Vec<(i64,i64,)> = parse_rows(rows)?; if append { self.p.r1.extend(v) } else { self.p.r1 = v } },
         2 => { let v: Vec<(i64,)> = parse_rows(rows)?; if append { self.p.r2.extend(v) } else { self.p.r2 = v } },
         3 => { let v: Vec<(i64,i64,i64,)> = parse_rows(rows)?; if append { self.p.r3.extend(v) } else { self.p.r3 = v } },
            _ => return None,
         }
         Some(())
      }
      fn run(&mut self) { match &self.pool { Some(pl) => { let p = &mut self.p; pl.install(|| p.run()) }, None => self.p.run() } }
      fn run_here(&mut self) { self.p.run() }
      fn run_timeout(&mut self, k: usize) -> Option<bool> { let _ = k; None }
      fn dump(&self) -> String { vec![dump_rel(0, self.p.r0.iter().map(Row::render).collect()), dump_rel(1, self.p.r1.iter().map(Row::render).collect()), dump_rel(2, self.p.r2.iter().map(Row::render).collect()), dump_rel(3, self.p.r3.iter().map(Row::render).collect())].join(" | ") }
      fn iters(&self) -> String { format!("iters {}", self.p.scc_iters.iter().map(|x| x.to_string()).collect::<Vec<_>>().join(" ")) }
   }
}

#[allow(unused, non_snake_case, clippy::all)]
pub mod m11_ren1 {
   use ascent::*;
   use ascent::aggregators::*;
   use ascent::lattice::{Dual, set::Set};
   use crate::common::*;
   ascent! {
      pub struct Prog;
      relation edge(i64, i64);
      relation path(i64, i64);
      relation node(i64, i64);
      node(a, b) <-- node(a, b), edge(a, a), node(b, c);
      node(1, a) <-- if let Some(a) = Some(3), path(a, b), edge(a, a), for c in 0..4, if (a <= 6);
   }
   pub struct Inst { p: Prog, pool: Option<ascent::rayon::ThreadPool> }
   pub fn make(pool: Option<usize>) -> Box<dyn Driver> {
      let pool = pool.map(|n| ascent::rayon::ThreadPoolBuilder::new().num_threads(n).build().unwrap());
      let p = match &pool { Some(pl) => pl.install(|| Default::default()), None => Default::default() };
      Box::new(Inst { p, pool })
   }
   impl Driver for Inst {
      fn load(&mut self, rel: usize, rows: &[Sexp], append: bool) -> Option<()> {
         match rel {
         0 => { let v: Vec<(i64,i64,)> = parse_rows(rows)?; if append { self.p.edge.extend(v) } else { self.p.edge = v } },
         1 => { let v: Vec<(i64,i64,)> = parse_rows(rows)?; if append { self.p.path.extend(v) } else { self.p.path = v } },
         2 => { let v: Vec<(i64,i64,)> = parse_rows(rows)?; if append { self.p.node.extend(v) } else { self.p.node = v } },
            _ => return None,
         }
         Some(())
      }
      fn run(&mut self) { match &self.pool { Some(pl) => { let p = &mut self.p; pl.install(|| p.run()) }, None => self.p.run() } }
      fn run_here(&mut self) { self.p.run() }
      fn run_timeout(&mut self, k: usize) -> Option<bool> { let _ = k; None }
      fn dump(&self) -> String { vec![dump_rel(0, self.p.edge.iter().map(Row::render).collect()), dump_rel(1, self.p.path.iter().map(Row::render).collect()), dump_rel(2, self.p.node.iter().map(Row::render).collect())].join(" | ") }
      fn iters(&self) -> String { format!("iters {}", self.p.scc_iters.iter().map(|x| x.to_string()).collect::<Vec<_>>().join(" ")) }
   }
}

fn main() {
   common::main_loop(&[("m1", m1::make as common::Factory), ("m2_ren0", m2_ren0::make as common::Factory), ("m4_perm0", m4_perm0::make as common::Factory), ("m5_ren1", m5_ren1::make as common::Factory), ("m6_i32", m6_i32::make as common::Factory), ("m7_str", m7_str::make as common::Factory), ("m9", m9::make as common::Factory), ("m10_perm0", m10_perm0::make as common::Factory), ("m11_ren1", m11_ren1::make as common::Factory)]);
}
