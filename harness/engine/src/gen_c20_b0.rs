#[path = "common.rs"]
mod common;
#[allow(unused, non_snake_case, clippy::all)]
pub mod x0 {
   use ascent::*;
   use ascent::aggregators::*;
   use ascent::lattice::{Dual, set::Set};
   use crate::common::*;
   ascent! {
      pub struct Prog;
      relation r0(i64, i64);
      relation r1(i64, i64, i64);
      relation r2(i64, i64, i64);
      relation r3(i64, i64);
      relation r4(i64, i64, i64);
      r1(((*v1) + 1), v1, v2) <-- if let Some(v0) = Some(2), r0(v1, v2), for v3 in 1..4, if ((*v1) < 6);
      r2(((*v3) + 1), v0, v0) <-- if let Some(v0) = Some(1), r1(v1, v0, v0), r1(v2, 3, v3) if (v0 != 5), if ((*v3) < 6), if (v0 <= 6);
      r3(((*v1) + 1), v0) <-- r2(v0, v1, v2), if ((*v1) != 6), if ((*v1) < 6);
      r4(v2, v2, ((*v2) + 1)) <-- for v0 in 2..3, r3(v1, v2), if (v0 != 2), if ((*v2) < 6);
      r4(v0, v8, v9) <-- if let Some(v9) = Some(0), r0(v0, v1), r0(v1, v9) let v8 = ((*v0) + 1);
      r2(v1, v0, ((*v0) + 1)) <-- r1(0, 2, v0), r3(v0, v1), if ((*v0) < 6);
      r1(v0, v0, v1) <-- r1(v0, v1, v2) if ((*v0) != 6);
   }
   pub struct Inst { p: Prog, pool: Option<ascent::rayon::ThreadPool> }
   pub fn make(pool: Option<usize>) -> Box<dyn Driver> {
      let pool = pool.map(|n| ascent::rayon::ThreadPoolBuilder::new().num_threads(n).build().unwrap());
      let p = match &pool { Some(pl) => pl.install(|| Default::default()), None => Default::default() };
      Box::new(Inst { p, pool })
   }
   impl Driver for Inst {
      fn load(&mut self, rel: usize, rows: &[Sexp], append: bool) -> Option<()> {
         match rel {
         0 => { let v: Vec<(i64,i64,)> = parse_rows(rows)?; if append { self.p.r0.extend(v) } else { self.p.r0 = v } },
         1 => { let v: Vec<(i64,i64,i64,)> = parse_rows(rows)?; if append { self.p.r1.extend(v) } else { self.p.r1 = v } },
         2 => { let v: Vec<(i64,i64,i64,)> = parse_rows(rows)?; if append { self.p.r2.extend(v) } else { self.p.r2 = v } },
         3 => { let v: Vec<(i64,i64,)> = parse_rows(rows)?; if append { self.p.r3.extend(v) } else { self.p.r3 = v } },
         4 => { let v: Vec<(i64,i64,i64,)> = parse_rows(rows)?; if append { self.p.r4.extend(v) } else { self.p.r4 = v } },
            _ => return None,
         }
         Some(())
      }
      fn run(&mut self) { match &self.pool { Some(pl) => { let p = &mut self.p; pl.install(|| p.run()) }, None => self.p.run() } }
      fn run_here(&mut self) { self.p.run() }
      fn run_timeout(&mut self, k: usize) -> Option<bool> { let _ = k; None }
      fn dump(&self) -> String { vec![dump_rel(0, self.p.r0.iter().map(Row::render).collect()), dump_rel(1, self.p.r1.iter().map(Row::render).collect()), dump_rel(2, self.p.r2.iter().map(Row::render).collect()), dump_rel(3, self.p.r3.iter().map(Row::render).collect()), dump_rel(4, self.p.r4.iter().map(Row::render).collect())].join(" | ") }
      fn iters(&self) -> String { format!("iters {}", self.p.scc_iters.iter().map(|x| x.to_string()).collect::<Vec<_>>().join(" ")) }
   }
}

#[allow(unused, non_snake_case, clippy::all)]
pub mod y0 {
   use ascent::*;
   use ascent::aggregators::*;
   use ascent::lattice::{Dual, set::Set};
   use crate::common::*;
   ascent_par! {
      pub struct Prog;
      relation r0(i64, i64);
      relation r1(i64, i64, i64);
      relation r2(i64, i64, i64);
      relation r3(i64, i64);
      relation r4(i64, i64, i64);
      r1(((*v1) + 1), v1, v2) <-- if let Some(v0) = Some(2), r0(v1, v2), for v3 in 1..4, if ((*v1) < 6);
      r2(((*v3) + 1), v0, v0) <-- if let Some(v0) = Some(1), r1(v1, v0, v0), r1(v2, 3, v3) if (v0 != 5), if ((*v3) < 6), if (v0 <= 6);
      r3(((*v1) + 1), v0) <-- r2(v0, v1, v2), if ((*v1) != 6), if ((*v1) < 6);
      r4(v2, v2, ((*v2) + 1)) <-- for v0 in 2..3, r3(v1, v2), if (v0 != 2), if ((*v2) < 6);
      r4(v0, v8, v9) <-- if let Some(v9) = Some(0), r0(v0, v1), r0(v1, v9) let v8 = ((*v0) + 1);
      r2(v1, v0, ((*v0) + 1)) <-- r1(0, 2, v0), r3(v0, v1), if ((*v0) < 6);
      r1(v0, v0, v1) <-- r1(v0, v1, v2) if ((*v0) != 6);
   }
   pub struct Inst { p: Prog, pool: Option<ascent::rayon::ThreadPool> }
   pub fn make(pool: Option<usize>) -> Box<dyn Driver> {
      let pool = pool.map(|n| ascent::rayon::ThreadPoolBuilder::new().num_threads(n).build().unwrap());
      let p = match &pool { Some(pl) => pl.install(|| Default::default()), None => Default::default() };
      Box::new(Inst { p, pool })
   }
   impl Driver for Inst {
      fn load(&mut self, rel: usize, rows: &[Sexp], append: bool) -> Option<()> {
         match rel {
         0 => { let v: Vec<(i64,i64,)> = parse_rows(rows)?; if !append { self.p.r0 = Default::default(); } for x in v { self.p.r0.push(x); } },
         1 => { let v: Vec<(i64,i64,i64,)> = parse_rows(rows)?; if !append { self.p.r1 = Default::default(); } for x in v { self.p.r1.push(x); } },
         2 => { let v: Vec<(i64,i64,i64,)> = parse_rows(rows)?; if !append { self.p.r2 = Default::default(); } for x in v { self.p.r2.push(x); } },
         3 => { let v: Vec<(i64,i64,)> = parse_rows(rows)?; if !append { self.p.r3 = Default::default(); } for x in v { self.p.r3.push(x); } },
         4 => { let v: Vec<(i64,i64,i64,)> = parse_rows(rows)?; if !append { self.p.r4 = Default::default(); } for x in v { self.p.r4.push(x); } },
            _ => return None,
         }
         Some(())
      }
      fn run(&mut self) { match &self.pool { Some(pl) => { let p = &mut self.p; pl.install(|| p.run()) }, None => self.p.run() } }
      fn run_here(&mut self) { self.p.run() }
      fn run_timeout(&mut self, k: usize) -> Option<bool> { let _ = k; None }
      fn dump(&self) -> String { vec![dump_rel(0, self.p.r0.iter().map(|x| x.render()).collect()), dump_rel(1, self.p.r1.iter().map(|x| x.render()).collect()), dump_rel(2, self.p.r2.iter().map(|x| x.render()).collect()), dump_rel(3, self.p.r3.iter().map(|x| x.render()).collect()), dump_rel(4, self.p.r4.iter().map(|x| x.render()).collect())].join(" | ") }
      fn iters(&self) -> String { format!("iters {}", self.p.scc_iters.iter().map(|x| x.to_string()).collect::<Vec<_>>().join(" ")) }
   }
}

#[allow(unused, non_snake_case, clippy::all)]
pub mod x1 {
   use ascent::*;
   use ascent::aggregators::*;
   use ascent::lattice::{Dual, set::Set};
   use crate::common::*;
   ascent! {
      pub struct Prog;
      relation r0(i64, i64);
      relation r1(i64);
      relation r2(i64);
      r2(v0) <-- let v9 = 2, r0(v0, v1), r0(v1, v9);
      r2(1);
   }
   pub struct Inst { p: Prog, pool: Option<ascent::rayon::ThreadPool> }
   pub fn make(pool: Option<usize>) -> Box<dyn Driver> {
      let pool = pool.map(|n| ascent::rayon::ThreadPoolBuilder::new().num_threads(n).build().unwrap());
      let p = match &pool { Some(pl) => pl.install(|| Default::default()), None => Default::default() };
      Box::new(Inst { p, pool })
   }
   impl Driver for Inst {
      fn load(&mut self, rel: usize, rows: &[Sexp], append: bool) -> Option<()> {
         match rel {
         0 => { let v: Vec<(i64,i64,)> = parse_rows(rows)?; if append { self.p.r0.extend(v) } else { self.p.r0 = v } },
         1 => { let v: Vec<(i64,)> = parse_rows(rows)?; if append { self.p.r1.extend(v) } else { self.p.r1 = v } },
         2 => { let v: Vec<(i64,)> = parse_rows(rows)?; if append { self.p.r2.extend(v) } else { self.p.r2 = v } },
            _ => return None,
         }
         Some(())
      }
      fn run(&mut self) { match &self.pool { Some(pl) => { let p = &mut self.p; pl.install(|| p.run()) }, None => self.p.run() } }
      fn run_here(&mut self) { self.p.run() }
      fn run_timeout(&mut self, k: usize) -> Option<bool> { let _ = k; None }
      fn dump(&self) -> String { vec![dump_rel(0, self.p.r0.iter().map(Row::render).collect()), dump_rel(1, self.p.r1.iter().map(Row::render).collect()), dump_rel(2, self.p.r2.iter().map(Row::render).collect())].join(" | ") }
      fn iters(&self) -> String { format!("iters {}", self.p.scc_iters.iter().map(|x| x.to_string()).collect::<Vec<_>>().join(" ")) }
   }
}

#[allow(unused, non_snake_case, clippy::all)]
pub mod y1 {
   use ascent::*;
   use ascent::aggregators::*;
   use ascent::lattice::{Dual, set::Set};
   use crate::common::*;
   ascent_par! {
      pub struct Prog;
      relation r0(i64, i64);
      relation r1(i64);
      relation r2(i64);
      r2(v0) <-- let v9 = 2, r0(v0, v1), r0(v1, v9);
      r2(1);
   }
   pub struct Inst { p: Prog, pool: Option<ascent::rayon::ThreadPool> }
   pub fn make(pool: Option<usize>) -> Box<dyn Driver> {
      let pool = pool.map(|n| ascent::rayon::ThreadPoolBuilder::new().num_threads(n).build().unwrap());
      let p = match &pool { Some(pl) => pl.install(|| Default::default()), None => Default::default() };
      Box::new(Inst { p, pool })
   }
   impl Driver for Inst {
      fn load(&mut self, rel: usize, rows: &[Sexp], append: bool) -> Option<()> {
         match rel {
         0 => { let v: Vec<(i64,i64,)> = parse_rows(rows)?; if !append { self.p.r0 = Default::default(); } for x in v { self.p.r0.push(x); } },
         1 => { let v: Vec<(i64,)> = parse_rows(rows)?; if !append { self.p.r1 = Default::default(); } for x in v { self.p.r1.push(x); } },
         2 => { let v: Vec<(i64,)> = parse_rows(rows)?; if !append { self.p.r2 = Default::default(); } for x in v { self.p.r2.push(x); } },
            _ => return None,
         }
         Some(())
      }
      fn run(&mut self) { match &self.pool { Some(pl) => { let p = &mut self.p; pl.install(|| p.run()) }, None => self.p.run() } }
      fn run_here(&mut self) { self.p.run() }
      fn run_timeout(&mut self, k: usize) -> Option<bool> { let _ = k; None }
      fn dump(&self) -> String { vec![dump_rel(0, self.p.r0.iter().map(|x| x.render()).collect()), dump_rel(1, self.p.r1.iter().map(|x| x.render()).collect()), dump_rel(2, self.p.r2.iter().map(|x| x.render()).collect())].join(" | ") }
      fn iters(&self) -> String { format!("iters {}", self.p.scc_iters.iter().map(|x| x.to_string()).collect::<Vec<_>>().join(" ")) }
   }
}

#[allow(unused, non_snake_case, clippy::all)]
pub mod x2 {
   use ascent::*;
   use ascent::aggregators::*;
   use ascent::lattice::{Dual, set::Set};
   use crate::common::*;
   ascent! {
      pub struct Prog;
      relation r0(i64, i64);
      relation r1(i64, i64);
      relation r2(i64);
      relation r3(i64, i64);
      relation r4(i64, i64);
      relation r5(i64, i64);
      r3(v1, v1) <-- r0(v0, v1) if ((*v0) != 6) let v2 = ((*v1) + 1), if let Some(v3) = Some((*v1));
      r3(v3, ((*v3) + 1)) <-- r3(v0, v1), r0(v2, v3), if ((*v3) < 6);
      r1(v0, v1) <-- let v9 = 1, r1(v0, v1), r4(v1, v9);
      r2(v0) <-- for v9 in 0..2, r4(v0, v1), r1(v9, v1);
      r3(v0, v0) <-- r3(3, v0), if ((*v0) == 0), r1(v0, 0), r3(v0, v0), for v1 in 2..1;
      r2(v0) <-- r1(2, v0), r2(((*v0) + 1)) if ((*v0) < 6);
      r1(v1, 3) <-- r1(v0, v1);
   }
   pub struct Inst { p: Prog, pool: Option<ascent::rayon::ThreadPool> }
   pub fn make(pool: Option<usize>) -> Box<dyn Driver> {
      let pool = pool.map(|n| ascent::rayon::ThreadPoolBuilder::new().num_threads(n).build().unwrap());
      let p = match &pool { Some(pl) => pl.install(|| Default::default()), None => Default::default() };
      Box::new(Inst { p, pool })
   }
   impl Driver for Inst {
      fn load(&mut self, rel: usize, rows: &[Sexp], append: bool) -> Option<()> {
         match rel {
         0 => { let v: Vec<(i64,i64,)> = parse_rows(rows)?; if append { self.p.r0.extend(v) } else { self.p.r0 = v } },
         1 => { let v: Vec<(i64,i64,)> = parse_rows(rows)?; if append { self.p.r1.extend(v) } else { self.p.r1 = v } },
         2 => { let v: Vec<(i64,)> = parse_rows(rows)?; if append { self.p.r2.extend(v) } else { self.p.r2 = v } },
         3 => { let v: Vec<(i64,i64,)> = parse_rows(rows)?; if append { self.p.r3.extend(v) } else { self.p.r3 = v } },
         4 => { let v: Vec<(i64,i64,)> = parse_rows(rows)?; if append { self.p.r4.extend(v) } else { self.p.r4 = v } },
         5 => { let v: Vec<(i64,i64,)> = parse_rows(rows)?; if append { self.p.r5.extend(v) } else { self.p.r5 = v } },
            _ => return None,
         }
         Some(())
      }
      fn run(&mut self) { match &self.pool { Some(pl) => { let p = &mut self.p; pl.install(|| p.run()) }, None => self.p.run() } }
      fn run_here(&mut self) { self.p.run() }
      fn run_timeout(&mut self, k: usize) -> Option<bool> { let _ = k; None }
      fn dump(&self) -> String { vec![dump_rel(0, self.p.r0.iter().map(Row::render).collect()), dump_rel(1, self.p.r1.iter().map(Row::render).collect()), dump_rel(2, self.p.r2.iter().map(Row::render).collect()), dump_rel(3, self.p.r3.iter().map(Row::render).collect()), dump_rel(4, self.p.r4.iter().map(Row::render).collect()), dump_rel(5, self.p.r5.iter().map(Row::render).collect())].join(" | ") }
      fn iters(&self) -> String { format!("iters {}", self.p.scc_iters.iter().map(|x| x.to_string()).collect::<Vec<_>>().join(" ")) }
   }
}

#[allow(unused, non_snake_case, clippy::all)]
pub mod y2 {
   use ascent::*;
   use ascent::aggregators::*;
   use ascent::lattice::{Dual, set::Set};
   use crate::common::*;
   ascent_par! {
      pub struct Prog;
      relation r0(i64, i64);
      relation r1(i64, i64);
      relation r2(i64);
      relation r3(i64, i64);
      relation r4(i64, i64);
      relation r5(i64, i64);
      r3(v1, v1) <-- r0(v0, v1) if ((*v0) != 6) let v2 = ((*v1) + 1), if let Some(v3) = Some((*v1));
      r3(v3, ((*v3) + 1)) <-- r3(v0, v1), r0(v2, v3), if ((*v3) < 6);
      r1(v0, v1) <-- let v9 = 1, r1(v0, v1), r4(v1, v9);
      r2(v0) <-- for v9 in 0..2, r4(v0, v1), r1(v9, v1);
      r3(v0, v0) <-- r3(3, v0), if ((*v0) == 0), r1(v0, 0), r3(v0, v0), for v1 in 2..1;
      r2(v0) <-- r1(2, v0), r2(((*v0) + 1)) if ((*v0) < 6);
      r1(v1, 3) <-- r1(v0, v1);
   }
   pub struct Inst { p: Prog, pool: Option<ascent::rayon::ThreadPool> }
   pub fn make(pool: Option<usize>) -> Box<dyn Driver> {
      let pool = pool.map(|n| ascent::rayon::ThreadPoolBuilder::new().num_threads(n).build().unwrap());
      let p = match &pool { Some(pl) => pl.install(|| Default::default()), None => Default::default() };
      Box::new(Inst { p, pool })
   }
   impl Driver for Inst {
      fn load(&mut self, rel: usize, rows: &[Sexp], append: bool) -> Option<()> {
         match rel {
         0 => { let v: Vec<(i64,i64,)> = parse_rows(rows)?; if !append { self.p.r0 = Default::default(); } for x in v { self.p.r0.push(x); } },
         1 => { let v: Vec<(i64,i64,)> = parse_rows(rows)?; if !append { self.p.r1 = Default::default(); } for x in v { self.p.r1.push(x); } },
         2 => { let v: Vec<(i64,)> = parse_rows(rows)?; if !append { self.p.r2 = Default::default(); } for x in v { self.p.r2.push(x); } },
         3 => { let v: Vec<(i64,i64,)> = parse_rows(rows)?; if !append { self.p.r3 = Default::default(); } for x in v { self.p.r3.push(x); } },
         4 => { let v: Vec<(i64,i64,)> = parse_rows(rows)?; if !append { self.p.r4 = Default::default(); } for x in v { self.p.r4.push(x); } },
         5 => { let v: Vec<(i64,i64,)> = parse_rows(rows)?; if !append { self.p.r5 = Default::default(); } for x in v { self.p.r5.push(x); } },
            _ => return None,
         }
         Some(())
      }
      fn run(&mut self) { match &self.pool { Some(pl) => { let p = &mut self.p; pl.install(|| p.run()) }, None => self.p.run() } }
      fn run_here(&mut self) { self.p.run() }
      fn run_timeout(&mut self, k: usize) -> Option<bool> { let _ = k; None }
      fn dump(&self) -> String { vec![dump_rel(0, self.p.r0.iter().map(|x| x.render()).collect()), dump_rel(1, self.p.r1.iter().map(|x| x.render()).collect()), dump_rel(2, self.p.r2.iter().map(|x| x.render()).collect()), dump_rel(3, self.p.r3.iter().map(|x| x.render()).collect()), dump_rel(4, self.p.r4.iter().map(|x| x.render()).collect()), dump_rel(5, self.p.r5.iter().map(|x| x.render()).collect())].join(" | ") }
      fn iters(&self) -> String { format!("iters {}", self.p.scc_iters.iter().map(|x| x.to_string()).collect::<Vec<_>>().join(" ")) }
   }
}

#[allow(unused, non_snake_case, clippy::all)]
pub mod x3 {
   use ascent::*;
   use ascent::aggregators::*;
   use ascent::lattice::{Dual, set::Set};
   use crate::common::*;
   ascent! {
      pub struct Prog;
      relation r0(i64, i64);
      relation r1(i64, i64);
      relation r2(i64, i64);
      relation r3(i64);
      relation r4(i64, i64);
      relation r5(i64, i64);
      r4(v1, 0) <-- r1(v0, v1);
      r4((v0 + 1), v1) <-- if let Some(v0) = Some(3), r4(v1, v0) if (v0 <= 1) let v2 = ((*v1) + 0), if (v0 <= 6), r4(((*v1) + 0), v2), if (v0 < 6);
      r3(v0) <-- if let Some(v9) = Some(0), r1(v0, v1), r4(v1, v9) let v8 = ((*v0) + 1);
      r5(((*v0) + 1), ((*v0) + 1)) <-- r2(v0, v1) if ((*v1) < 4), if ((*v0) < 6), if ((*v0) < 6);
      r0(v1, 2) <-- let v0 = 2, r3(v1), for v2 in 0..1, r3(3) if ((*v1) <= 3), r0(v3, v2) if (v2 <= 5);
      r2(v2, ((*v0) + 1)) <-- r2(2, v0) if ((*v0) <= 3), r0(v1, v0), r1(v0, v2), if ((*v0) < 6);
   }
   pub struct Inst { p: Prog, pool: Option<ascent::rayon::ThreadPool> }
   pub fn make(pool: Option<usize>) -> Box<dyn Driver> {
      let pool = pool.map(|n| ascent::rayon::ThreadPoolBuilder::new().num_threads(n).build().unwrap());
      let p = match &pool { Some(pl) => pl.install(|| Default::default()), None => Default::default() };
      Box::new(Inst { p, pool })
   }
   impl Driver for Inst {
      fn load(&mut self, rel: usize, rows: &[Sexp], append: bool) -> Option<()> {
         match rel {
         0 => { let v: Vec<(i64,i64,)> = parse_rows(rows)?; if append { self.p.r0.extend(v) } else { self.p.r0 = v } },
         1 => { let v: Vec<(i64,i64,)> = parse_rows(rows)?; if append { self.p.r1.extend(v) } else { self.p.r1 = v } },
         2 => { let v: Vec<(i64,i64,)> = parse_rows(rows)?; if append { self.p.r2.extend(v) } else { self.p.r2 = v } },
         3 => { let v: Vec<(i64,)> = parse_rows(rows)?; if append { self.p.r3.extend(v) } else { self.p.r3 = v } },
         4 => { let v: Vec<(i64,i64,)> = parse_rows(rows)?; if append { self.p.r4.extend(v) } else { self.p.r4 = v } },
         5 => { let v: Vec<(i64,i64,)> = parse_rows(rows)?; if append { self.p.r5.extend(v) } else { self.p.r5 = v } },
            _ => return None,
         }
         Some(())
      }
      fn run(&mut self) { match &self.pool { Some(pl) => { let p = &mut self.p; pl.install(|| p.run()) }, None => self.p.run() } }
      fn run_here(&mut self) { self.p.run() }
      fn run_timeout(&mut self, k: usize) -> Option<bool> { let _ = k; None }
      fn dump(&self) -> String { vec![dump_rel(0, self.p.r0.iter().map(Row::render).collect()), dump_rel(1, self.p.r1.iter().map(Row::render).collect()), dump_rel(2, self.p.r2.iter().map(Row::render).collect()), dump_rel(3, self.p.r3.iter().map(Row::render).collect()), dump_rel(4, self.p.r4.iter().map(Row::render).collect()), dump_rel(5, self.p.r5.iter().map(Row::render).collect())].join(" | ") }
      fn iters(&self) -> String { format!("iters {}", self.p.scc_iters.iter().map(|x| x.to_string()).collect::<Vec<_>>().join(" ")) }
   }
}

#[allow(unused, non_snake_case, clippy::all)]
pub mod y3 {
   use ascent::*;
   use ascent::aggregators::*;
   use ascent::lattice::{Dual, set::Set};
   use crate::common::*;
   ascent_par! {
      pub struct Prog;
      relation r0(i64, i64);
      relation r1(i64, i64);
      relation r2(i64, i64);
      relation r3(i64);
      relation r4(i64, i64);
      relation r5(i64, i64);
      r4(v1, 0) <-- r1(v0, v1);
      r4((v0 + 1), v1) <-- if let Some(v0) = Some(3), r4(v1, v0) if (v0 <= 1) let v2 = ((*v1) + 0), if (v0 <= 6), r4(((*v1) + 0), v2), if (v0 < 6);
      r3(v0) <-- if let Some(v9) = Some(0), r1(v0, v1), r4(v1, v9) let v8 = ((*v0) + 1);
      r5(((*v0) + 1), ((*v0) + 1)) <-- r2(v0, v1) if ((*v1) < 4), if ((*v0) < 6), if ((*v0) < 6);
      r0(v1, 2) <-- let v0 = 2, r3(v1), for v2 in 0..1, r3(3) if ((*v1) <= 3), r0(v3, v2) if (v2 <= 5);
      r2(v2, ((*v0) + 1)) <-- r2(2, v0) if ((*v0) <= 3), r0(v1, v0), r1(v0, v2), if ((*v0) < 6);
   }
   pub struct Inst { p: Prog, pool: Option<ascent::rayon::ThreadPool> }
   pub fn make(pool: Option<usize>) -> Box<dyn Driver> {
      let pool = pool.map(|n| ascent::rayon::ThreadPoolBuilder::new().num_threads(n).build().unwrap());
      let p = match &pool { Some(pl) => pl.install(|| Default::default()), None => Default::default() };
      Box::new(Inst { p, pool })
   }
   impl Driver for Inst {
      fn load(&mut self, rel: usize, rows: &[Sexp], append: bool) -> Option<()> {
         match rel {
         0 => { let v: Vec<(i64,i64,)> = parse_rows(rows)?; if !append { self.p.r0 = Default::default(); } for x in v { self.p.r0.push(x); } },
         1 => { let v: Vec<(i64,i64,)> = parse_rows(rows)?; if !append { self.p.r1 = Default::default(); } for x in v { self.p.r1.push(x); } },
         2 => { let v: Vec<(i64,i64,)> = parse_rows(rows)?; if !append { self.p.r2 = Default::default(); } for x in v { self.p.r2.push(x); } },
         3 => { let v: Vec<(i64,)> = parse_rows(rows)?; if !append { self.p.r3 = Default::default(); } for x in v { self.p.r3.push(x); } },
         4 => { let v: Vec<(i64,i64,)> = parse_rows(rows)?; if !append { self.p.r4 = Default::default(); } for x in v { self.p.r4.push(x); } },
         5 => { let v: Vec<(i64,i64,)> = parse_rows(rows)?; if !append { self.p.r5 = Default::default(); } for x in v { self.p.r5.push(x); } },
            _ => return None,
         }
         Some(())
      }
      fn run(&mut self) { match &self.pool { Some(pl) => { let p = &mut self.p; pl.install(|| p.run()) }, None => self.p.run() } }
      fn run_here(&mut self) { self.p.run() }
      fn run_timeout(&mut self, k: usize) -> Option<bool> { let _ = k; None }
      fn dump(&self) -> String { vec![dump_rel(0, self.p.r0.iter().map(|x| x.render()).collect()), dump_rel(1, self.p.r1.iter().map(|x| x.render()).collect()), dump_rel(2, self.p.r2.iter().map(|x| x.render()).collect()), dump_rel(3, self.p.r3.iter().map(|x| x.render()).collect()), dump_rel(4, self.p.r4.iter().map(|x| x.render()).collect()), dump_rel(5, self.p.r5.iter().map(|x| x.render()).collect())].join(" | ") }
      fn iters(&self) -> String { format!("iters {}", self.p.scc_iters.iter().map(|x| x.to_string()).collect::<Vec<_>>().join(" ")) }
   }
}

#[allow(unused, non_snake_case, clippy::all)]
pub mod x4 {
   use ascent::*;
   use ascent::aggregators::*;
   use ascent::lattice::{Dual, set::Set};
   use crate::common::*;
   ascent! {
      pub struct Prog;
      relation r0(i64, i64);
      relation r1(i64, i64);
      relation r2(i64, i64);
      r1(v0, v1) <-- r1(v0, v1) if ((*v0) < 2), r0(v1, v2) if ((*v2) != (*v1));
      r1(v0, v1) <-- r0(v0, v1), r2(((*v0) + 1), v2);
      r1(0, v0) <-- r0(v0, v1) if ((*v0) <= 4), r0(v2, v0), if ((*v1) == 1);
      r2(v1, ((*v1) + 1)) <-- r0(v0, 3), r2(v1, v2), if ((*v1) < 6);
      r1(v1, v1) <-- if let Some(v0) = Some(3), r1((v0 + 0), v1) if ((*v1) < 5) let v2 = ((*v1) + 1);
   }
   pub struct Inst { p: Prog, pool: Option<ascent::rayon::ThreadPool> }
   pub fn make(pool: Option<usize>) -> Box<dyn Driver> {
      let pool = pool.map(|n| ascent::rayon::ThreadPoolBuilder::new().num_threads(n).build().unwrap());
      let p = match &pool { Some(pl) => pl.install(|| Default::default()), None => Default::default() };
      Box::new(Inst { p, pool })
   }
   impl Driver for Inst {
      fn load(&mut self, rel: usize, rows: &[Sexp], append: bool) -> Option<()> {
         match rel {
         0 => { let v: Vec<(i64,i64,)> = parse_rows(rows)?; if append { self.p.r0.extend(v) } else { self.p.r0 = v } },
         1 => { let v: Vec<(i64,i64,)> = parse_rows(rows)?; if append { self.p.r1.extend(v) } else { self.p.r1 = v } },
         2 => { let v: Vec<(i64,i64,)> = parse_rows(rows)?; if append { self.p.r2.extend(v) } else { self.p.r2 = v } },
            _ => return None,
         }
         Some(())
      }
      fn run(&mut self) { match &self.pool { Some(pl) => { let p = &mut self.p; pl.install(|| p.run()) }, None => self.p.run() } }
      fn run_here(&mut self) { self.p.run() }
      fn run_timeout(&mut self, k: usize) -> Option<bool> { let _ = k; None }
      fn dump(&self) -> String { vec![dump_rel(0, self.p.r0.iter().map(Row::render).collect()), dump_rel(1, self.p.r1.iter().map(Row::render).collect()), dump_rel(2, self.p.r2.iter().map(Row::render).collect())].join(" | ") }
      fn iters(&self) -> String { format!("iters {}", self.p.scc_iters.iter().map(|x| x.to_string()).collect::<Vec<_>>().join(" ")) }
   }
}

#[allow(unused, non_snake_case, clippy::all)]
pub mod y4 {
   use ascent::*;
   use ascent::aggregators::*;
   use ascent::lattice::{Dual, set::Set};
   use crate::common::*;
   ascent_par! {
      pub struct Prog;
      relation r0(i64, i64);
      relation r1(i64, i64);
      relation r2(i64, i64);
      r1(v0, v1) <-- r1(v0, v1) if ((*v0) < 2), r0(v1, v2) if ((*v2) != (*v1));
      r1(v0, v1) <-- r0(v0, v1), r2(((*v0) + 1), v2);
      r1(0, v0) <-- r0(v0, v1) if ((*v0) <= 4), r0(v2, v0), if ((*v1) == 1);
      r2(v1, ((*v1) + 1)) <-- r0(v0, 3), r2(v1, v2), if ((*v1) < 6);
      r1(v1, v1) <-- if let Some(v0) = Some(3), r1((v0 + 0), v1) if ((*v1) < 5) let v2 = ((*v1) + 1);
   }
   pub struct Inst { p: Prog, pool: Option<ascent::rayon::ThreadPool> }
   pub fn make(pool: Option<usize>) -> Box<dyn Driver> {
      let pool = pool.map(|n| ascent::rayon::ThreadPoolBuilder::new().num_threads(n).build().unwrap());
      let p = match &pool { Some(pl) => pl.install(|| Default::default()), None => Default::default() };
      Box::new(Inst { p, pool })
   }
   impl Driver for Inst {
      fn load(&mut self, rel: usize, rows: &[Sexp], append: bool) -> Option<()> {
         match rel {
         0 => { let v: Vec<(i64,i64,)> = parse_rows(rows)?; if !append { self.p.r0 = Default::default(); } for x in v { self.p.r0.push(x); } },
         1 => { let v: Vec<(i64,i64,)> = parse_rows(rows)?; if !append { self.p.r1 = Default::default(); } for x in v { self.p.r1.push(x); } },
         2 => { let v: Vec<(i64,i64,)> = parse_rows(rows)?; if !append { self.p.r2 = Default::default(); } for x in v { self.p.r2.push(x); } },
            _ => return None,
         }
         Some(())
      }
      fn run(&mut self) { match &self.pool { Some(pl) => { let p = &mut self.p; pl.install(|| p.run()) }, None => self.p.run() } }
      fn run_here(&mut self) { self.p.run() }
      fn run_timeout(&mut self, k: usize) -> Option<bool> { let _ = k; None }
      fn dump(&self) -> String { vec![dump_rel(0, self.p.r0.iter().map(|x| x.render()).collect()), dump_rel(1, self.p.r1.iter().map(|x| x.render()).collect()), dump_rel(2, self.p.r2.iter().map(|x| x.render()).collect())].join(" | ") }
      fn iters(&self) -> String { format!("iters {}", self.p.scc_iters.iter().map(|x| x.to_string()).collect::<Vec<_>>().join(" ")) }
   }
}

#[allow(unused, non_snake_case, clippy::all)]
pub mod x5 {
   use ascent::*;
   use ascent::aggregators::*;
   use ascent::lattice::{Dual, set::Set};
   use crate::common::*;
   ascent! {
      pub struct Prog;
      relation r0(i64, i64, i64);
      relation r1(i64, i64);
      relation r2(i64);
      r2(v3) <-- if let Some(v0) = Some(0), r1(v1, v0), if ((*v1) <= 5), r0(v2, v3, v4);
      r2(v0) <-- if let Some(v9) = Some(0), r1(v0, v1), r1(v1, v9) let v8 = ((*v0) + 1);
      r2(v0) <-- r1(v0, v1), r1(v0, v0), r1(v1, v2);
      r2(v0) <-- if let Some(v0) = None::<i64>, if (v0 <= 6);
      r2(v0) <-- if let Some(v0) = Some(2), if (v0 <= 6);
      r2(3) <-- r2(3);
   }
   pub struct Inst { p: Prog, pool: Option<ascent::rayon::ThreadPool> }
   pub fn make(pool: Option<usize>) -> Box<dyn Driver> {
      let pool = pool.map(|n| ascent::rayon::ThreadPoolBuilder::new().num_threads(n).build().unwrap());
      let p = match &pool { Some(pl) => pl.install(|| Default::default()), None => Default::default() };
      Box::new(Inst { p, pool })
   }
   impl Driver for Inst {
      fn load(&mut self, rel: usize, rows: &[Sexp], append: bool) -> Option<()> {
         match rel {
         0 => { let v: Vec<(i64,i64,i64,)> = parse_rows(rows)?; if append { self.p.r0.extend(v) } else { self.p.r0 = v } },
         1 => { let v: Vec<(i64,i64,)> = parse_rows(rows)?; if append { self.p.r1.extend(v) } else { self.p.r1 = v } },
         2 => { let v: Vec<(i64,)> = parse_rows(rows)?; if append { self.p.r2.extend(v) } else { self.p.r2 = v } },
            _ => return None,
         }
         Some(())
      }
      fn run(&mut self) { match &self.pool { Some(pl) => { let p = &mut self.p; pl.install(|| p.run()) }, None => self.p.run() } }
      fn run_here(&mut self) { self.p.run() }
      fn run_timeout(&mut self, k: usize) -> Option<bool> { let _ = k; None }
      fn dump(&self) -> String { vec![dump_rel(0, self.p.r0.iter().map(Row::render).collect()), dump_rel(1, self.p.r1.iter().map(Row::render).collect()), dump_rel(2, self.p.r2.iter().map(Row::render).collect())].join(" | ") }
      fn iters(&self) -> String { format!("iters {}", self.p.scc_iters.iter().map(|x| x.to_string()).collect::<Vec<_>>().join(" ")) }
   }
}

#[allow(unused, non_snake_case, clippy::all)]
pub mod y5 {
   use ascent::*;
   use ascent::aggregators::*;
   use ascent::lattice::{Dual, set::Set};
   use crate::common::*;
   ascent_par! {
      pub struct Prog;
      relation r0(i64, i64, i64);
      relation r1(i64, i64);
      relation r2(i64);
      r2(v3) <-- if let Some(v0) = Some(0), r1(v1, v0), if ((*v1) <= 5), r0(v2, v3, v4);
      r2(v0) <-- if let Some(v9) = Some(0), r1(v0, v1), r1(v1, v9) let v8 = ((*v0) + 1);
      r2(v0) <-- r1(v0, v1), r1(v0, v0), r1(v1, v2);
      r2(v0) <-- if let Some(v0) = None::<i64>, if (v0 <= 6);
      r2(v0) <-- if let Some(v0) = Some(2), if (v0 <= 6);
      r2(3) <-- r2(3);
   }
   pub struct Inst { p: Prog, pool: Option<ascent::rayon::ThreadPool> }
   pub fn make(pool: Option<usize>) -> Box<dyn Driver> {
      let pool = pool.map(|n| ascent::rayon::ThreadPoolBuilder::new().num_threads(n).build().unwrap());
      let p = match &pool { Some(pl) => pl.install(|| Default::default()), None => Default::default() };
      Box::new(Inst { p, pool })
   }
   impl Driver for Inst {
      fn load(&mut self, rel: usize, rows: &[Sexp], append: bool) -> Option<()> {
         match rel {
         0 => { let v: Vec<(i64,i64,i64,)> = parse_rows(rows)?; if !append { self.p.r0 = Default::default(); } for x in v { self.p.r0.push(x); } },
         1 => { let v: Vec<(i64,i64,)> = parse_rows(rows)?; if !append { self.p.r1 = Default::default(); } for x in v { self.p.r1.push(x); } },
         2 => { let v: Vec<(i64,)> = parse_rows(rows)?; if !append { self.p.r2 = Default::default(); } for x in v { self.p.r2.push(x); } },
            _ => return None,
         }
         Some(())
      }
      fn run(&mut self) { match &self.pool { Some(pl) => { let p = &mut self.p; pl.install(|| p.run()) }, None => self.p.run() } }
      fn run_here(&mut self) { self.p.run() }
      fn run_timeout(&mut self, k: usize) -> Option<bool> { let _ = k; None }
      fn dump(&self) -> String { vec![dump_rel(0, self.p.r0.iter().map(|x| x.render()).collect()), dump_rel(1, self.p.r1.iter().map(|x| x.render()).collect()), dump_rel(2, self.p.r2.iter().map(|x| x.render()).collect())].join(" | ") }
      fn iters(&self) -> String { format!("iters {}", self.p.scc_iters.iter().map(|x| x.to_string()).collect::<Vec<_>>().join(" ")) }
   }
}

#[allow(unused, non_snake_case, clippy::all)]
pub mod ystress {
   use ascent::*;
   use ascent::aggregators::*;
   use ascent::lattice::{Dual, set::Set};
   use crate::common::*;
   ascent_par! {
      pub struct Prog;
      relation r0(i64, i64);
      relation r1(i64, i64);
      r0(v0, ((*v1) + 1)) <-- r0(v0, v1), if ((*v1) < 4);
      r1(v0, v1) <-- r0(v0, v1);
   }
   pub struct Inst { p: Prog, pool: Option<ascent::rayon::ThreadPool> }
   pub fn make(pool: Option<usize>) -> Box<dyn Driver> {
      let pool = pool.map(|n| ascent::rayon::ThreadPoolBuilder::new().num_threads(n).build().unwrap());
      let p = match &pool { Some(pl) => pl.install(|| Default::default()), None => Default::default() };
      Box::new(Inst { p, pool })
   }
   impl Driver for Inst {
      fn load(&mut self, rel: usize, rows: &[Sexp], append: bool) -> Option<()> {
         match rel {
         0 => { let v: Vec<(i64,i64,)> = parse_rows(rows)?; if !append { self.p.r0 = Default::default(); } for x in v { self.p.r0.push(x); } },
         1 => { let v: Vec<(i64,i64,)> = parse_rows(rows)?; if !append { self.p.r1 = Default::default(); } for x in v { self.p.r1.push(x); } },
            _ => return None,
         }
         Some(())
      }
      fn run(&mut self) { match &self.pool { Some(pl) => { let p = &mut self.p; pl.install(|| p.run()) }, None => self.p.run() } }
      fn run_here(&mut self) { self.p.run() }
      fn run_timeout(&mut self, k: usize) -> Option<bool> { let _ = k; None }
      fn dump(&self) -> String { vec![dump_rel(0, self.p.r0.iter().map(|x| x.render()).collect()), dump_rel(1, self.p.r1.iter().map(|x| x.render()).collect())].join(" | ") }
      fn iters(&self) -> String { format!("iters {}", self.p.scc_iters.iter().map(|x| x.to_string()).collect::<Vec<_>>().join(" ")) }
   }
}

fn main() {
   common::main_loop(&[("x0", x0::make as common::Factory), ("y0", y0::make as common::Factory), ("x1", x1::make as common::Factory), ("y1", y1::make as common::Factory), ("x2", x2::make as common::Factory), ("y2", y2::make as common::Factory), ("x3", x3::make as common::Factory), ("y3", y3::make as common::Factory), ("x4", x4::make as common::Factory), ("y4", y4::make as common::Factory), ("x5", x5::make as common::Factory), ("y5", y5::make as common::Factory), ("ystress", ystress::make as common::Factory)]);
}
