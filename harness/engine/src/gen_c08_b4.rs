#[path = "common.rs"]
mod common;
#[allow(unused, non_snake_case, clippy::all)]
pub mod h2s {
   use ascent::*;
   use ascent::aggregators::*;
   use ascent::lattice::{Dual, set::Set};
   use crate::common::*;
   ascent! {
      pub struct Prog;
      relation r0(i64, i64);
      relation r1(i64, Option<i64>);
      relation r2(i64);
      relation r3(i64, i64, i64);
      relation r4(i64);
      relation r5(i64);
      relation r6(i64, i64, Option<i64>);
      relation r7(i64, i64);
      macro m0($p0: ident, $p1: ident) { r0($p0, $p1) }
      macro m1($p0: ident, $p1: ident) { ((r3($p0, $p1, v0), r7(v0, v1), if (v1.clone() < 0)) | r6($p0, $p1, ?Some(v0)), r5(_)), !r0($p1.clone(), $p1.clone()) }
      macro m2($p0: ident) { r2($p0), if ($p0.clone() <= 3) }
      macro m3($p0: ident, $p1: ident) { r0($p0, $p1), if ($p1.clone() <= 5) }
      macro m4($p0: ident, $p1: expr) { r7($p0, $p1) }
      r7(v1, v1) <-- r2(v0), m3!(v0, v1);
      m4!(v0, std::cmp::min((v0.clone() + v0.clone()), 6)), r7(v1, v1) <-- m0!(v0, v1);
      m4!(v0, std::cmp::min(std::cmp::min(v0.clone(), 4), 6)) <-- r7(0, 3), (m1!(v0, v2) | r1(v0, ?Some(v3)));
      r6(v8, v3, v2) <-- r6(v0, v1, v2), (m1!(v3, v5) | r6(1, v3, ?Some(v6))), m1!(v7, v8);
      r4(v0) <-- r1(v0, ?Some(v1));
   }
   pub struct Inst { p: Prog, pool: Option<ascent::rayon::ThreadPool> }
   pub fn make(pool: Option<usize>) -> Box<dyn Driver> {
      let pool = pool.map(|n| ascent::rayon::ThreadPoolBuilder::new().num_threads(n).build().unwrap());
      let p = match &pool { Some(pl) => pl.install(|| Default::default()), None => Default::default() };
      Box::new(Inst { p, pool })
   }
   impl Driver for Inst {
      fn load(&mut self, rel: usize, rows: &[Sexp], append: bool) -> Option<()> {
         match rel {
         0 => { let v: Vec<(i64,i64,)> = parse_rows(rows)?; if append { self.p.r0.extend(v) } else { self.p.r0 = v } },
         1 => { let v: Vec<(i64,Option<i64>,)> = parse_rows(rows)?; if append { self.p.r1.extend(v) } else { self.p.r1 = v } },
         2 => { let v: Vec<(i64,)> = parse_rows(rows)?; if append { self.p.r2.extend(v) } else { self.p.r2 = v } },
         3 => { let v: Vec<(i64,i64,i64,)> = parse_rows(rows)?; if append { self.p.r3.extend(v) } else { self.p.r3 = v } },
         4 => { let v: Vec<(i64,)> = parse_rows(rows)?; if append { self.p.r4.extend(v) } else { self.p.r4 = v } },
         5 => { let v: Vec<(i64,)> = parse_rows(rows)?; if append { self.p.r5.extend(v) } else { self.p.r5 = v } },
         6 => { let v: Vec<(i64,i64,Option<i64>,)> = parse_rows(rows)?; if append { self.p.r6.extend(v) } else { self.p.r6 = v } },
         7 => { let v: Vec<(i64,i64,)> = parse_rows(rows)?; if append { self.p.r7.extend(v) } else { self.p.r7 = v } },
            _ => return None,
         }
         Some(())
      }
      fn run(&mut self) { match &self.pool { Some(pl) => { let p = &mut self.p; pl.install(|| p.run()) }, None => self.p.run() } }
      fn run_here(&mut self) { self.p.run() }
      fn run_timeout(&mut self, k: usize) -> Option<bool> { let _ = k; None }
      fn dump(&self) -> String { vec![dump_rel(0, self.p.r0.iter().map(Row::render).collect()), dump_rel(1, self.p.r1.iter().map(Row::render).collect()), dump_rel(2, self.p.r2.iter().map(Row::render).collect()), dump_rel(3, self.p.r3.iter().map(Row::render).collect()), dump_rel(4, self.p.r4.iter().map(Row::render).collect()), dump_rel(5, self.p.r5.iter().map(Row::render).collect()), dump_rel(6, self.p.r6.iter().map(Row::render).collect()), dump_rel(7, self.p.r7.iter().map(Row::render).collect())].join(" | ") }
      fn iters(&self) -> String { format!("iters {}", self.p.scc_iters.iter().map(|x| x.to_string()).collect::<Vec<_>>().join(" ")) }
   }
}

#[allow(unused, non_snake_case, clippy::all)]
pub mod h6s {
   use ascent::*;
   use ascent::aggregators::*;
   use ascent::lattice::{Dual, set::Set};
   use crate::common::*;
   ascent! {
      pub struct Prog;
      relation r0(i64, i64);
      relation r1(i64, Option<i64>);
      relation r2(i64);
      relation r3(i64, i64, i64);
      relation r4(i64);
      relation r5(i64, i64);
      relation r6(i64, i64);
      relation r7(i64, i64);
      macro m0($p0: ident) { r2($p0), r6($p0, ($p0.clone() + 2)) }
      macro m1($p0: ident) { r5($p0, _), r3(v0, _, std::cmp::max($p0.clone(), 2)), if ($p0.clone() <= v0.clone()) }
      macro m2($p0: ident, $p1: ident) { (r3(v0, $p1, $p0), r5(v1, v2) | r3(v0, $p0, $p1), r7(_, v3)), if ($p0.clone() == 4) }
      macro m3($p0: expr) { r6(1, $p0), r6($p0, 2) }
      macro m4($p0: expr, $p1: ident) { r5(2, $p1), r5(3, $p0), m3!(($p0 + 0)) }
      m3!(std::cmp::min(std::cmp::min(v4.clone(), 1), 6)) <-- r3(v0, v0, v1), (m1!(v2) | r5(v2, std::cmp::max(v0.clone(), 1))), m1!(v4);
      m4!(std::cmp::min(std::cmp::min(v3.clone(), 2), 6), v3), r6(1, v2) <-- r6(v0, v1), m1!(v2), m1!(v3);
      r7(v0, v1) <-- r6(v0, _), m0!(v1), m0!(v2);
      m4!(std::cmp::min(std::cmp::max(v2.clone(), 3), 6), v2) <-- r7(v0, 3), m2!(v1, v0), r2(v2);
      m4!(std::cmp::min((v1.clone() + v1.clone()), 6), v2), r6(v2, v0) <-- r3(v0, v0, v1) if (v1.clone() <= 1), m1!(v2);
      r4(v0) <-- r1(v0, None::<i64>);
      m3!(3);
   }
   pub struct Inst { p: Prog, pool: Option<ascent::rayon::ThreadPool> }
   pub fn make(pool: Option<usize>) -> Box<dyn Driver> {
      let pool = pool.map(|n| ascent::rayon::ThreadPoolBuilder::new().num_threads(n).build().unwrap());
      let p = match &pool { Some(pl) => pl.install(|| Default::default()), None => Default::default() };
      Box::new(Inst { p, pool })
   }
   impl Driver for Inst {
      fn load(&mut self, rel: usize, rows: &[Sexp], append: bool) -> Option<()> {
         match rel {
         0 => { let v: Vec<(i64,i64,)> = parse_rows(rows)?; if append { self.p.r0.extend(v) } else { self.p.r0 = v } },
         1 => { let v: Vec<(i64,Option<i64>,)> = parse_rows(rows)?; if append { self.p.r1.extend(v) } else { self.p.r1 = v } },
         2 => { let v: Vec<(i64,)> = parse_rows(rows)?; if append { self.p.r2.extend(v) } else { self.p.r2 = v } },
         3 => { let v: Vec<(i64,i64,i64,)> = parse_rows(rows)?; if append { self.p.r3.extend(v) } else { self.p.r3 = v } },
         4 => { let v: Vec<(i64,)> = parse_rows(rows)?; if append { self.p.r4.extend(v) } else { self.p.r4 = v } },
         5 => { let v: Vec<(i64,i64,)> = parse_rows(rows)?; if append { self.p.r5.extend(v) } else { self.p.r5 = v } },
         6 => { let v: Vec<(i64,i64,)> = parse_rows(rows)?; if append { self.p.r6.extend(v) } else { self.p.r6 = v } },
         7 => { let v: Vec<(i64,i64,)> = parse_rows(rows)?; if append { self.p.r7.extend(v) } else { self.p.r7 = v } },
            _ => return None,
         }
         Some(())
      }
      fn run(&mut self) { match &self.pool { Some(pl) => { let p = &mut self.p; pl.install(|| p.run()) }, None => self.p.run() } }
      fn run_here(&mut self) { self.p.run() }
      fn run_timeout(&mut self, k: usize) -> Option<bool> { let _ = k; None }
      fn dump(&self) -> String { vec![dump_rel(0, self.p.r0.iter().map(Row::render).collect()), dump_rel(1, self.p.r1.iter().map(Row::render).collect()), dump_rel(2, self.p.r2.iter().map(Row::render).collect()), dump_rel(3, self.p.r3.iter().map(Row::render).collect()), dump_rel(4, self.p.r4.iter().map(Row::render).collect()), dump_rel(5, self.p.r5.iter().map(Row::render).collect()), dump_rel(6, self.p.r6.iter().map(Row::render).collect()), dump_rel(7, self.p.r7.iter().map(Row::render).collect())].join(" | ") }
      fn iters(&self) -> String { format!("iters {}", self.p.scc_iters.iter().map(|x| x.to_string()).collect::<Vec<_>>().join(" ")) }
   }
}

#[allow(unused, non_snake_case, clippy::all)]
pub mod h10s {
   use ascent::*;
   use ascent::aggregators::*;
   use ascent::lattice::{Dual, set::Set};
   use crate::common::*;
   ascent! {
      pub struct Prog;
      relation r0(i64, i64);
      relation r1(i64, Option<i64>);
      relation r2(i64);
      relation r3(i64, i64, i64);
      relation r4(i64, i64);
      relation r5(i64, Option<i64>);
      relation r6(i64, i64);
      relation r7(i64, i64);
      macro m0($p0: ident, $p1: expr) { (r1($p0, ?Some(v0)), if (v0.clone() == 1), !r4(std::cmp::max($p0.clone(), 2), std::cmp::max(v0.clone(), 2)) | r5($p0, ?Some(v0)) | r5($p0, ?Some(v0)), (r4(v0, v1) | r2(v1), if (v0.clone() < 4), let v2 = std::cmp::min((v0.clone() + 0), 6))), if ($p1 < v0.clone()) }
      macro m1($p0: ident, $p1: expr) { (r3($p0, v0, $p1) | r1($p0, ?Some(v0)), if (v0.clone() < 3), let v1 = std::cmp::min(std::cmp::min(v0.clone(), 4), 6)), r1(v0, ?Some(v2)) }
      macro m2($p0: ident, $p1: ident) { r4(_, $p0), if ($p0.clone() == 5), !r0($p1.clone(), $p1.clone()), m0!($p1, std::cmp::min($p0.clone(), 3)) }
      macro m3($p0: ident, $p1: expr) { r1($p0, _), r3(v0, v0, ($p1 + 1)), if (v0.clone() <= 2), if ($p1 != 4) }
      macro m4($p0: ident, $p1: expr) { r6(1, $p1) }
      m4!(v1, std::cmp::min(std::cmp::max(v1.clone(), 0), 6)) <-- r0(v0, std::cmp::max(v0.clone(), 2)), m2!(v1, v0);
      r6(v0, v1) <-- r6(v0, 1), (m3!(v1, std::cmp::max(v0.clone(), 1)) | r2(v1));
      r6(v2, v2) <-- r0(v0, v1), m3!(v0, std::cmp::min(v1.clone(), 4)), m3!(v2, v0.clone() + v1.clone());
      r5((v1.clone() + 1), Some(v0.clone())) <-- r0(v0, v1), if (v1.clone() < 5);
   }
   pub struct Inst { p: Prog, pool: Option<ascent::rayon::ThreadPool> }
   pub fn make(pool: Option<usize>) -> Box<dyn Driver> {
      let pool = pool.map(|n| ascent::rayon::ThreadPoolBuilder::new().num_threads(n).build().unwrap());
      let p = match &pool { Some(pl) => pl.install(|| Default::default()), None => Default::default() };
      Box::new(Inst { p, pool })
   }
   impl Driver for Inst {
      fn load(&mut self, rel: usize, rows: &[Sexp], append: bool) -> Option<()> {
         match rel {
         0 => { let v: Vec<(i64,i64,)> = parse_rows(rows)?; if append { self.p.r0.extend(v) } else { self.p.r0 = v } },
         1 => { let v: Vec<(i64,Option<i64>,)> = parse_rows(rows)?; if append { self.p.r1.extend(v) } else { self.p.r1 = v } },
         2 => { let v: Vec<(i64,)> = parse_rows(rows)?; if append { self.p.r2.extend(v) } else { self.p.r2 = v } },
         3 => { let v: Vec<(i64,i64,i64,)> = parse_rows(rows)?; if append { self.p.r3.extend(v) } else { self.p.r3 = v } },
         4 => { let v: Vec<(i64,i64,)> = parse_rows(rows)?; if append { self.p.r4.extend(v) } else { self.p.r4 = v } },
         5 => { let v: Vec<(i64,Option<i64>,)> = parse_rows(rows)?; if append { self.p.r5.extend(v) } else { self.p.r5 = v } },
         6 => { let v: Vec<(i64,i64,)> = parse_rows(rows)?; if append { self.p.r6.extend(v) } else { self.p.r6 = v } },
         7 => { let v: Vec<(i64,i64,)> = parse_rows(rows)?; if append { self.p.r7.extend(v) } else { self.p.r7 = v } },
            _ => return None,
         }
         Some(())
      }
      fn run(&mut self) { match &self.pool { Some(pl) => { let p = &mut self.p; pl.install(|| p.run()) }, None => self.p.run() } }
      fn run_here(&mut self) { self.p.run() }
      fn run_timeout(&mut self, k: usize) -> Option<bool> { let _ = k; None }
      fn dump(&self) -> String { vec![dump_rel(0, self.p.r0.iter().map(Row::render).collect()), dump_rel(1, self.p.r1.iter().map(Row::render).collect()), dump_rel(2, self.p.r2.iter().map(Row::render).collect()), dump_rel(3, self.p.r3.iter().map(Row::render).collect()), dump_rel(4, self.p.r4.iter().map(Row::render).collect()), dump_rel(5, self.p.r5.iter().map(Row::render).collect()), dump_rel(6, self.p.r6.iter().map(Row::render).collect()), dump_rel(7, self.p.r7.iter().map(Row::render).collect())].join(" | ") }
      fn iters(&self) -> String { format!("iters {}", self.p.scc_iters.iter().map(|x| x.to_string()).collect::<Vec<_>>().join(" ")) }
   }
}

#[allow(unused, non_snake_case, clippy::all)]
pub mod a0s {
   use ascent::*;
   use ascent::aggregators::*;
   use ascent::lattice::{Dual, set::Set};
   use crate::common::*;
   ascent! {
      pub struct Prog;
      relation r0(i64, i64);
      relation r1(i64);
      relation r2(i64, i64);
      relation r3(i64);
      macro m0($p0: ident) { r0(v0, $p0) if (3 < v0.clone()) }
      r2(v0, v1) <-- r1(v0), m0!(v1);
      r3(v0) <-- r2(v0, _);
   }
   pub struct Inst { p: Prog, pool: Option<ascent::rayon::ThreadPool> }
   pub fn make(pool: Option<usize>) -> Box<dyn Driver> {
      let pool = pool.map(|n| ascent::rayon::ThreadPoolBuilder::new().num_threads(n).build().unwrap());
      let p = match &pool { Some(pl) => pl.install(|| Default::default()), None => Default::default() };
      Box::new(Inst { p, pool })
   }
   impl Driver for Inst {
      fn load(&mut self, rel: usize, rows: &[Sexp], append: bool) -> Option<()> {
         match rel {
         0 => { let v: Vec<(i64,i64,)> = parse_rows(rows)?; if append { self.p.r0.extend(v) } else { self.p.r0 = v } },
         1 => { let v: Vec<(i64,)> = parse_rows(rows)?; if append { self.p.r1.extend(v) } else { self.p.r1 = v } },
         2 => { let v: Vec<(i64,i64,)> = parse_rows(rows)?; if append { self.p.r2.extend(v) } else { self.p.r2 = v } },
         3 => { let v: Vec<(i64,)> = parse_rows(rows)?; if append { self.p.r3.extend(v) } else { self.p.r3 = v } },
            _ => return None,
         }
         Some(())
      }
      fn run(&mut self) { match &self.pool { Some(pl) => { let p = &mut self.p; pl.install(|| p.run()) }, None => self.p.run() } }
      fn run_here(&mut self) { self.p.run() }
      fn run_timeout(&mut self, k: usize) -> Option<bool> { let _ = k; None }
      fn dump(&self) -> String { vec![dump_rel(0, self.p.r0.iter().map(Row::render).collect()), dump_rel(1, self.p.r1.iter().map(Row::render).collect()), dump_rel(2, self.p.r2.iter().map(Row::render).collect()), dump_rel(3, self.p.r3.iter().map(Row::render).collect())].join(" | ") }
      fn iters(&self) -> String { format!("iters {}", self.p.scc_iters.iter().map(|x| x.to_string()).collect::<Vec<_>>().join(" ")) }
   }
}

#[allow(unused, non_snake_case, clippy::all)]
pub mod e0s {
   use ascent::*;
   use ascent::aggregators::*;
   use ascent::lattice::{Dual, set::Set};
   use crate::common::*;
   ascent! {
      pub struct Prog;
      relation r0(i64, i64);
      relation r1(i64);
      relation r2(i64, i64);
      relation r3(i64);
      macro m0($p0: ident, $p1: expr) { r0(v0, $p0), if ((v0.clone() * $p1) < 5) }
      r2(v0, v1) <-- r1(v0), m0!(v1, v0.clone() + 2);
      r3(v0) <-- r2(v0, _);
   }
   pub struct Inst { p: Prog, pool: Option<ascent::rayon::ThreadPool> }
   pub fn make(pool: Option<usize>) -> Box<dyn Driver> {
      let pool = pool.map(|n| ascent::rayon::ThreadPoolBuilder::new().num_threads(n).build().unwrap());
      let p = match &pool { Some(pl) => pl.install(|| Default::default()), None => Default::default() };
      Box::new(Inst { p, pool })
   }
   impl Driver for Inst {
      fn load(&mut self, rel: usize, rows: &[Sexp], append: bool) -> Option<()> {
         match rel {
         0 => { let v: Vec<(i64,i64,)> = parse_rows(rows)?; if append { self.p.r0.extend(v) } else { self.p.r0 = v } },
         1 => { let v: Vec<(i64,)> = parse_rows(rows)?; if append { self.p.r1.extend(v) } else { self.p.r1 = v } },
         2 => { let v: Vec<(i64,i64,)> = parse_rows(rows)?; if append { self.p.r2.extend(v) } else { self.p.r2 = v } },
         3 => { let v: Vec<(i64,)> = parse_rows(rows)?; if append { self.p.r3.extend(v) } else { self.p.r3 = v } },
            _ => return None,
         }
         Some(())
      }
      fn run(&mut self) { match &self.pool { Some(pl) => { let p = &mut self.p; pl.install(|| p.run()) }, None => self.p.run() } }
      fn run_here(&mut self) { self.p.run() }
      fn run_timeout(&mut self, k: usize) -> Option<bool> { let _ = k; None }
      fn dump(&self) -> String { vec![dump_rel(0, self.p.r0.iter().map(Row::render).collect()), dump_rel(1, self.p.r1.iter().map(Row::render).collect()), dump_rel(2, self.p.r2.iter().map(Row::render).collect()), dump_rel(3, self.p.r3.iter().map(Row::render).collect())].join(" | ") }
      fn iters(&self) -> String { format!("iters {}", self.p.scc_iters.iter().map(|x| x.to_string()).collect::<Vec<_>>().join(" ")) }
   }
}

#[allow(unused, non_snake_case, clippy::all)]
pub mod e4s {
   use ascent::*;
   use ascent::aggregators::*;
   use ascent::lattice::{Dual, set::Set};
   use crate::common::*;
   ascent! {
      pub struct Prog;
      relation r0(i64, i64);
      relation r1(i64);
      relation r2(i64, i64);
      relation r3(i64);
      macro m0($p0: ident, $p1: expr) { r0(v0, $p0), if (($p1 * v0.clone()) < 7) }
      r2(v0, v1) <-- r1(v0), m0!(v1, v0.clone() + 1);
      r3(v0) <-- r2(v0, _);
   }
   pub struct Inst { p: Prog, pool: Option<ascent::rayon::ThreadPool> }
   pub fn make(pool: Option<usize>) -> Box<dyn Driver> {
      let pool = pool.map(|n| ascent::rayon::ThreadPoolBuilder::new().num_threads(n).build().unwrap());
      let p = match &pool { Some(pl) => pl.install(|| Default::default()), None => Default::default() };
      Box::new(Inst { p, pool })
   }
   impl Driver for Inst {
      fn load(&mut self, rel: usize, rows: &[Sexp], append: bool) -> Option<()> {
         match rel {
         0 => { let v: Vec<(i64,i64,)> = parse_rows(rows)?; if append { self.p.r0.extend(v) } else { self.p.r0 = v } },
         1 => { let v: Vec<(i64,)> = parse_rows(rows)?; if append { self.p.r1.extend(v) } else { self.p.r1 = v } },
         2 => { let v: Vec<(i64,i64,)> = parse_rows(rows)?; if append { self.p.r2.extend(v) } else { self.p.r2 = v } },
         3 => { let v: Vec<(i64,)> = parse_rows(rows)?; if append { self.p.r3.extend(v) } else { self.p.r3 = v } },
            _ => return None,
         }
         Some(())
      }
      fn run(&mut self) { match &self.pool { Some(pl) => { let p = &mut self.p; pl.install(|| p.run()) }, None => self.p.run() } }
      fn run_here(&mut self) { self.p.run() }
      fn run_timeout(&mut self, k: usize) -> Option<bool> { let _ = k; None }
      fn dump(&self) -> String { vec![dump_rel(0, self.p.r0.iter().map(Row::render).collect()), dump_rel(1, self.p.r1.iter().map(Row::render).collect()), dump_rel(2, self.p.r2.iter().map(Row::render).collect()), dump_rel(3, self.p.r3.iter().map(Row::render).collect())].join(" | ") }
      fn iters(&self) -> String { format!("iters {}", self.p.scc_iters.iter().map(|x| x.to_string()).collect::<Vec<_>>().join(" ")) }
   }
}

#[allow(unused, non_snake_case, clippy::all)]
pub mod o3s {
   use ascent::*;
   use ascent::aggregators::*;
   use ascent::lattice::{Dual, set::Set};
   use crate::common::*;
   ascent! {
      pub struct Prog;
      relation r0(i64, Option<i64>);
      relation r1(i64);
      relation r2(i64, i64);
      relation r3(i64);
      macro m0($p0: ident) { r0($p0, ?None) }
      macro m1($p0: ident) { r1($p0), m0!($p0) }
      r3(v0) <-- m1!(v0);
      r2(v0, v0) <-- r3(v0);
   }
   pub struct Inst { p: Prog, pool: Option<ascent::rayon::ThreadPool> }
   pub fn make(pool: Option<usize>) -> Box<dyn Driver> {
      let pool = pool.map(|n| ascent::rayon::ThreadPoolBuilder::new().num_threads(n).build().unwrap());
      let p = match &pool { Some(pl) => pl.install(|| Default::default()), None => Default::default() };
      Box::new(Inst { p, pool })
   }
   impl Driver for Inst {
      fn load(&mut self, rel: usize, rows: &[Sexp], append: bool) -> Option<()> {
         match rel {
         0 => { let v: Vec<(i64,Option<i64>,)> = parse_rows(rows)?; if append { self.p.r0.extend(v) } else { self.p.r0 = v } },
         1 => { let v: Vec<(i64,)> = parse_rows(rows)?; if append { self.p.r1.extend(v) } else { self.p.r1 = v } },
         2 => { let v: Vec<(i64,i64,)> = parse_rows(rows)?; if append { self.p.r2.extend(v) } else { self.p.r2 = v } },
         3 => { let v: Vec<(i64,)> = parse_rows(rows)?; if append { self.p.r3.extend(v) } else { self.p.r3 = v } },
            _ => return None,
         }
         Some(())
      }
      fn run(&mut self) { match &self.pool { Some(pl) => { let p = &mut self.p; pl.install(|| p.run()) }, None => self.p.run() } }
      fn run_here(&mut self) { self.p.run() }
      fn run_timeout(&mut self, k: usize) -> Option<bool> { let _ = k; None }
      fn dump(&self) -> String { vec![dump_rel(0, self.p.r0.iter().map(Row::render).collect()), dump_rel(1, self.p.r1.iter().map(Row::render).collect()), dump_rel(2, self.p.r2.iter().map(Row::render).collect()), dump_rel(3, self.p.r3.iter().map(Row::render).collect())].join(" | ") }
      fn iters(&self) -> String { format!("iters {}", self.p.scc_iters.iter().map(|x| x.to_string()).collect::<Vec<_>>().join(" ")) }
   }
}

fn main() {
   common::main_loop(&[("h2s", h2s::make as common::Factory), ("h6s", h6s::make as common::Factory), ("h10s", h10s::make as common::Factory), ("a0s", a0s::make as common::Factory), ("e0s", e0s::make as common::Factory), ("e4s", e4s::make as common::Factory), ("o3s", o3s::make as common::Factory)]);
}
