#[path = "common.rs"]
mod common;
#[allow(unused, non_snake_case, clippy::all)]
pub mod p6 {
   use ascent::*;
   use ascent::aggregators::*;
   use ascent::lattice::{Dual, set::Set};
   use crate::common::*;
   ascent! {
      pub struct Prog;
      relation r0(i64, i64, i64);
      relation r1(i64, i64);
      relation r2(i64, i64);
      relation r3(i64, i64);
      relation r4(i64, i64, i64);
      relation r5(i64, i64, i64);
      r2((v0 + 1), 2) <-- r1(3, 3), let v0 = 1, if (v0 < 6);
      r3(v2, v0) <-- r2(1, v0) if ((*v0) < 4), r0(v1, v2, v0);
      r2(v0, 3) <-- r3(2, v0);
      r3(v0, v2) <-- r2(v0, v1), r1(v1, v2), r3(v2, v3);
      r5(0, v0, v0) <-- r1(v0, v1) if ((*v0) <= 4), r4(v1, v2, v0) if ((*v0) != 1);
      r2(3, 3) <-- r0(v0, v1, v2), r3(((*v1) + 0), v3);
   }
   pub struct Inst { p: Prog, pool: Option<ascent::rayon::ThreadPool> }
   pub fn make(pool: Option<usize>) -> Box<dyn Driver> {
      let pool = pool.map(|n| ascent::rayon::ThreadPoolBuilder::new().num_threads(n).build().unwrap());
      let p = match &pool { Some(pl) => pl.install(|| Default::default()), None => Default::default() };
      Box::new(Inst { p, pool })
   }
   impl Driver for Inst {
      fn load(&mut self, rel: usize, rows: &[Sexp], append: bool) -> Option<()> {
         match rel {
         0 => { let v: Vec<(i64,i64,i64,)> = parse_rows(rows)?; if append { self.p.r0.extend(v) } else { self.p.r0 = v } },
         1 => { let v: Vec<(i64,i64,)> = parse_rows(rows)?; if append { self.p.r1.extend(v) } else { self.p.r1 = v } },
         2 => { let v: Vec<(i64,i64,)> = parse_rows(rows)?; if append { self.p.r2.extend(v) } else { self.p.r2 = v } },
         3 => { let v: Vec<(i64,i64,)> = parse_rows(rows)?; if append { self.p.r3.extend(v) } else { self.p.r3 = v } },
         4 => { let v: Vec<(i64,i64,i64,)> = parse_rows(rows)?; if append { self.p.r4.extend(v) } else { self.p.r4 = v } },
         5 => { let v: Vec<(i64,i64,i64,)> = parse_rows(rows)?; if append { self.p.r5.extend(v) } else { self.p.r5 = v } },
            _ => return None,
         }
         Some(())
      }
      fn run(&mut self) { match &self.pool { Some(pl) => { let p = &mut self.p; pl.install(|| p.run()) }, None => self.p.run() } }
      fn run_here(&mut self) { self.p.run() }
      fn run_timeout(&mut self, k: usize) -> Option<bool> { let _ = k; None }
      fn dump(&self) -> String { vec![dump_rel(0, self.p.r0.iter().map(Row::render).collect()), dump_rel(1, self.p.r1.iter().map(Row::render).collect()), dump_rel(2, self.p.r2.iter().map(Row::render).collect()), dump_rel(3, self.p.r3.iter().map(Row::render).collect()), dump_rel(4, self.p.r4.iter().map(Row::render).collect()), dump_rel(5, self.p.r5.iter().map(Row::render).collect())].join(" | ") }
      fn iters(&self) -> String { format!("iters {}", self.p.scc_iters.iter().map(|x| x.to_string()).collect::<Vec<_>>().join(" ")) }
   }
}

#[allow(unused, non_snake_case, clippy::all)]
pub mod p14 {
   use ascent::*;
   use ascent::aggregators::*;
   use ascent::lattice::{Dual, set::Set};
   use crate::common::*;
   ascent! {
      pub struct Prog;
      relation r0(i64, i64, i64);
      relation r1(i64);
      relation r2(i64, i64);
      r2(v1, v0) <-- if let Some(v0) = Some(2), r0(v1, v2, v3), if (v0 <= 6);
      r2(v1, v1) <-- for v0 in [1, 3, 0], r2((v0 + 1), v1), r2((v0 + 0), v1);
      r1(v0) <-- r2(v0, v1), r2(v1, v1);
      r1(v0) <-- r1(v0);
      r1((v1 + 1)) <-- r2(3, v0), if let Some(v1) = None::<i64>, r0(v0, ((*v0) + 0), 2) if ((*v0) <= 4), r1(((*v0) + 1)), if (v1 < 6);
      r1(v0) <-- if let Some(v0) = Some(0), r1(v0) if (v0 <= 1), r1(v0), r2(v0, v0), if (v0 <= 6);
      r2(2, v1) <-- if let Some(v0) = None::<i64>, r2(v0, v1), r2(v2, v3) if ((*v1) <= 3);
   }
   pub struct Inst { p: Prog, pool: Option<ascent::rayon::ThreadPool> }
   pub fn make(pool: Option<usize>) -> Box<dyn Driver> {
      let pool = pool.map(|n| ascent::rayon::ThreadPoolBuilder::new().num_threads(n).build().unwrap());
      let p = match &pool { Some(pl) => pl.install(|| Default::default()), None => Default::default() };
      Box::new(Inst { p, pool })
   }
   impl Driver for Inst {
      fn load(&mut self, rel: usize, rows: &[Sexp], append: bool) -> Option<()> {
         match rel {
         0 => { let v: Vec<(i64,i64,i64,)> = parse_rows(rows)?; if append { self.p.r0.extend(v) } else { self.p.r0 = v } },
         1 => { let v: Vec<(i64,)> = parse_rows(rows)?; if append { self.p.r1.extend(v) } else { self.p.r1 = v } },
         2 => { let v: Vec<(i64,i64,)> = parse_rows(rows)?; if append { self.p.r2.extend(v) } else { self.p.r2 = v } },
            _ => return None,
         }
         Some(())
      }
      fn run(&mut self) { match &self.pool { Some(pl) => { let p = &mut self.p; pl.install(|| p.run()) }, None => self.p.run() } }
      fn run_here(&mut self) { self.p.run() }
      fn run_timeout(&mut self, k: usize) -> Option<bool> { let _ = k; None }
      fn dump(&self) -> String { vec![dump_rel(0, self.p.r0.iter().map(Row::render).collect()), dump_rel(1, self.p.r1.iter().map(Row::render).collect()), dump_rel(2, self.p.r2.iter().map(Row::render).collect())].join(" | ") }
      fn iters(&self) -> String { format!("iters {}", self.p.scc_iters.iter().map(|x| x.to_string()).collect::<Vec<_>>().join(" ")) }
   }
}

#[allow(unused, non_snake_case, clippy::all)]
pub mod p22 {
   use ascent::*;
   use ascent::aggregators::*;
   use ascent::lattice::{Dual, set::Set};
   use crate::common::*;
   ascent! {
      pub struct Prog;
      relation r0(i64, i64);
      relation r1(i64, i64, i64);
      relation r2(i64, i64, i64);
      relation r3(i64, i64);
      relation r4(i64, i64);
      r1(v0, v0, v1) <-- r0(v0, v1) if ((*v0) < 4), if ((*v0) == 5);
      r2(v3, 3, ((*v1) + 1)) <-- r1(v0, v1, 0), r1(((*v1) + 1), v2, v3) if ((*v0) < 6), if ((*v1) < 6);
      r1(v0, 0, 0) <-- r2(1, 0, v0);
      r3(v0, v8) <-- if let Some(v9) = Some(3), r0(v0, v1), r4(v1, v9) let v8 = ((*v0) + 1);
      r4(v0, ((*v1) + 1)) <-- r2(2, v0, v1) if ((*v0) < 6), if ((*v1) <= 0), if ((*v1) < 6);
      r3(((*v1) + 1), v0) <-- if let Some(v0) = None::<i64>, r1(v0, v0, v1), if ((*v1) < 6), if (v0 <= 6);
   }
   pub struct Inst { p: Prog, pool: Option<ascent::rayon::ThreadPool> }
   pub fn make(pool: Option<usize>) -> Box<dyn Driver> {
      let pool = pool.map(|n| ascent::rayon::ThreadPoolBuilder::new().num_threads(n).build().unwrap());
      let p = match &pool { Some(pl) => pl.install(|| Default::default()), None => Default::default() };
      Box::new(Inst { p, pool })
   }
   impl Driver for Inst {
      fn load(&mut self, rel: usize, rows: &[Sexp], append: bool) -> Option<()> {
         match rel {
         0 => { let v: Vec<(i64,i64,)> = parse_rows(rows)?; if append { self.p.r0.extend(v) } else { self.p.r0 = v } },
         1 => { let v: Vec<(i64,i64,i64,)> = parse_rows(rows)?; if append { self.p.r1.extend(v) } else { self.p.r1 = v } },
         2 => { let v: Vec<(i64,i64,i64,)> = parse_rows(rows)?; if append { self.p.r2.extend(v) } else { self.p.r2 = v } },
         3 => { let v: Vec<(i64,i64,)> = parse_rows(rows)?; if append { self.p.r3.extend(v) } else { self.p.r3 = v } },
         4 => { let v: Vec<(i64,i64,)> = parse_rows(rows)?; if append { self.p.r4.extend(v) } else { self.p.r4 = v } },
            _ => return None,
         }
         Some(())
      }
      fn run(&mut self) { match &self.pool { Some(pl) => { let p = &mut self.p; pl.install(|| p.run()) }, None => self.p.run() } }
      fn run_here(&mut self) { self.p.run() }
      fn run_timeout(&mut self, k: usize) -> Option<bool> { let _ = k; None }
      fn dump(&self) -> String { vec![dump_rel(0, self.p.r0.iter().map(Row::render).collect()), dump_rel(1, self.p.r1.iter().map(Row::render).collect()), dump_rel(2, self.p.r2.iter().map(Row::render).collect()), dump_rel(3, self.p.r3.iter().map(Row::render).collect()), dump_rel(4, self.p.r4.iter().map(Row::render).collect())].join(" | ") }
      fn iters(&self) -> String { format!("iters {}", self.p.scc_iters.iter().map(|x| x.to_string()).collect::<Vec<_>>().join(" ")) }
   }
}

#[allow(unused, non_snake_case, clippy::all)]
pub mod p30 {
   use ascent::*;
   use ascent::aggregators::*;
   use ascent::lattice::{Dual, set::Set};
   use crate::common::*;
   ascent! {
      pub struct Prog;
      relation r0(i64, i64);
      relation r1(i64);
      relation r2(i64, i64);
      r1(v0) <-- let v9 = 0, r0(v0, v1), r2(v1, v9);
      r1(v1) <-- r1(v0) if ((*v0) < 2), for v1 in 1..2;
      r0(((*v0) + 1), v0) <-- r0(v0, 2) if ((*v0) < 2), r1(((*v0) + 0)), if ((*v0) < 6);
   }
   pub struct Inst { p: Prog, pool: Option<ascent::rayon::ThreadPool> }
   pub fn make(pool: Option<usize>) -> Box<dyn Driver> {
      let pool = pool.map(|n| ascent::rayon::ThreadPoolBuilder::new().num_threads(n).build().unwrap());
      let p = match &pool { Some(pl) => pl.install(|| Default::default()), None => Default::default() };
      Box::new(Inst { p, pool })
   }
   impl Driver for Inst {
      fn load(&mut self, rel: usize, rows: &[Sexp], append: bool) -> Option<()> {
         match rel {
         0 => { let v: Vec<(i64,i64,)> = parse_rows(rows)?; if append { self.p.r0.extend(v) } else { self.p.r0 = v } },
         1 => { let v: Vec<(i64,)> = parse_rows(rows)?; if append { self.p.r1.extend(v) } else { self.p.r1 = v } },
         2 => { let v: Vec<(i64,i64,)> = parse_rows(rows)?; if append { self.p.r2.extend(v) } else { self.p.r2 = v } },
            _ => return None,
         }
         Some(())
      }
      fn run(&mut self) { match &self.pool { Some(pl) => { let p = &mut self.p; pl.install(|| p.run()) }, None => self.p.run() } }
      fn run_here(&mut self) { self.p.run() }
      fn run_timeout(&mut self, k: usize) -> Option<bool> { let _ = k; None }
      fn dump(&self) -> String { vec![dump_rel(0, self.p.r0.iter().map(Row::render).collect()), dump_rel(1, self.p.r1.iter().map(Row::render).collect()), dump_rel(2, self.p.r2.iter().map(Row::render).collect())].join(" | ") }
      fn iters(&self) -> String { format!("iters {}", self.p.scc_iters.iter().map(|x| x.to_string()).collect::<Vec<_>>().join(" ")) }
   }
}

#[allow(unused, non_snake_case, clippy::all)]
pub mod p38 {
   use ascent::*;
   use ascent::aggregators::*;
   use ascent::lattice::{Dual, set::Set};
   use crate::common::*;
   ascent! {
      pub struct Prog;
      relation r0(i64, i64);
      relation r1(i64, i64);
      relation r2(i64, i64, i64);
      r2(v0, v2, v3) <-- r1(v0, v1), r0(v1, v2), r1(v2, v3);
      r2(v0, v0, 2) <-- if let Some(v0) = Some(1), r0(v1, v2), r1(v2, v2), if (v0 <= 6);
      r1(3, 1);
      r0(v3, v2) <-- if let Some(v0) = Some(3), r1(v0, v1) if (v0 != 6) let v2 = ((*v1) + 0), let v3 = std::cmp::max((*v1), 3), r0(v3, v1), r0(v4, v5), if (v3 <= 6), if (v2 <= 6);
      r2(v1, v1, v0) <-- r0(v0, v1);
   }
   pub struct Inst { p: Prog, pool: Option<ascent::rayon::ThreadPool> }
   pub fn make(pool: Option<usize>) -> Box<dyn Driver> {
      let pool = pool.map(|n| ascent::rayon::ThreadPoolBuilder::new().num_threads(n).build().unwrap());
      let p = match &pool { Some(pl) => pl.install(|| Default::default()), None => Default::default() };
      Box::new(Inst { p, pool })
   }
   impl Driver for Inst {
      fn load(&mut self, rel: usize, rows: &[Sexp], append: bool) -> Option<()> {
         match rel {
         0 => { let v: Vec<(i64,i64,)> = parse_rows(rows)?; if append { self.p.r0.extend(v) } else { self.p.r0 = v } },
         1 => { let v: Vec<(i64,i64,)> = parse_rows(rows)?; if append { self.p.r1.extend(v) } else { self.p.r1 = v } },
         2 => { let v: Vec<(i64,i64,i64,)> = parse_rows(rows)?; if append { self.p.r2.extend(v) } else { self.p.r2 = v } },
            _ => return None,
         }
         Some(())
      }
      fn run(&mut self) { match &self.pool { Some(pl) => { let p = &mut self.p; pl.install(|| p.run()) }, None => self.p.run() } }
      fn run_here(&mut self) { self.p.run() }
      fn run_timeout(&mut self, k: usize) -> Option<bool> { let _ = k; None }
      fn dump(&self) -> String { vec![dump_rel(0, self.p.r0.iter().map(Row::render).collect()), dump_rel(1, self.p.r1.iter().map(Row::render).collect()), dump_rel(2, self.p.r2.iter().map(Row::render).collect())].join(" | ") }
      fn iters(&self) -> String { format!("iters {}", self.p.scc_iters.iter().map(|x| x.to_string()).collect::<Vec<_>>().join(" ")) }
   }
}

#[allow(unused, non_snake_case, clippy::all)]
pub mod p46 {
   use ascent::*;
   use ascent::aggregators::*;
   use ascent::lattice::{Dual, set::Set};
   use crate::common::*;
   ascent! {
      pub struct Prog;
      relation r0(i64, i64);
      relation r1(i64, i64);
      relation r2(i64, i64);
      relation r3(i64, i64);
      relation r4(i64, i64);
      relation r5(i64);
      r5(v0) <-- r1(v0, v1), r2(v1, v1);
      r4(v0, v0) <-- r5(v0);
      r4(2, 2);
   }
   pub struct Inst { p: Prog, pool: Option<ascent::rayon::ThreadPool> }
   pub fn make(pool: Option<usize>) -> Box<dyn Driver> {
      let pool = pool.map(|n| ascent::rayon::ThreadPoolBuilder::new().num_threads(n).build().unwrap());
      let p = match &pool { Some(pl) => pl.install(|| Default::default()), None => Default::default() };
      Box::new(Inst { p, pool })
   }
   impl Driver for Inst {
      fn load(&mut self, rel: usize, rows: &[Sexp], append: bool) -> Option<()> {
         match rel {
         0 => { let v: Vec<(i64,i64,)> = parse_rows(rows)?; if append { self.p.r0.extend(v) } else { self.p.r0 = v } },
         1 => { let v: Vec<(i64,i64,)> = parse_rows(rows)?; if append { self.p.r1.extend(v) } else { self.p.r1 = v } },
         2 => { let v: Vec<(i64,i64,)> = parse_rows(rows)?; if append { self.p.r2.extend(v) } else { self.p.r2 = v } },
         3 => { let v: Vec<(i64,i64,)> = parse_rows(rows)?; if append { self.p.r3.extend(v) } else { self.p.r3 = v } },
         4 => { let v: Vec<(i64,i64,)> = parse_rows(rows)?; if append { self.p.r4.extend(v) } else { self.p.r4 = v } },
         5 => { let v: Vec<(i64,)> = parse_rows(rows)?; if append { self.p.r5.extend(v) } else { self.p.r5 = v } },
            _ => return None,
         }
         Some(())
      }
      fn run(&mut self) { match &self.pool { Some(pl) => { let p = &mut self.p; pl.install(|| p.run()) }, None => self.p.run() } }
      fn run_here(&mut self) { self.p.run() }
      fn run_timeout(&mut self, k: usize) -> Option<bool> { let _ = k; None }
      fn dump(&self) -> String { vec![dump_rel(0, self.p.r0.iter().map(Row::render).collect()), dump_rel(1, self.p.r1.iter().map(Row::render).collect()), dump_rel(2, self.p.r2.iter().map(Row::render).collect()), dump_rel(3, self.p.r3.iter().map(Row::render).collect()), dump_rel(4, self.p.r4.iter().map(Row::render).collect()), dump_rel(5, self.p.r5.iter().map(Row::render).collect())].join(" | ") }
      fn iters(&self) -> String { format!("iters {}", self.p.scc_iters.iter().map(|x| x.to_string()).collect::<Vec<_>>().join(" ")) }
   }
}

#[allow(unused, non_snake_case, clippy::all)]
pub mod p54 {
   use ascent::*;
   use ascent::aggregators::*;
   use ascent::lattice::{Dual, set::Set};
   use crate::common::*;
   ascent! {
      pub struct Prog;
      relation r0(i64, i64);
      relation r1(i64, i64);
      relation r2(i64, i64);
      r2(3, ((*v0) + 1)) <-- r1(v0, 3), for v1 in [0, 4, 1], if ((*v0) < 6);
      r2(v0, v8) <-- if let Some(v9) = Some(1), r0(v0, v1), r0(v1, v9) let v8 = ((*v0) + 1);
      r2(((*v1) + 1), v0) <-- r2(v0, v1), for v2 in 0..2, if ((*v1) < 6);
      r0(1, 0) <-- r2(v0, v1);
      r2(((*v3) + 1), v1) <-- let v0 = 1, r0(v1, v2), r1(v1, v3), if ((*v2) == 2), if ((*v3) < 6);
   }
   pub struct Inst { p: Prog, pool: Option<ascent::rayon::ThreadPool> }
   pub fn make(pool: Option<usize>) -> Box<dyn Driver> {
      let pool = pool.map(|n| ascent::rayon::ThreadPoolBuilder::new().num_threads(n).build().unwrap());
      let p = match &pool { Some(pl) => pl.install(|| Default::default()), None => Default::default() };
      Box::new(Inst { p, pool })
   }
   impl Driver for Inst {
      fn load(&mut self, rel: usize, rows: &[Sexp], append: bool) -> Option<()> {
         match rel {
         0 => { let v: Vec<(i64,i64,)> = parse_rows(rows)?; if append { self.p.r0.extend(v) } else { self.p.r0 = v } },
         1 => { let v: Vec<(i64,i64,)> = parse_rows(rows)?; if append { self.p.r1.extend(v) } else { self.p.r1 = v } },
         2 => { let v: Vec<(i64,i64,)> = parse_rows(rows)?; if append { self.p.r2.extend(v) } else { self.p.r2 = v } },
            _ => return None,
         }
         Some(())
      }
      fn run(&mut self) { match &self.pool { Some(pl) => { let p = &mut self.p; pl.install(|| p.run()) }, None => self.p.run() } }
      fn run_here(&mut self) { self.p.run() }
      fn run_timeout(&mut self, k: usize) -> Option<bool> { let _ = k; None }
      fn dump(&self) -> String { vec![dump_rel(0, self.p.r0.iter().map(Row::render).collect()), dump_rel(1, self.p.r1.iter().map(Row::render).collect()), dump_rel(2, self.p.r2.iter().map(Row::render).collect())].join(" | ") }
      fn iters(&self) -> String { format!("iters {}", self.p.scc_iters.iter().map(|x| x.to_string()).collect::<Vec<_>>().join(" ")) }
   }
}

#[allow(unused, non_snake_case, clippy::all)]
pub mod p62 {
   use ascent::*;
   use ascent::aggregators::*;
   use ascent::lattice::{Dual, set::Set};
   use crate::common::*;
   ascent! {
      pub struct Prog;
      relation r0(i64, i64);
      relation r1(i64, i64);
      relation r2(i64, i64);
      relation r3(i64, i64, i64);
      relation r4(i64, i64);
      r2(v0, v1) <-- r2(v0, v1), r1(v0, v0), r2(v1, v2);
      r4(v1, 3) <-- for v0 in 1..4, r4(v0, v0) if (v0 != 2), r0(2, (v0 + 1)) if (v0 < 3) let v1 = (v0 + 1), if (v1 <= 6);
   }
   pub struct Inst { p: Prog, pool: Option<ascent::rayon::ThreadPool> }
   pub fn make(pool: Option<usize>) -> Box<dyn Driver> {
      let pool = pool.map(|n| ascent::rayon::ThreadPoolBuilder::new().num_threads(n).build().unwrap());
      let p = match &pool { Some(pl) => pl.install(|| Default::default()), None => Default::default() };
      Box::new(Inst { p, pool })
   }
   impl Driver for Inst {
      fn load(&mut self, rel: usize, rows: &[Sexp], append: bool) -> Option<()> {
         match rel {
         0 => { let v: Vec<(i64,i64,)> = parse_rows(rows)?; if append { self.p.r0.extend(v) } else { self.p.r0 = v } },
         1 => { let v: Vec<(i64,i64,)> = parse_rows(rows)?; if append { self.p.r1.extend(v) } else { self.p.r1 = v } },
         2 => { let v: Vec<(i64,i64,)> = parse_rows(rows)?; if append { self.p.r2.extend(v) } else { self.p.r2 = v } },
         3 => { let v: Vec<(i64,i64,i64,)> = parse_rows(rows)?; if append { self.p.r3.extend(v) } else { self.p.r3 = v } },
         4 => { let v: Vec<(i64,i64,)> = parse_rows(rows)?; if append { self.p.r4.extend(v) } else { self.p.r4 = v } },
            _ => return None,
         }
         Some(())
      }
      fn run(&mut self) { match &self.pool { Some(pl) => { let p = &mut self.p; pl.install(|| p.run()) }, None => self.p.run() } }
      fn run_here(&mut self) { self.p.run() }
      fn run_timeout(&mut self, k: usize) -> Option<bool> { let _ = k; None }
      fn dump(&self) -> String { vec![dump_rel(0, self.p.r0.iter().map(Row::render).collect()), dump_rel(1, self.p.r1.iter().map(Row::render).collect()), dump_rel(2, self.p.r2.iter().map(Row::render).collect()), dump_rel(3, self.p.r3.iter().map(Row::render).collect()), dump_rel(4, self.p.r4.iter().map(Row::render).collect())].join(" | ") }
      fn iters(&self) -> String { format!("iters {}", self.p.scc_iters.iter().map(|x| x.to_string()).collect::<Vec<_>>().join(" ")) }
   }
}

#[allow(unused, non_snake_case, clippy::all)]
pub mod p70 {
   use ascent::*;
   use ascent::aggregators::*;
   use ascent::lattice::{Dual, set::Set};
   use crate::common::*;
   ascent! {
      pub struct Prog;
      relation r0(i64, i64);
      relation r1(i64);
      relation r2(i64, i64);
      relation r3(i64, i64);
      r1(3) <-- r0(v0, v1);
      r2(v0, v0) <-- r0(v0, 1), if let Some(v1) = Some(std::cmp::min((*v0), 4));
      r3(((*v1) + 1), v2) <-- r1(v0), if ((*v0) < 2), r2(v1, v2), let v3 = ((*v0) + 2), if ((*v1) < 6);
      r1(v0) <-- r2(v0, v1) if ((*v0) < 4), r2(v1, v2) if ((*v2) != (*v1));
      r1(v0) <-- if let Some(v9) = Some(1), r2(v0, v1), r0(v1, v9) let v8 = ((*v0) + 1);
      r1(v1) <-- r3(v0, v1);
      r1(v0) <-- r1(v0);
      r1(0) <-- r0(v0, 0), let v1 = std::cmp::max((*v0), 0);
   }
   pub struct Inst { p: Prog, pool: Option<ascent::rayon::ThreadPool> }
   pub fn make(pool: Option<usize>) -> Box<dyn Driver> {
      let pool = pool.map(|n| ascent::rayon::ThreadPoolBuilder::new().num_threads(n).build().unwrap());
      let p = match &pool { Some(pl) => pl.install(|| Default::default()), None => Default::default() };
      Box::new(Inst { p, pool })
   }
   impl Driver for Inst {
      fn load(&mut self, rel: usize, rows: &[Sexp], append: bool) -> Option<()> {
         match rel {
         0 => { let v: Vec<(i64,i64,)> = parse_rows(rows)?; if append { self.p.r0.extend(v) } else { self.p.r0 = v } },
         1 => { let v: Vec<(i64,)> = parse_rows(rows)?; if append { self.p.r1.extend(v) } else { self.p.r1 = v } },
         2 => { let v: Vec<(i64,i64,)> = parse_rows(rows)?; if append { self.p.r2.extend(v) } else { self.p.r2 = v } },
         3 => { let v: Vec<(i64,i64,)> = parse_rows(rows)?; if append { self.p.r3.extend(v) } else { self.p.r3 = v } },
            _ => return None,
         }
         Some(())
      }
      fn run(&mut self) { match &self.pool { Some(pl) => { let p = &mut self.p; pl.install(|| p.run()) }, None => self.p.run() } }
      fn run_here(&mut self) { self.p.run() }
      fn run_timeout(&mut self, k: usize) -> Option<bool> { let _ = k; None }
      fn dump(&self) -> String { vec![dump_rel(0, self.p.r0.iter().map(Row::render).collect()), dump_rel(1, self.p.r1.iter().map(Row::render).collect()), dump_rel(2, self.p.r2.iter().map(Row::render).collect()), dump_rel(3, self.p.r3.iter().map(Row::render).collect())].join(" | ") }
      fn iters(&self) -> String { format!("iters {}", self.p.scc_iters.iter().map(|x| x.to_string()).collect::<Vec<_>>().join(" ")) }
   }
}

#[allow(unused, non_snake_case, clippy::all)]
pub mod p78 {
   use ascent::*;
   use ascent::aggregators::*;
   use ascent::lattice::{Dual, set::Set};
   use crate::common::*;
   ascent! {
      pub struct Prog;
      relation r0(i64, i64);
      relation r1(i64, i64, i64);
      relation r2(i64);
      relation r3(i64);
      relation r4(i64, i64);
      r2((v1 + 1)) <-- r0(0, v0) if ((*v0) != 2) let v1 = ((*v0) + 0), if (v1 < 6);
      r2(v1) <-- let v0 = 0, r2(v0), if let Some(v1) = Some(std::cmp::max(v0, 3)), r0(v2, 1), if (v1 <= 6);
      r1(v0, v1, v2) <-- r4(v0, v1) if ((*v0) < 4), r0(v1, v2) if ((*v2) != (*v1));
      r3(v0) <-- r0(v0, v1), r0(v0, v0), r0(v1, v2);
      r2(3);
      r4(v2, v2) <-- if let Some(v0) = Some(4), r1(v0, v1, v2);
      r4(v0, (v0 + 1)) <-- r2(3), for v0 in 1..4, if (v0 < 6);
      r1(v0, 1, v0) <-- if let Some(v0) = Some(3), r4(v0, v1), r3((v0 + 0)), if (v0 != 4), if (v0 <= 6);
   }
   pub struct Inst { p: Prog, pool: Option<ascent::rayon::ThreadPool> }
   pub fn make(pool: Option<usize>) -> Box<dyn Driver> {
      let pool = pool.map(|n| ascent::rayon::ThreadPoolBuilder::new().num_threads(n).build().unwrap());
      let p = match &pool { Some(pl) => pl.install(|| Default::default()), None => Default::default() };
      Box::new(Inst { p, pool })
   }
   impl Driver for Inst {
      fn load(&mut self, rel: usize, rows: &[Sexp], append: bool) -> Option<()> {
         match rel {
         0 => { let v: Vec<(i64,i64,)> = parse_rows(rows)?; if append { self.p.r0.extend(v) } else { self.p.r0 = v } },
         1 => { let v: Vec<(i64,i64,i64,)> = parse_rows(rows)?; if append { self.p.r1.extend(v) } else { self.p.r1 = v } },
         2 => { let v: Vec<(i64,)> = parse_rows(rows)?; if append { self.p.r2.extend(v) } else { self.p.r2 = v } },
         3 => { let v: Vec<(i64,)> = parse_rows(rows)?; if append { self.p.r3.extend(v) } else { self.p.r3 = v } },
         4 => { let v: Vec<(i64,i64,)> = parse_rows(rows)?; if append { self.p.r4.extend(v) } else { self.p.r4 = v } },
            _ => return None,
         }
         Some(())
      }
      fn run(&mut self) { match &self.pool { Some(pl) => { let p = &mut self.p; pl.install(|| p.run()) }, None => self.p.run() } }
      fn run_here(&mut self) { self.p.run() }
      fn run_timeout(&mut self, k: usize) -> Option<bool> { let _ = k; None }
      fn dump(&self) -> String { vec![dump_rel(0, self.p.r0.iter().map(Row::render).collect()), dump_rel(1, self.p.r1.iter().map(Row::render).collect()), dump_rel(2, self.p.r2.iter().map(Row::render).collect()), dump_rel(3, self.p.r3.iter().map(Row::render).collect()), dump_rel(4, self.p.r4.iter().map(Row::render).collect())].join(" | ") }
      fn iters(&self) -> String { format!("iters {}", self.p.scc_iters.iter().map(|x| x.to_string()).collect::<Vec<_>>().join(" ")) }
   }
}

#[allow(unused, non_snake_case, clippy::all)]
pub mod p86 {
   use ascent::*;
   use ascent::aggregators::*;
   use ascent::lattice::{Dual, set::Set};
   use crate::common::*;
   ascent! {
      pub struct Prog;
      relation r0(i64, i64);
      relation r1(i64, i64);
      relation r2(i64);
      relation r3(i64, i64);
      r3(v0, v1) <-- let v9 = 0, r3(v0, v1), r0(v1, v9);
      r3(v1, v0) <-- r3(v0, 1), r0(2, v0), r3(1, v1);
      r3(v1, v0) <-- r0(v0, 0) if ((*v0) <= 5), if ((*v0) <= 4), r3(v1, v0), r2(v2), if let Some(v3) = Some(((*v2) + 2));
   }
   pub struct Inst { p: Prog, pool: Option<ascent::rayon::ThreadPool> }
   pub fn make(pool: Option<usize>) -> Box<dyn Driver> {
      let pool = pool.map(|n| ascent::rayon::ThreadPoolBuilder::new().num_threads(n).build().unwrap());
      let p = match &pool { Some(pl) => pl.install(|| Default::default()), None => Default::default() };
      Box::new(Inst { p, pool })
   }
   impl Driver for Inst {
      fn load(&mut self, rel: usize, rows: &[Sexp], append: bool) -> Option<()> {
         match rel {
         0 => { let v: Vec<(i64,i64,)> = parse_rows(rows)?; if append { self.p.r0.extend(v) } else { self.p.r0 = v } },
         1 => { let v: Vec<(i64,i64,)> = parse_rows(rows)?; if append { self.p.r1.extend(v) } else { self.p.r1 = v } },
         2 => { let v: Vec<(i64,)> = parse_rows(rows)?; if append { self.p.r2.extend(v) } else { self.p.r2 = v } },
         3 => { let v: Vec<(i64,i64,)> = parse_rows(rows)?; if append { self.p.r3.extend(v) } else { self.p.r3 = v } },
            _ => return None,
         }
         Some(())
      }
      fn run(&mut self) { match &self.pool { Some(pl) => { let p = &mut self.p; pl.install(|| p.run()) }, None => self.p.run() } }
      fn run_here(&mut self) { self.p.run() }
      fn run_timeout(&mut self, k: usize) -> Option<bool> { let _ = k; None }
      fn dump(&self) -> String { vec![dump_rel(0, self.p.r0.iter().map(Row::render).collect()), dump_rel(1, self.p.r1.iter().map(Row::render).collect()), dump_rel(2, self.p.r2.iter().map(Row::render).collect()), dump_rel(3, self.p.r3.iter().map(Row::render).collect())].join(" | ") }
      fn iters(&self) -> String { format!("iters {}", self.p.scc_iters.iter().map(|x| x.to_string()).collect::<Vec<_>>().join(" ")) }
   }
}

#[allow(unused, non_snake_case, clippy::all)]
pub mod p94 {
   use ascent::*;
   use ascent::aggregators::*;
   use ascent::lattice::{Dual, set::Set};
   use crate::common::*;
   ascent! {
      pub struct Prog;
      relation r0(i64);
      relation r1(i64, i64);
      relation r2(i64, i64, i64);
      relation r3(i64, i64);
      relation r4(i64, i64);
      relation r5(i64, i64, i64);
      r1(2, 3) <-- if let Some(v0) = Some(4), r0(0);
      r2(3, ((*v0) + 1), v1) <-- r1(2, v0), r4(v0, v1), if ((*v0) < 6);
      r1(v0, v1) <-- r2(v0, 3, v1);
      r5(v0, v1, v9) <-- let v9 = 2, r3(v0, v1), r1(v1, v9);
      r4(v0, v1) <-- r3(v0, v1) if ((*v0) < 4), r1(v1, v2) if ((*v2) != (*v1));
      r3(v0, v0) <-- r3(0, v0), r3(v0, v1), if ((*v1) <= 0);
   }
   pub struct Inst { p: Prog, pool: Option<ascent::rayon::ThreadPool> }
   pub fn make(pool: Option<usize>) -> Box<dyn Driver> {
      let pool = pool.map(|n| ascent::rayon::ThreadPoolBuilder::new().num_threads(n).build().unwrap());
      let p = match &pool { Some(pl) => pl.install(|| Default::default()), None => Default::default() };
      Box::new(Inst { p, pool })
   }
   impl Driver for Inst {
      fn load(&mut self, rel: usize, rows: &[Sexp], append: bool) -> Option<()> {
         match rel {
         0 => { let v: Vec<(i64,)> = parse_rows(rows)?; if append { self.p.r0.extend(v) } else { self.p.r0 = v } },
         1 => { let v: Vec<(i64,i64,)> = parse_rows(rows)?; if append { self.p.r1.extend(v) } else { self.p.r1 = v } },
         2 => { let v: Vec<(i64,i64,i64,)> = parse_rows(rows)?; if append { self.p.r2.extend(v) } else { self.p.r2 = v } },
         3 => { let v: Vec<(i64,i64,)> = parse_rows(rows)?; if append { self.p.r3.extend(v) } else { self.p.r3 = v } },
         4 => { let v: Vec<(i64,i64,)> = parse_rows(rows)?; if append { self.p.r4.extend(v) } else { self.p.r4 = v } },
         5 => { let v: Vec<(i64,i64,i64,)> = parse_rows(rows)?; if append { self.p.r5.extend(v) } else { self.p.r5 = v } },
            _ => return None,
         }
         Some(())
      }
      fn run(&mut self) { match &self.pool { Some(pl) => { let p = &mut self.p; pl.install(|| p.run()) }, None => self.p.run() } }
      fn run_here(&mut self) { self.p.run() }
      fn run_timeout(&mut self, k: usize) -> Option<bool> { let _ = k; None }
      fn dump(&self) -> String { vec![dump_rel(0, self.p.r0.iter().map(Row::render).collect()), dump_rel(1, self.p.r1.iter().map(Row::render).collect()), dump_rel(2, self.p.r2.iter().map(Row::render).collect()), dump_rel(3, self.p.r3.iter().map(Row::render).collect()), dump_rel(4, self.p.r4.iter().map(Row::render).collect()), dump_rel(5, self.p.r5.iter().map(Row::render).collect())].join(" | ") }
      fn iters(&self) -> String { format!("iters {}", self.p.scc_iters.iter().map(|x| x.to_string()).collect::<Vec<_>>().join(" ")) }
   }
}

#[allow(unused, non_snake_case, clippy::all)]
pub mod p102 {
   use ascent::*;
   use ascent::aggregators::*;
   use ascent::lattice::{Dual, set::Set};
   use crate::common::*;
   ascent! {
      pub struct Prog;
      relation r0(i64, i64);
      relation r1(i64, i64);
      relation r2(i64, i64);
      r2(v0, v1) <-- r1(v0, v1), r2(v1, v1);
      r2(v3, v2) <-- r1(v0, v1) if ((*v0) != 2) let v2 = ((*v1) + 1), r1(v1, 3) if ((*v0) != 3) let v3 = ((*v1) + 0), r2((v3 + 1), v0), if (v3 <= 6), if (v2 <= 6);
      r2(v1, v1) <-- r2(3, v0), r1(v1, v0), r2(v2, v0);
      r2(((*v0) + 1), ((*v1) + 1)) <-- r2(v0, v1), r0(((*v1) + 1), v2) if ((*v0) < 3), if ((*v0) < 6), if ((*v1) < 6);
      r2(v1, v0) <-- r1(3, 3), r2(v0, v1), r2(v2, v1);
   }
   pub struct Inst { p: Prog, pool: Option<ascent::rayon::ThreadPool> }
   pub fn make(pool: Option<usize>) -> Box<dyn Driver> {
      let pool = pool.map(|n| ascent::rayon::ThreadPoolBuilder::new().num_threads(n).build().unwrap());
      let p = match &pool { Some(pl) => pl.install(|| Default::default()), None => Default::default() };
      Box::new(Inst { p, pool })
   }
   impl Driver for Inst {
      fn load(&mut self, rel: usize, rows: &[Sexp], append: bool) -> Option<()> {
         match rel {
         0 => { let v: Vec<(i64,i64,)> = parse_rows(rows)?; if append { self.p.r0.extend(v) } else { self.p.r0 = v } },
         1 => { let v: Vec<(i64,i64,)> = parse_rows(rows)?; if append { self.p.r1.extend(v) } else { self.p.r1 = v } },
         2 => { let v: Vec<(i64,i64,)> = parse_rows(rows)?; if append { self.p.r2.extend(v) } else { self.p.r2 = v } },
            _ => return None,
         }
         Some(())
      }
      fn run(&mut self) { match &self.pool { Some(pl) => { let p = &mut self.p; pl.install(|| p.run()) }, None => self.p.run() } }
      fn run_here(&mut self) { self.p.run() }
      fn run_timeout(&mut self, k: usize) -> Option<bool> { let _ = k; None }
      fn dump(&self) -> String { vec![dump_rel(0, self.p.r0.iter().map(Row::render).collect()), dump_rel(1, self.p.r1.iter().map(Row::render).collect()), dump_rel(2, self.p.r2.iter().map(Row::render).collect())].join(" | ") }
      fn iters(&self) -> String { format!("iters {}", self.p.scc_iters.iter().map(|x| x.to_string()).collect::<Vec<_>>().join(" ")) }
   }
}

#[allow(unused, non_snake_case, clippy::all)]
pub mod p110 {
   use ascent::*;
   use ascent::aggregators::*;
   use ascent::lattice::{Dual, set::Set};
   use crate::common::*;
   ascent! {
      pub struct Prog;
      relation r0(i64, i64, i64);
      relation r1(i64, i64);
      relation r2(i64);
      relation r3(i64, i64);
      r3(v1, v0) <-- if let Some(v0) = Some(4), r0(v0, v1, v0), if (v0 <= 6);
      r3(v0, v0) <-- r3(v0, v1), r3(((*v0) + 1), ((*v0) + 1)) if ((*v1) <= 4) let v2 = ((*v1) + 1);
      r3(v0, v2) <-- r1(v0, v1), r3(v1, v2), r1(v2, v3);
      r3(v0, v1) <-- for v9 in 0..3, r3(v0, v1), r3(v9, v1);
      r1(2, 0);
   }
   pub struct Inst { p: Prog, pool: Option<ascent::rayon::ThreadPool> }
   pub fn make(pool: Option<usize>) -> Box<dyn Driver> {
      let pool = pool.map(|n| ascent::rayon::ThreadPoolBuilder::new().num_threads(n).build().unwrap());
      let p = match &pool { Some(pl) => pl.install(|| Default::default()), None => Default::default() };
      Box::new(Inst { p, pool })
   }
   impl Driver for Inst {
      fn load(&mut self, rel: usize, rows: &[Sexp], append: bool) -> Option<()> {
         match rel {
         0 => { let v: Vec<(i64,i64,i64,)> = parse_rows(rows)?; if append { self.p.r0.extend(v) } else { self.p.r0 = v } },
         1 => { let v: Vec<(i64,i64,)> = parse_rows(rows)?; if append { self.p.r1.extend(v) } else { self.p.r1 = v } },
         2 => { let v: Vec<(i64,)> = parse_rows(rows)?; if append { self.p.r2.extend(v) } else { self.p.r2 = v } },
         3 => { let v: Vec<(i64,i64,)> = parse_rows(rows)?; if append { self.p.r3.extend(v) } else { self.p.r3 = v } },
            _ => return None,
         }
         Some(())
      }
      fn run(&mut self) { match &self.pool { Some(pl) => { let p = &mut self.p; pl.install(|| p.run()) }, None => self.p.run() } }
      fn run_here(&mut self) { self.p.run() }
      fn run_timeout(&mut self, k: usize) -> Option<bool> { let _ = k; None }
      fn dump(&self) -> String { vec![dump_rel(0, self.p.r0.iter().map(Row::render).collect()), dump_rel(1, self.p.r1.iter().map(Row::render).collect()), dump_rel(2, self.p.r2.iter().map(Row::render).collect()), dump_rel(3, self.p.r3.iter().map(Row::render).collect())].join(" | ") }
      fn iters(&self) -> String { format!("iters {}", self.p.scc_iters.iter().map(|x| x.to_string()).collect::<Vec<_>>().join(" ")) }
   }
}

#[allow(unused, non_snake_case, clippy::all)]
pub mod p118 {
   use ascent::*;
   use ascent::aggregators::*;
   use ascent::lattice::{Dual, set::Set};
   use crate::common::*;
   ascent! {
      pub struct Prog;
      relation r0(i64, i64, i64);
      relation r1(i64, i64);
      relation r2(i64, i64, i64);
      r2(v2, v0, v0) <-- r0(v0, v1, v2);
      r2(((*v3) + 1), ((*v1) + 1), v3) <-- r2(v0, 3, v1), r2(v2, v3, ((*v1) + 0)), if ((*v3) < 6), if ((*v1) < 6);
      r1(v0, v1) <-- r1(v0, v1), r1(v1, v1);
      r2(((*v0) + 1), v0, v1) <-- r0(v0, v1, v2), if ((*v0) < 6);
   }
   pub struct Inst { p: Prog, pool: Option<ascent::rayon::ThreadPool> }
   pub fn make(pool: Option<usize>) -> Box<dyn Driver> {
      let pool = pool.map(|n| ascent::rayon::ThreadPoolBuilder::new().num_threads(n).build().unwrap());
      let p = match &pool { Some(pl) => pl.install(|| Default::default()), None => Default::default() };
      Box::new(Inst { p, pool })
   }
   impl Driver for Inst {
      fn load(&mut self, rel: usize, rows: &[Sexp], append: bool) -> Option<()> {
         match rel {
         0 => { let v: Vec<(i64,i64,i64,)> = parse_rows(rows)?; if append { self.p.r0.extend(v) } else { self.p.r0 = v } },
         1 => { let v: Vec<(i64,i64,)> = parse_rows(rows)?; if append { self.p.r1.extend(v) } else { self.p.r1 = v } },
         2 => { let v: Vec<(i64,i64,i64,)> = parse_rows(rows)?; if append { self.p.r2.extend(v) } else { self.p.r2 = v } },
            _ => return None,
         }
         Some(())
      }
      fn run(&mut self) { match &self.pool { Some(pl) => { let p = &mut self.p; pl.install(|| p.run()) }, None => self.p.run() } }
      fn run_here(&mut self) { self.p.run() }
      fn run_timeout(&mut self, k: usize) -> Option<bool> { let _ = k; None }
      fn dump(&self) -> String { vec![dump_rel(0, self.p.r0.iter().map(Row::render).collect()), dump_rel(1, self.p.r1.iter().map(Row::render).collect()), dump_rel(2, self.p.r2.iter().map(Row::render).collect())].join(" | ") }
      fn iters(&self) -> String { format!("iters {}", self.p.scc_iters.iter().map(|x| x.to_string()).collect::<Vec<_>>().join(" ")) }
   }
}

fn main() {
   common::main_loop(&[("p6", p6::make as common::Factory), ("p14", p14::make as common::Factory), ("p22", p22::make as common::Factory), ("p30", p30::make as common::Factory), ("p38", p38::make as common::Factory), ("p46", p46::make as common::Factory), ("p54", p54::make as common::Factory), ("p62", p62::make as common::Factory), ("p70", p70::make as common::Factory), ("p78", p78::make as common::Factory), ("p86", p86::make as common::Factory), ("p94", p94::make as common::Factory), ("p102", p102::make as common::Factory), ("p110", p110::make as common::Factory), ("p118", p118::make as common::Factory)]);
}
