#[path = "common.rs"]
mod common;
#[allow(unused, non_snake_case, clippy::all)]
pub mod m0_ren1 {
   use ascent::*;
   use ascent::aggregators::*;
   use ascent::lattice::{Dual, set::Set};
   use crate::common::*;
   ascent! {
      pub struct Prog;
      relation edge(i64);
      relation path(i64, i64);
      relation node(i64, i64, i64);
      relation foo(i64, i64, i64);
      relation bar(i64, i64, i64);
      relation baz(i64, i64);
      node(b, a, b) <-- if let Some(a) = Some(4), path(b, c), if (a <= 6);
      foo(a, (a + 1), a) <-- let a = 2, path(b, a) if ((*b) < 1), if (a <= 6), if (a < 6);
      bar(a, b, (a + 1)) <-- if let Some(a) = None::<i64>, node(a, (a + 0), a), foo(b, a, a), if (a <= 6), if (a < 6);
      node(a, k, m) <-- if let Some(m) = Some(2), path(a, b), baz(b, m) let k = ((*a) + 1);
      foo(a, b, c) <-- baz(a, b) if ((*a) < 4), path(b, c) if ((*c) != (*b));
      baz((a + 1), a) <-- for a in [3, 4], if (a < 6);
   }
   pub struct Inst { p: Prog, pool: Option<ascent::rayon::ThreadPool> }
   pub fn make(pool: Option<usize>) -> Box<dyn Driver> {
      let pool = pool.map(|n| ascent::rayon::ThreadPoolBuilder::new().num_threads(n).build().unwrap());
      let p = match &pool { Some(pl) => pl.install(|| Default::default()), None => Default::default() };
      Box::new(Inst { p, pool })
   }
   impl Driver for Inst {
      fn load(&mut self, rel: usize, rows: &[Sexp], append: bool) -> Option<()> {
         match rel {
         0 => { let v: Vec<(i64,)> = parse_rows(rows)?; if append { self.p.edge.extend(v) } else { self.p.edge = v } },
         1 => { let v: Vec<(i64,i64,)> = parse_rows(rows)?; if append { self.p.path.extend(v) } else { self.p.path = v } },
         2 => { let v: Vec<(i64,i64,i64,)> = parse_rows(rows)?; if append { self.p.node.extend(v) } else { self.p.node = v } },
         3 => { let v: Vec<(i64,i64,i64,)> = parse_rows(rows)?; if append { self.p.foo.extend(v) } else { self.p.foo = v } },
         4 => { let v: Vec<(i64,i64,i64,)> = parse_rows(rows)?; if append { self.p.bar.extend(v) } else { self.p.bar = v } },
         5 => { let v: Vec<(i64,i64,)> = parse_rows(rows)?; if append { self.p.baz.extend(v) } else { self.p.baz = v } },
            _ => return None,
         }
         Some(())
      }
      fn run(&mut self) { match &self.pool { Some(pl) => { let p = &mut self.p; pl.install(|| p.run()) }, None => self.p.run() } }
      fn run_here(&mut self) { self.p.run() }
      fn run_timeout(&mut self, k: usize) -> Option<bool> { let _ = k; None }
      fn dump(&self) -> String { vec![dump_rel(0, self.p.edge.iter().map(Row::render).collect()), dump_rel(1, self.p.path.iter().map(Row::render).collect()), dump_rel(2, self.p.node.iter().map(Row::render).collect()), dump_rel(3, self.p.foo.iter().map(Row::render).collect()), dump_rel(4, self.p.bar.iter().map(Row::render).collect()), dump_rel(5, self.p.baz.iter().map(Row::render).collect())].join(" | ") }
      fn iters(&self) -> String { format!("iters {}", self.p.scc_iters.iter().map(|x| x.to_string()).collect::<Vec<_>>().join(" ")) }
   }
}

#[allow(unused, non_snake_case, clippy::all)]
pub mod m2_perm1 {
   use ascent::*;
   use ascent::aggregators::*;
   use ascent::lattice::{Dual, set::Set};
   use crate::common::*;
   ascent! {
      pub struct Prog;
      relation r0(i64, i64);
      relation r1(i64);
      relation r2(i64);
      relation r3(i64, i64);
      relation r5(i64, i64);
      relation r4(i64, i64);
      r2(v2) <-- r0(0, v0) if ((*v0) <= 6) let v1 = ((*v0) + 0), let v2 = 1, if (v2 <= 6);
      r5(((*v0) + 1), v0) <-- r5(v0, v1), if ((*v0) < 6);
      r2(3) <-- r3(v0, v1);
      r3(v0, v2) <-- r3(0, 0), r4(0, v0) if ((*v0) <= 3), r3(((*v0) + 0), v1), if let Some(v2) = Some(((*v0) + 0)), if (v2 <= 6);
      r2(v0) <-- r5(v0, v1), r5(v0, v0), r5(v1, v2);
      r4(v2, v1) <-- r2(v1) if ((*v1) < 5), r1(v2) if ((*v2) != 3), if let Some(v0) = Some(0);
      r4(v0, v1) <-- r0(v0, v1), r3(v0, v0), r0(v1, v2);
      r3(0, v1) <-- for v0 in 2..1, r2(v0) if (v0 < 6), r1(v1);
   }
   pub struct Inst { p: Prog, pool: Option<ascent::rayon::ThreadPool> }
   pub fn make(pool: Option<usize>) -> Box<dyn Driver> {
      let pool = pool.map(|n| ascent::rayon::ThreadPoolBuilder::new().num_threads(n).build().unwrap());
      let p = match &pool { Some(pl) => pl.install(|| Default::default()), None => Default::default() };
      Box::new(Inst { p, pool })
   }
   impl Driver for Inst {
      fn load(&mut self, rel: usize, rows: &[Sexp], append: bool) -> Option<()> {
         match rel {
         0 => { let v: Vec<(i64,i64,)> = parse_rows(rows)?; if append { self.p.r0.extend(v) } else { self.p.r0 = v } },
         1 => { let v: Vec<(i64,)> = parse_rows(rows)?; if append { self.p.r1.extend(v) } else { self.p.r1 = v } },
         2 => { let v: Vec<(i64,)> = parse_rows(rows)?; if append { self.p.r2.extend(v) } else { self.p.r2 = v } },
         3 => { let v: Vec<(i64,i64,)> = parse_rows(rows)?; if append { self.p.r3.extend(v) } else { self.p.r3 = v } },
         4 => { let v: Vec<(i64,i64,)> = parse_rows(rows)?; if append { self.p.r4.extend(v) } else { self.p.r4 = v } },
         5 => { let v: Vec<(i64,i64,)> = parse_rows(rows)?; if append { self.p.r5.extend(v) } else { self.p.r5 = v } },
            _ => return None,
         }
         Some(())
      }
      fn run(&mut self) { match &self.pool { Some(pl) => { let p = &mut self.p; pl.install(|| p.run()) }, None => self.p.run() } }
      fn run_here(&mut self) { self.p.run() }
      fn run_timeout(&mut self, k: usize) -> Option<bool> { let _ = k; None }
      fn dump(&self) -> String { vec![dump_rel(0, self.p.r0.iter().map(Row::render).collect()), dump_rel(1, self.p.r1.iter().map(Row::render).collect()), dump_rel(2, self.p.r2.iter().map(Row::render).collect()), dump_rel(3, self.p.r3.iter().map(Row::render).collect()), dump_rel(4, self.p.r4.iter().map(Row::render).collect()), dump_rel(5, self.p.r5.iter().map(Row::render).collect())].join(" | ") }
      fn iters(&self) -> String { format!("iters {}", self.p.scc_iters.iter().map(|x| x.to_string()).collect::<Vec<_>>().join(" ")) }
   }
}

#[allow(unused, non_snake_case, clippy::all)]
pub mod m4 {
   use ascent::*;
   use ascent::aggregators::*;
   use ascent::lattice::{Dual, set::Set};
   use crate::common::*;
   ascent! {
      pub struct Prog;
      relation r0(i64, i64);
      relation r1(i64);
      relation r2(i64, i64, i64);
      relation r3(i64, i64, i64);
      r3(v0, 0, 0) <-- if let Some(v0) = Some(3), r1(v0) if (v0 <= 2), if (v0 <= 6);
      r3(v0, v2, v2) <-- if let Some(v0) = Some(4), r3(v1, v0, v2), r1(((*v1) + 1)), if (v0 <= 6);
      r2(v0, v1, v2) <-- r0(v0, v1) if ((*v0) < 5), r0(v1, v2) if ((*v2) != (*v1));
      r2(v0, v0, v0) <-- r1(3), let v0 = 3, if (v0 <= 6);
   }
   pub struct Inst { p: Prog, pool: Option<ascent::rayon::ThreadPool> }
   pub fn make(pool: Option<usize>) -> Box<dyn Driver> {
      let pool = pool.map(|n| ascent::rayon::ThreadPoolBuilder::new().num_threads(n).build().unwrap());
      let p = match &pool { Some(pl) => pl.install(|| Default::default()), None => Default::default() };
      Box::new(Inst { p, pool })
   }
   impl Driver for Inst {
      fn load(&mut self, rel: usize, rows: &[Sexp], append: bool) -> Option<()> {
         match rel {
         0 => { let v: Vec<(i64,i64,)> = parse_rows(rows)?; if append { self.p.r0.extend(v) } else { self.p.r0 = v } },
         1 => { let v: Vec<(i64,)> = parse_rows(rows)?; if append { self.p.r1.extend(v) } else { self.p.r1 = v } },
         2 => { let v: Vec<(i64,i64,i64,)> = parse_rows(rows)?; if append { self.p.r2.extend(v) } else { self.p.r2 = v } },
         3 => { let v: Vec<(i64,i64,i64,)> = parse_rows(rows)?; if append { self.p.r3.extend(v) } else { self.p.r3 = v } },
            _ => return None,
         }
         Some(())
      }
      fn run(&mut self) { match &self.pool { Some(pl) => { let p = &mut self.p; pl.install(|| p.run()) }, None => self.p.run() } }
      fn run_here(&mut self) { self.p.run() }
      fn run_timeout(&mut self, k: usize) -> Option<bool> { let _ = k; None }
      fn dump(&self) -> String { vec![dump_rel(0, self.p.r0.iter().map(Row::render).collect()), dump_rel(1, self.p.r1.iter().map(Row::render).collect()), dump_rel(2, self.p.r2.iter().map(Row::render).collect()), dump_rel(3, self.p.r3.iter().map(Row::render).collect())].join(" | ") }
      fn iters(&self) -> String { format!("iters {}", self.p.scc_iters.iter().map(|x| x.to_string()).collect::<Vec<_>>().join(" ")) }
   }
}

#[allow(unused, non_snake_case, clippy::all)]
pub mod m5_ren0 {
   use ascent::*;
   use ascent::aggregators::*;
   use ascent::lattice::{Dual, set::Set};
   use crate::common::*;
   ascent! {
      pub struct Prog;
      relation rel0_(i64, i64);
      relation rel1_(i64, i64);
      relation rel2_(i64, i64);
      rel2_(x0_, x1_) <-- rel2_(x0_, x1_), rel2_(x1_, x1_), if ((*x1_) != 2);
      rel2_(x1_, x1_) <-- rel0_(x0_, x1_), rel2_(x0_, x2_);
   }
   pub struct Inst { p: Prog, pool: Option<ascent::rayon::ThreadPool> }
   pub fn make(pool: Option<usize>) -> Box<dyn Driver> {
      let pool = pool.map(|n| ascent::rayon::ThreadPoolBuilder::new().num_threads(n).build().unwrap());
      let p = match &pool { Some(pl) => pl.install(|| Default::default()), None => Default::default() };
      Box::new(Inst { p, pool })
   }
   impl Driver for Inst {
      fn load(&mut self, rel: usize, rows: &[Sexp], append: bool) -> Option<()> {
         match rel {
         0 => { let v: Vec<(i64,i64,)> = parse_rows(rows)?; if append { self.p.rel0_.extend(v) } else { self.p.rel0_ = v } },
         1 => { let v: Vec<(i64,i64,)> = parse_rows(rows)?; if append { self.p.rel1_.extend(v) } else { self.p.rel1_ = v } },
         2 => { let v: Vec<(i64,i64,)> = parse_rows(rows)?; if append { self.p.rel2_.extend(v) } else { self.p.rel2_ = v } },
            _ => return None,
         }
         Some(())
      }
      fn run(&mut self) { match &self.pool { Some(pl) => { let p = &mut self.p; pl.install(|| p.run()) }, None => self.p.run() } }
      fn run_here(&mut self) { self.p.run() }
      fn run_timeout(&mut self, k: usize) -> Option<bool> { let _ = k; None }
      fn dump(&self) -> String { vec![dump_rel(0, self.p.rel0_.iter().map(Row::render).collect()), dump_rel(1, self.p.rel1_.iter().map(Row::render).collect()), dump_rel(2, self.p.rel2_.iter().map(Row::render).collect())].join(" | ") }
      fn iters(&self) -> String { format!("iters {}", self.p.scc_iters.iter().map(|x| x.to_string()).collect::<Vec<_>>().join(" ")) }
   }
}

#[allow(unused, non_snake_case, clippy::all)]
pub mod m6_ren1 {
   use ascent::*;
   use ascent::aggregators::*;
   use ascent::lattice::{Dual, set::Set};
   use crate::common::*;
   ascent! {
      pub struct Prog;
      relation edge(i64, i64);
      relation path(i64, i64);
      relation node(i64, i64);
      node(1, a) <-- path(a, b);
      node(a, a) <-- node(3, a), node(a, b);
      node(a, b) <-- node(a, b), node(b, b);
      node(a, c) <-- path(a, b), node(b, c), path(c, d);
      node(a, b) <-- edge(a, b), if ((*a) == 3);
      path(1, 0);
   }
   pub struct Inst { p: Prog, pool: Option<ascent::rayon::ThreadPool> }
   pub fn make(pool: Option<usize>) -> Box<dyn Driver> {
      let pool = pool.map(|n| ascent::rayon::ThreadPoolBuilder::new().num_threads(n).build().unwrap());
      let p = match &pool { Some(pl) => pl.install(|| Default::default()), None => Default::default() };
      Box::new(Inst { p, pool })
   }
   impl Driver for Inst {
      fn load(&mut self, rel: usize, rows: &[Sexp], append: bool) -> Option<()> {
         match rel {
         0 => { let v: Vec<(i64,i64,)> = parse_rows(rows)?; if append { self.p.edge.extend(v) } else { self.p.edge = v } },
         1 => { let v: Vec<(i64,i64,)> = parse_rows(rows)?; if append { self.p.path.extend(v) } else { self.p.path = v } },
         2 => { let v: Vec<(i64,i64,)> = parse_rows(rows)?; if append { self.p.node.extend(v) } else { self.p.node = v } },
            _ => return None,
         }
         Some(())
      }
      fn run(&mut self) { match &self.pool { Some(pl) => { let p = &mut self.p; pl.install(|| p.run()) }, None => self.p.run() } }
      fn run_here(&mut self) { self.p.run() }
      fn run_timeout(&mut self, k: usize) -> Option<bool> { let _ = k; None }
      fn dump(&self) -> String { vec![dump_rel(0, self.p.edge.iter().map(Row::render).collect()), dump_rel(1, self.p.path.iter().map(Row::render).collect()), dump_rel(2, self.p.node.iter().map(Row::render).collect())].join(" | ") }
      fn iters(&self) -> String { format!("iters {}", self.p.scc_iters.iter().map(|x| x.to_string()).collect::<Vec<_>>().join(" ")) }
   }
}

#[allow(unused, non_snake_case, clippy::all)]
pub mod m7_i32 {
   use ascent::*;
   use ascent::aggregators::*;
   use ascent::lattice::{Dual, set::Set};
   use crate::common::*;
   ascent! {
      pub struct Prog;
      relation r0(i32, i32);
      relation r1(i32, i32);
      relation r2(i32, i32);
      relation r3(i32);
      r1(v0, v0) <-- r0(v0, v1), if ((*v0) != 100021);
      r2(v1, v1) <-- r0(v0, v1);
      r3(100014) <-- r1(100000, v0), r2(v1, v2), if ((*v0) != 100014);
      r1(v0, v1) <-- r0(v0, v1), r2(v0, v0), r0(v1, v2), if ((*v2) == 100007);
      r1(v0, v2) <-- r0(v0, v1), r1(v1, v2), r0(v2, v3);
      r3(v1) <-- r0(v0, v1), if ((*v0) == 100000);
      r1(100007, 100014);
      r1(100007, 100021);
   }
   pub struct Inst { p: Prog, pool: Option<ascent::rayon::ThreadPool> }
   pub fn make(pool: Option<usize>) -> Box<dyn Driver> {
      let pool = pool.map(|n| ascent::rayon::ThreadPoolBuilder::new().num_threads(n).build().unwrap());
      let p = match &pool { Some(pl) => pl.install(|| Default::default()), None => Default::default() };
      Box::new(Inst { p, pool })
   }
   impl Driver for Inst {
      fn load(&mut self, rel: usize, rows: &[Sexp], append: bool) -> Option<()> {
         match rel {
         0 => { let v: Vec<(i32,i32,)> = parse_rows(rows)?; if append { self.p.r0.extend(v) } else { self.p.r0 = v } },
         1 => { let v: Vec<(i32,i32,)> = parse_rows(rows)?; if append { self.p.r1.extend(v) } else { self.p.r1 = v } },
         2 => { let v: Vec<(i32,i32,)> = parse_rows(rows)?; if append { self.p.r2.extend(v) } else { self.p.r2 = v } },
         3 => { let v: Vec<(i32,)> = parse_rows(rows)?; if append { self.p.r3.extend(v) } else { self.p.r3 = v } },
            _ => return None,
         }
         Some(())
      }
      fn run(&mut self) { match &self.pool { Some(pl) => { let p = &mut self.p; pl.install(|| p.run()) }, None => self.p.run() } }
      fn run_here(&mut self) { self.p.run() }
      fn run_timeout(&mut self, k: usize) -> Option<bool> { let _ = k; None }
      fn dump(&self) -> String { vec![dump_rel(0, self.p.r0.iter().map(Row::render).collect()), dump_rel(1, self.p.r1.iter().map(Row::render).collect()), dump_rel(2, self.p.r2.iter().map(Row::render).collect()), dump_rel(3, self.p.r3.iter().map(Row::render).collect())].join(" | ") }
      fn iters(&self) -> String { format!("iters {}", self.p.scc_iters.iter().map(|x| x.to_string()).collect::<Vec<_>>().join(" ")) }
   }
}

#[allow(unused, non_snake_case, clippy::all)]
pub mod m8_str {
   use ascent::*;
   use ascent::aggregators::*;
   use ascent::lattice::{Dual, set::Set};
   use crate::common::*;
   ascent! {
      pub struct Prog;
      relation r0(String);
      relation r1(String, String);
      relation r2(String, String, String);
      relation r3(String, String);
      relation r4(String);
      r1(v0, v0) <-- r0(v0), if (v0.clone() != "s0".to_string());
      r1(v1, v0) <-- r1(v0, v1), r0(v0);
      r4(v0) <-- r3(v0, v1), r1(v1, v2), if (v2.clone() == "s0".to_string());
      r3(v1, v0) <-- r2("s0".to_string(), v0, v1), if (v1.clone() == "s2".to_string());
   }
   pub struct Inst { p: Prog, pool: Option<ascent::rayon::ThreadPool> }
   pub fn make(pool: Option<usize>) -> Box<dyn Driver> {
      let pool = pool.map(|n| ascent::rayon::ThreadPoolBuilder::new().num_threads(n).build().unwrap());
      let p = match &pool { Some(pl) => pl.install(|| Default::default()), None => Default::default() };
      Box::new(Inst { p, pool })
   }
   impl Driver for Inst {
      fn load(&mut self, rel: usize, rows: &[Sexp], append: bool) -> Option<()> {
         match rel {
         0 => { let v: Vec<(String,)> = parse_rows(rows)?; if append { self.p.r0.extend(v) } else { self.p.r0 = v } },
         1 => { let v: Vec<(String,String,)> = parse_rows(rows)?; if append { self.p.r1.extend(v) } else { self.p.r1 = v } },
         2 => { let v: Vec<(String,String,String,)> = parse_rows(rows)?; if append { self.p.r2.extend(v) } else { self.p.r2 = v } },
         3 => { let v: Vec<(String,String,)> = parse_rows(rows)?; if append { self.p.r3.extend(v) } else { self.p.r3 = v } },
         4 => { let v: Vec<(String,)> = parse_rows(rows)?; if append { self.p.r4.extend(v) } else { self.p.r4 = v } },
            _ => return None,
         }
         Some(())
      }
      fn run(&mut self) { match &self.pool { Some(pl) => { let p = &mut self.p; pl.install(|| p.run()) }, None => self.p.run() } }
      fn run_here(&mut self) { self.p.run() }
      fn run_timeout(&mut self, k: usize) -> Option<bool> { let _ = k; None }
      fn dump(&self) -> String { vec![dump_rel(0, self.p.r0.iter().map(Row::render).collect()), dump_rel(1, self.p.r1.iter().map(Row::render).collect()), dump_rel(2, self.p.r2.iter().map(Row::render).collect()), dump_rel(3, self.p.r3.iter().map(Row::render).collect()), dump_rel(4, self.p.r4.iter().map(Row::render).collect())].join(" | ") }
      fn iters(&self) -> String { format!("iters {}", self.p.scc_iters.iter().map(|x| x.to_string()).collect::<Vec<_>>().join(" ")) }
   }
}

#[allow(unused, non_snake_case, clippy::all)]
pub mod m10 {
   use ascent::*;
   use ascent::aggregators::*;
   use ascent::lattice::{Dual, set::Set};
   use crate::common::*;
   ascent! {
      pub struct Prog;
      relation r0(i64, i64);
      relation r1(i64, i64);
      relation r2(i64);
      relation r3(i64, i64, i64);
      r1(((*v1) + 1), v1) <-- for v0 in 2..3, r0(v1, v0) if ((*v1) != 3), if ((*v1) < 6);
      r2(v0) <-- r0(v0, 3);
      r3(v3, v3, v1) <-- if let Some(v0) = Some(2), r1(v1, v2), r2(v3);
      r1(v0, v1) <-- r0(v0, v1), r0(v0, v0), r0(v1, v2);
      r2(v0) <-- r0(v0, v1), r0(v1, v1);
      r1(v0, v0) <-- r0(v0, 3);
   }
   pub struct Inst { p: Prog, pool: Option<ascent::rayon::ThreadPool> }
   pub fn make(pool: Option<usize>) -> Box<dyn Driver> {
      let pool = pool.map(|n| ascent::rayon::ThreadPoolBuilder::new().num_threads(n).build().unwrap());
      let p = match &pool { Some(pl) => pl.install(|| Default::default()), None => Default::default() };
      Box::new(Inst { p, pool })
   }
   impl Driver for Inst {
      fn load(&mut self, rel: usize, rows: &[Sexp], append: bool) -> Option<()> {
         match rel {
         0 => { let v: Vec<(i64,i64,)> = parse_rows(rows)?; if append { self.p.r0.extend(v) } else { self.p.r0 = v } },
         1 => { let v: Vec<(i64,i64,)> = parse_rows(rows)?; if append { self.p.r1.extend(v) } else { self.p.r1 = v } },
         2 => { let v: Vec<(i64,)> = parse_rows(rows)?; if append { self.p.r2.extend(v) } else { self.p.r2 = v } },
         3 => { let v: Vec<(i64,i64,i64,)> = parse_rows(rows)?; if append { self.p.r3.extend(v) } else { self.p.r3 = v } },
            _ => return None,
         }
         Some(())
      }
      fn run(&mut self) { match &self.pool { Some(pl) => { let p = &mut self.p; pl.install(|| p.run()) }, None => self.p.run() } }
      fn run_here(&mut self) { self.p.run() }
      fn run_timeout(&mut self, k: usize) -> Option<bool> { let _ = k; None }
      fn dump(&self) -> String { vec![dump_rel(0, self.p.r0.iter().map(Row::render).collect()), dump_rel(1, self.p.r1.iter().map(Row::render).collect()), dump_rel(2, self.p.r2.iter().map(Row::render).collect()), dump_rel(3, self.p.r3.iter().map(Row::render).collect())].join(" | ") }
      fn iters(&self) -> String { format!("iters {}", self.p.scc_iters.iter().map(|x| x.to_string()).collect::<Vec<_>>().join(" ")) }
   }
}

#[allow(unused, non_snake_case, clippy::all)]
pub mod m11_ren0 {
   use ascent::*;
   use ascent::aggregators::*;
   use ascent::lattice::{Dual, set::Set};
   use crate::common::*;
   ascent! {
      pub struct Prog;
      relation rel0_(i64, i64);
      relation rel1_(i64, i64);
      relation rel2_(i64, i64);
      rel2_(x0_, x1_) <-- rel2_(x0_, x1_), rel0_(x0_, x0_), rel2_(x1_, x2_);
      rel2_(1, x0_) <-- if let Some(x0_) = Some(3), rel1_(x0_, x1_), rel0_(x0_, x0_), for x2_ in 0..4, if (x0_ <= 6);
   }
   pub struct Inst { p: Prog, pool: Option<ascent::rayon::ThreadPool> }
   pub fn make(pool: Option<usize>) -> Box<dyn Driver> {
      let pool = pool.map(|n| ascent::rayon::ThreadPoolBuilder::new().num_threads(n).build().unwrap());
      let p = match &pool { Some(pl) => pl.install(|| Default::default()), None => Default::default() };
      Box::new(Inst { p, pool })
   }
   impl Driver for Inst {
      fn load(&mut self, rel: usize, rows: &[Sexp], append: bool) -> Option<()> {
         match rel {
         0 => { let v: Vec<(i64,i64,)> = parse_rows(rows)?; if append { self.p.rel0_.extend(v) } else { self.p.rel0_ = v } },
         1 => { let v: Vec<(i64,i64,)> = parse_rows(rows)?; if append { self.p.rel1_.extend(v) } else { self.p.rel1_ = v } },
         2 => { let v: Vec<(i64,i64,)> = parse_rows(rows)?; if append { self.p.rel2_.extend(v) } else { self.p.rel2_ = v } },
            _ => return None,
         }
         Some(())
      }
      fn run(&mut self) { match &self.pool { Some(pl) => { let p = &mut self.p; pl.install(|| p.run()) }, None => self.p.run() } }
      fn run_here(&mut self) { self.p.run() }
      fn run_timeout(&mut self, k: usize) -> Option<bool> { let _ = k; None }
      fn dump(&self) -> String { vec![dump_rel(0, self.p.rel0_.iter().map(Row::render).collect()), dump_rel(1, self.p.rel1_.iter().map(Row::render).collect()), dump_rel(2, self.p.rel2_.iter().map(Row::render).collect())].join(" | ") }
      fn iters(&self) -> String { format!("iters {}", self.p.scc_iters.iter().map(|x| x.to_string()).collect::<Vec<_>>().join(" ")) }
   }
}

fn main() {
   common::main_loop(&[("m0_ren1", m0_ren1::make as common::Factory), ("m2_perm1", m2_perm1::make as common::Factory), ("m4", m4::make as common::Factory), ("m5_ren0", m5_ren0::make as common::Factory), ("m6_ren1", m6_ren1::make as common::Factory), ("m7_i32", m7_i32::make as common::Factory), ("m8_str", m8_str::make as common::Factory), ("m10", m10::make as common::Factory), ("m11_ren0", m11_ren0::make as common::Factory)]);
}
