#[path = "common.rs"]
mod common;
#[allow(unused, non_snake_case, clippy::all)]
pub mod a6 {
   use ascent::*;
   use ascent::aggregators::*;
   use ascent::lattice::{Dual, set::Set};
   use crate::common::*;
   ascent! {
      pub struct Prog;
      relation r0(i64, i64, i64);
      relation r1(i64);
      relation r2(i64, i64);
      relation r3(i64, i64);
      relation r4(i64);
      relation r5(i64, i64);
      relation r6(i64, i64);
      r2(((*v1) + 1), v0) <-- let v0 = 2, r1(v1) if (v0 != 1), r2(((*v1) + 0), v1), if ((*v1) < 6), if (v0 <= 6);
      r3(v0, v1) <-- let v0 = 0, r2((v0 + 0), v0), r1(v1), if (v0 <= 6);
      r3(v0, v1) <-- r3(v0, v1), r2(v1, v1);
      r2(v0, v1) <-- r3(v0, v1) if ((*v0) < 3), r3(v1, v2) if ((*v2) != (*v1));
      r3(v1, ((*v1) + 1)) <-- if let Some(v0) = Some(2), r3((v0 + 0), v1), r0(v1, v1, v2) if ((*v2) <= 1), if ((*v1) < 6);
      r3(v1, (v0 + 1)) <-- if let Some(v0) = Some(0), r0(v0, 0, v1), if (v0 < 6);
      r4(v32) <-- r3(v0, v1), r2(v32, v33), agg v21 = count() in r2((*v1), (*v0));
      r5(v0, v21) <-- r1(v0), agg v21 = min(v20) in r0(v20, _, (*v0));
      r6(v0, v21) <-- r3(v0, v1), r1(v32), agg v21 = sum(v20) in r1(v20);
   }
   pub struct Inst { p: Prog, pool: Option<ascent::rayon::ThreadPool> }
   pub fn make(pool: Option<usize>) -> Box<dyn Driver> {
      let pool = pool.map(|n| ascent::rayon::ThreadPoolBuilder::new().num_threads(n).build().unwrap());
      let p = match &pool { Some(pl) => pl.install(|| Default::default()), None => Default::default() };
      Box::new(Inst { p, pool })
   }
   impl Driver for Inst {
      fn load(&mut self, rel: usize, rows: &[Sexp], append: bool) -> Option<()> {
         match rel {
         0 => { let v: Vec<(i64,i64,i64,)> = parse_rows(rows)?; if append { self.p.r0.extend(v) } else { self.p.r0 = v } },
         1 => { let v: Vec<(i64,)> = parse_rows(rows)?; if append { self.p.r1.extend(v) } else { self.p.r1 = v } },
         2 => { let v: Vec<(i64,i64,)> = parse_rows(rows)?; if append { self.p.r2.extend(v) } else { self.p.r2 = v } },
         3 => { let v: Vec<(i64,i64,)> = parse_rows(rows)?; if append { self.p.r3.extend(v) } else { self.p.r3 = v } },
         4 => { let v: Vec<(i64,)> = parse_rows(rows)?; if append { self.p.r4.extend(v) } else { self.p.r4 = v } },
         5 => { let v: Vec<(i64,i64,)> = parse_rows(rows)?; if append { self.p.r5.extend(v) } else { self.p.r5 = v } },
         6 => { let v: Vec<(i64,i64,)> = parse_rows(rows)?; if append { self.p.r6.extend(v) } else { self.p.r6 = v } },
            _ => return None,
         }
         Some(())
      }
      fn run(&mut self) { match &self.pool { Some(pl) => { let p = &mut self.p; pl.install(|| p.run()) }, None => self.p.run() } }
      fn run_here(&mut self) { self.p.run() }
      fn run_timeout(&mut self, k: usize) -> Option<bool> { let _ = k; None }
      fn dump(&self) -> String { vec![dump_rel(0, self.p.r0.iter().map(Row::render).collect()), dump_rel(1, self.p.r1.iter().map(Row::render).collect()), dump_rel(2, self.p.r2.iter().map(Row::render).collect()), dump_rel(3, self.p.r3.iter().map(Row::render).collect()), dump_rel(4, self.p.r4.iter().map(Row::render).collect()), dump_rel(5, self.p.r5.iter().map(Row::render).collect()), dump_rel(6, self.p.r6.iter().map(Row::render).collect())].join(" | ") }
      fn iters(&self) -> String { format!("iters {}", self.p.scc_iters.iter().map(|x| x.to_string()).collect::<Vec<_>>().join(" ")) }
   }
}

#[allow(unused, non_snake_case, clippy::all)]
pub mod a14 {
   use ascent::*;
   use ascent::aggregators::*;
   use ascent::lattice::{Dual, set::Set};
   use crate::common::*;
   ascent! {
      pub struct Prog;
      relation r0(i64, i64, i64);
      relation r1(i64, i64, i64);
      relation r2(i64, i64, i64);
      relation r3(i64, i64);
      relation r4(i64, i64);
      r2(v0, v2, v1) <-- if let Some(v0) = Some(4), r1(2, v1, v2), r3(v1, v3), if (v0 <= 6);
      r3(v2, v0) <-- r2(v0, v1, v2);
      r2(v0, v8, v9) <-- if let Some(v9) = Some(1), r3(v0, v1), r3(v1, v9) let v8 = ((*v0) + 1);
      r3(v0, v8) <-- if let Some(v9) = Some(0), r3(v0, v1), r3(v1, v9) let v8 = ((*v0) + 1);
      r3(0, v0) <-- r2(v0, v1, 1), r2(2, ((*v0) + 0), v0), r3(((*v0) + 0), 2);
      r3(v0, v0) <-- r3(0, 1), r1(v0, 0, v1), r2(v0, v2, 1);
      r4(v34, v21) <-- r3(v0, v1), r1(v1, v1, v32), r0(v0, v33, v34), agg v21 = max(v20) in r0((*v33), v20, (*v33));
   }
   pub struct Inst { p: Prog, pool: Option<ascent::rayon::ThreadPool> }
   pub fn make(pool: Option<usize>) -> Box<dyn Driver> {
      let pool = pool.map(|n| ascent::rayon::ThreadPoolBuilder::new().num_threads(n).build().unwrap());
      let p = match &pool { Some(pl) => pl.install(|| Default::default()), None => Default::default() };
      Box::new(Inst { p, pool })
   }
   impl Driver for Inst {
      fn load(&mut self, rel: usize, rows: &[Sexp], append: bool) -> Option<()> {
         match rel {
         0 => { let v: Vec<(i64,i64,i64,)> = parse_rows(rows)?; if append { self.p.r0.extend(v) } else { self.p.r0 = v } },
         1 => { let v: Vec<(i64,i64,i64,)> = parse_rows(rows)?; if append { self.p.r1.extend(v) } else { self.p.r1 = v } },
         2 => { let v: Vec<(i64,i64,i64,)> = parse_rows(rows)?; if append { self.p.r2.extend(v) } else { self.p.r2 = v } },
         3 => { let v: Vec<(i64,i64,)> = parse_rows(rows)?; if append { self.p.r3.extend(v) } else { self.p.r3 = v } },
         4 => { let v: Vec<(i64,i64,)> = parse_rows(rows)?; if append { self.p.r4.extend(v) } else { self.p.r4 = v } },
            _ => return None,
         }
         Some(())
      }
      fn run(&mut self) { match &self.pool { Some(pl) => { let p = &mut self.p; pl.install(|| p.run()) }, None => self.p.run() } }
      fn run_here(&mut self) { self.p.run() }
      fn run_timeout(&mut self, k: usize) -> Option<bool> { let _ = k; None }
      fn dump(&self) -> String { vec![dump_rel(0, self.p.r0.iter().map(Row::render).collect()), dump_rel(1, self.p.r1.iter().map(Row::render).collect()), dump_rel(2, self.p.r2.iter().map(Row::render).collect()), dump_rel(3, self.p.r3.iter().map(Row::render).collect()), dump_rel(4, self.p.r4.iter().map(Row::render).collect())].join(" | ") }
      fn iters(&self) -> String { format!("iters {}", self.p.scc_iters.iter().map(|x| x.to_string()).collect::<Vec<_>>().join(" ")) }
   }
}

fn main() {
   common::main_loop(&[("a6", a6::make as common::Factory), ("a14", a14::make as common::Factory)]);
}
