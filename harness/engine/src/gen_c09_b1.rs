#[path = "common.rs"]
mod common;
#[allow(unused, non_snake_case, clippy::all)]
pub mod k0_run {
   use ascent::*;
   use ascent::aggregators::*;
   use ascent::lattice::{Dual, set::Set};
   use crate::common::*;
   #[derive(Default)]
   pub struct Inst {
      pub in0: Vec<(i64,i64,)>, pub out0: Vec<(i64,i64,)>,
      pub in1: Vec<(i64,)>, pub out1: Vec<(i64,)>,
      pub in2: Vec<(i64,i64,i64,)>, pub out2: Vec<(i64,i64,i64,)>,
   }
   pub fn make(_pool: Option<usize>) -> Box<dyn Driver> { Box::new(Inst::default()) }
   impl Inst {
      fn go(&mut self) {
         let in0 = self.in0.clone();
         let in1 = self.in1.clone();
         let in2 = self.in2.clone();
         let res = ascent_run! {
            struct Prog;
            relation r0(i64, i64) = in0;
            relation r1(i64) = in1;
            relation r2(i64, i64, i64) = in2;
            r2(v1, v1, v1) <-- if let Some(v0) = Some(1), r0(v1, v0);
            r2(v0, v8, v9) <-- if let Some(v9) = Some(0), r0(v0, v1), r0(v1, v9) let v8 = ((*v0) + 1);
            r2(v0, v1, v0) <-- r0(v0, v1), r0(v1, v1);
            r2(1, v2, v0) <-- if let Some(v0) = Some(3), r0(v1, 2) if ((*v1) != 3) let v2 = ((*v1) + 1), if (v2 <= 6), if (v0 <= 6);
            r2(3, v1, v1) <-- r0(v0, v1), r1(((*v1) + 0)) if ((*v0) <= 2), r1(v1);
            r1(v2) <-- if let Some(v0) = Some(2), r2((v0 + 0), v1, v0), for v2 in 0..2, r0(((*v1) + 0), v3);
            r2(v0, v0, v0) <-- r1(v0);
         };
         self.out0 = res.r0.iter().cloned().collect();
         self.out1 = res.r1.iter().cloned().collect();
         self.out2 = res.r2.iter().cloned().collect();
      }
   }

   impl Driver for Inst {
      fn load(&mut self, rel: usize, rows: &[Sexp], append: bool) -> Option<()> {
         match rel {
            0 => { let v: Vec<(i64,i64,)> = parse_rows(rows)?; if append { self.in0.extend(v) } else { self.in0 = v } },
            1 => { let v: Vec<(i64,)> = parse_rows(rows)?; if append { self.in1.extend(v) } else { self.in1 = v } },
            2 => { let v: Vec<(i64,i64,i64,)> = parse_rows(rows)?; if append { self.in2.extend(v) } else { self.in2 = v } },
            _ => return None,
         }
         Some(())
      }
      fn run(&mut self) { self.go() }
      fn run_here(&mut self) { self.go() }
      fn run_timeout(&mut self, _k: usize) -> Option<bool> { None }
      fn dump(&self) -> String { vec![dump_rel(0, self.out0.iter().map(Row::render).collect()), dump_rel(1, self.out1.iter().map(Row::render).collect()), dump_rel(2, self.out2.iter().map(Row::render).collect())].join(" | ") }
      fn iters(&self) -> String { "iters".into() }
   }
}

#[allow(unused, non_snake_case, clippy::all)]
pub mod k0_incfirst {
   use ascent::*;
   use ascent::aggregators::*;
   use ascent::lattice::{Dual, set::Set};
   use crate::common::*;
   ascent_source! { k0_incfirst_src:
      r2(v1, v1, v1) <-- if let Some(v0) = Some(1), r0(v1, v0);
      r2(v0, v8, v9) <-- if let Some(v9) = Some(0), r0(v0, v1), r0(v1, v9) let v8 = ((*v0) + 1);
      r2(v0, v1, v0) <-- r0(v0, v1), r0(v1, v1);
   }
   ascent! {
      pub struct Prog;
      relation r0(i64, i64);
      relation r1(i64);
      relation r2(i64, i64, i64);
      include_source!(k0_incfirst_src);
      r2(1, v2, v0) <-- if let Some(v0) = Some(3), r0(v1, 2) if ((*v1) != 3) let v2 = ((*v1) + 1), if (v2 <= 6), if (v0 <= 6);
      r2(3, v1, v1) <-- r0(v0, v1), r1(((*v1) + 0)) if ((*v0) <= 2), r1(v1);
      r1(v2) <-- if let Some(v0) = Some(2), r2((v0 + 0), v1, v0), for v2 in 0..2, r0(((*v1) + 0), v3);
      r2(v0, v0, v0) <-- r1(v0);
   }
   pub struct Inst { p: Prog, pool: Option<ascent::rayon::ThreadPool> }
   pub fn make(pool: Option<usize>) -> Box<dyn Driver> {
      let pool = pool.map(|n| ascent::rayon::ThreadPoolBuilder::new().num_threads(n).build().unwrap());
      let p = match &pool { Some(pl) => pl.install(|| Default::default()), None => Default::default() };
      Box::new(Inst { p, pool })
   }
   impl Driver for Inst {
      fn load(&mut self, rel: usize, rows: &[Sexp], append: bool) -> Option<()> {
         match rel {
         0 => { let v: Vec<(i64,i64,)> = parse_rows(rows)?; if append { self.p.r0.extend(v) } else { self.p.r0 = v } },
         1 => { let v: Vec<(i64,)> = parse_rows(rows)?; if append { self.p.r1.extend(v) } else { self.p.r1 = v } },
         2 => { let v: Vec<(i64,i64,i64,)> = parse_rows(rows)?; if append { self.p.r2.extend(v) } else { self.p.r2 = v } },
            _ => return None,
         }
         Some(())
      }
      fn run(&mut self) { match &self.pool { Some(pl) => { let p = &mut self.p; pl.install(|| p.run()) }, None => self.p.run() } }
      fn run_here(&mut self) { self.p.run() }
      fn run_timeout(&mut self, k: usize) -> Option<bool> { let _ = k; None }
      fn dump(&self) -> String { vec![dump_rel(0, self.p.r0.iter().map(Row::render).collect()), dump_rel(1, self.p.r1.iter().map(Row::render).collect()), dump_rel(2, self.p.r2.iter().map(Row::render).collect())].join(" | ") }
      fn iters(&self) -> String { format!("iters {}", self.p.scc_iters.iter().map(|x| x.to_string()).collect::<Vec<_>>().join(" ")) }
   }
}

#[allow(unused, non_snake_case, clippy::all)]
pub mod k1_grt {
   use ascent::*;
   use ascent::aggregators::*;
   use ascent::lattice::{Dual, set::Set};
   use crate::common::*;
   ascent! {
      #![generate_run_timeout]
      pub struct Prog;
      relation r0(i64, i64, i64);
      relation r1(i64, i64);
      relation r2(i64, i64);
      relation r3(i64, i64);
      r1(((*v1) + 1), v1) <-- r0(v0, 1, v1) if ((*v1) <= 6) let v2 = ((*v0) + 1), if ((*v1) < 6);
      r2(0, 3) <-- r1(2, 1);
      r3(v3, v2) <-- if let Some(v0) = None::<i64>, r2(v1, v0), if (v0 < 5), r1(v2, v3);
      r2(v0, v2) <-- r2(v0, v1), r2(v1, v2), r3(v2, v3);
      r1(v0, v1) <-- r2(v0, v1), r1(((*v0) + 1), v2);
      r3(v0, v0) <-- if let Some(v0) = Some(0), r3(v0, (v0 + 1)), if (v0 <= 6);
      r1(v0, v0) <-- r0(v0, 0, 1);
      r1(v3, v1) <-- for v0 in [0], r1(v1, v0), r3(v0, v2), r1(v3, v4), for v5 in [4, 2, 1];
   }
   pub struct Inst { p: Prog, pool: Option<ascent::rayon::ThreadPool> }
   pub fn make(pool: Option<usize>) -> Box<dyn Driver> {
      let pool = pool.map(|n| ascent::rayon::ThreadPoolBuilder::new().num_threads(n).build().unwrap());
      let p = match &pool { Some(pl) => pl.install(|| Default::default()), None => Default::default() };
      Box::new(Inst { p, pool })
   }
   impl Driver for Inst {
      fn load(&mut self, rel: usize, rows: &[Sexp], append: bool) -> Option<()> {
         match rel {
         0 => { let v: Vec<(i64,i64,i64,)> = parse_rows(rows)?; if append { self.p.r0.extend(v) } else { self.p.r0 = v } },
         1 => { let v: Vec<(i64,i64,)> = parse_rows(rows)?; if append { self.p.r1.extend(v) } else { self.p.r1 = v } },
         2 => { let v: Vec<(i64,i64,)> = parse_rows(rows)?; if append { self.p.r2.extend(v) } else { self.p.r2 = v } },
         3 => { let v: Vec<(i64,i64,)> = parse_rows(rows)?; if append { self.p.r3.extend(v) } else { self.p.r3 = v } },
            _ => return None,
         }
         Some(())
      }
      fn run(&mut self) { match &self.pool { Some(pl) => { let p = &mut self.p; pl.install(|| p.run()) }, None => self.p.run() } }
      fn run_here(&mut self) { self.p.run() }
      fn run_timeout(&mut self, k: usize) -> Option<bool> { ascent::internal::verif::arm_deadline(k); let r = self.p.run_timeout(std::time::Duration::from_secs(1)); ascent::internal::verif::disarm(); Some(r) }
      fn dump(&self) -> String { vec![dump_rel(0, self.p.r0.iter().map(Row::render).collect()), dump_rel(1, self.p.r1.iter().map(Row::render).collect()), dump_rel(2, self.p.r2.iter().map(Row::render).collect()), dump_rel(3, self.p.r3.iter().map(Row::render).collect())].join(" | ") }
      fn iters(&self) -> String { format!("iters {}", self.p.scc_iters.iter().map(|x| x.to_string()).collect::<Vec<_>>().join(" ")) }
   }
}

#[allow(unused, non_snake_case, clippy::all)]
pub mod k1_init {
   use ascent::*;
   use ascent::aggregators::*;
   use ascent::lattice::{Dual, set::Set};
   use crate::common::*;
   ascent! {
      pub struct Prog;
      relation r0(i64, i64, i64) = vec![(5,3,1,), (6,3,4,), (4,1,0,), (6,3,1,), (6,4,5,), (0,4,0,)];
      relation r1(i64, i64) = vec![(1,0,), (6,4,)];
      relation r2(i64, i64) = vec![(6,2,), (2,0,), (4,0,), (0,2,), (6,4,), (1,2,), (0,5,), (0,1,), (5,6,), (5,2,), (1,0,), (0,3,), (5,4,), (6,6,), (6,1,), (3,2,), (5,0,), (0,4,), (4,6,), (3,6,), (2,5,), (5,3,), (2,6,), (1,6,), (2,2,), (3,3,), (5,1,)];
      relation r3(i64, i64) = vec![(4,1,)];
      r1(((*v1) + 1), v1) <-- r0(v0, 1, v1) if ((*v1) <= 6) let v2 = ((*v0) + 1), if ((*v1) < 6);
      r2(0, 3) <-- r1(2, 1);
      r3(v3, v2) <-- if let Some(v0) = None::<i64>, r2(v1, v0), if (v0 < 5), r1(v2, v3);
      r2(v0, v2) <-- r2(v0, v1), r2(v1, v2), r3(v2, v3);
      r1(v0, v1) <-- r2(v0, v1), r1(((*v0) + 1), v2);
      r3(v0, v0) <-- if let Some(v0) = Some(0), r3(v0, (v0 + 1)), if (v0 <= 6);
      r1(v0, v0) <-- r0(v0, 0, 1);
      r1(v3, v1) <-- for v0 in [0], r1(v1, v0), r3(v0, v2), r1(v3, v4), for v5 in [4, 2, 1];
   }
   pub struct Inst { p: Prog, pool: Option<ascent::rayon::ThreadPool> }
   pub fn make(pool: Option<usize>) -> Box<dyn Driver> {
      let pool = pool.map(|n| ascent::rayon::ThreadPoolBuilder::new().num_threads(n).build().unwrap());
      let p = match &pool { Some(pl) => pl.install(|| Default::default()), None => Default::default() };
      Box::new(Inst { p, pool })
   }
   impl Driver for Inst {
      fn load(&mut self, rel: usize, rows: &[Sexp], append: bool) -> Option<()> {
         match rel {
         0 => { let v: Vec<(i64,i64,i64,)> = parse_rows(rows)?; if append { self.p.r0.extend(v) } else { self.p.r0 = v } },
         1 => { let v: Vec<(i64,i64,)> = parse_rows(rows)?; if append { self.p.r1.extend(v) } else { self.p.r1 = v } },
         2 => { let v: Vec<(i64,i64,)> = parse_rows(rows)?; if append { self.p.r2.extend(v) } else { self.p.r2 = v } },
         3 => { let v: Vec<(i64,i64,)> = parse_rows(rows)?; if append { self.p.r3.extend(v) } else { self.p.r3 = v } },
            _ => return None,
         }
         Some(())
      }
      fn run(&mut self) { match &self.pool { Some(pl) => { let p = &mut self.p; pl.install(|| p.run()) }, None => self.p.run() } }
      fn run_here(&mut self) { self.p.run() }
      fn run_timeout(&mut self, k: usize) -> Option<bool> { let _ = k; None }
      fn dump(&self) -> String { vec![dump_rel(0, self.p.r0.iter().map(Row::render).collect()), dump_rel(1, self.p.r1.iter().map(Row::render).collect()), dump_rel(2, self.p.r2.iter().map(Row::render).collect()), dump_rel(3, self.p.r3.iter().map(Row::render).collect())].join(" | ") }
      fn iters(&self) -> String { format!("iters {}", self.p.scc_iters.iter().map(|x| x.to_string()).collect::<Vec<_>>().join(" ")) }
   }
}

#[allow(unused, non_snake_case, clippy::all)]
pub mod k2_redecl {
   use ascent::*;
   use ascent::aggregators::*;
   use ascent::lattice::{Dual, set::Set};
   use crate::common::*;
   ascent! {
      pub struct Prog;
      relation r0(i64, i64);
      relation r1(i64, i64);
      relation r2(i64, i64);
      relation r3(i64, i64);
      relation r4(i64, i64) = vec![(9,9,)];
      relation r4(i64, i64);
      r2(v0, v1) <-- r4(v0, v1), r1(v1, v1);
      r3(3, 0);
      r1(v0, v0) <-- r4(v0, 3), if let Some(v1) = None::<i64>, r4(v1, v2);
      r3(v2, v1) <-- if let Some(v0) = None::<i64>, r2(v1, 2), if ((*v1) != 4), r3(v2, v1) if ((*v2) != 2);
   }
   pub struct Inst { p: Prog, pool: Option<ascent::rayon::ThreadPool> }
   pub fn make(pool: Option<usize>) -> Box<dyn Driver> {
      let pool = pool.map(|n| ascent::rayon::ThreadPoolBuilder::new().num_threads(n).build().unwrap());
      let p = match &pool { Some(pl) => pl.install(|| Default::default()), None => Default::default() };
      Box::new(Inst { p, pool })
   }
   impl Driver for Inst {
      fn load(&mut self, rel: usize, rows: &[Sexp], append: bool) -> Option<()> {
         match rel {
         0 => { let v: Vec<(i64,i64,)> = parse_rows(rows)?; if append { self.p.r0.extend(v) } else { self.p.r0 = v } },
         1 => { let v: Vec<(i64,i64,)> = parse_rows(rows)?; if append { self.p.r1.extend(v) } else { self.p.r1 = v } },
         2 => { let v: Vec<(i64,i64,)> = parse_rows(rows)?; if append { self.p.r2.extend(v) } else { self.p.r2 = v } },
         3 => { let v: Vec<(i64,i64,)> = parse_rows(rows)?; if append { self.p.r3.extend(v) } else { self.p.r3 = v } },
         4 => { let v: Vec<(i64,i64,)> = parse_rows(rows)?; if append { self.p.r4.extend(v) } else { self.p.r4 = v } },
            _ => return None,
         }
         Some(())
      }
      fn run(&mut self) { match &self.pool { Some(pl) => { let p = &mut self.p; pl.install(|| p.run()) }, None => self.p.run() } }
      fn run_here(&mut self) { self.p.run() }
      fn run_timeout(&mut self, k: usize) -> Option<bool> { let _ = k; None }
      fn dump(&self) -> String { vec![dump_rel(0, self.p.r0.iter().map(Row::render).collect()), dump_rel(1, self.p.r1.iter().map(Row::render).collect()), dump_rel(2, self.p.r2.iter().map(Row::render).collect()), dump_rel(3, self.p.r3.iter().map(Row::render).collect()), dump_rel(4, self.p.r4.iter().map(Row::render).collect())].join(" | ") }
      fn iters(&self) -> String { format!("iters {}", self.p.scc_iters.iter().map(|x| x.to_string()).collect::<Vec<_>>().join(" ")) }
   }
}

#[allow(unused, non_snake_case, clippy::all)]
pub mod k3_runpar {
   use ascent::*;
   use ascent::aggregators::*;
   use ascent::lattice::{Dual, set::Set};
   use crate::common::*;
   #[derive(Default)]
   pub struct Inst {
      pub in0: Vec<(i64,i64,)>, pub out0: Vec<(i64,i64,)>,
      pub in1: Vec<(i64,i64,)>, pub out1: Vec<(i64,i64,)>,
      pub in2: Vec<(i64,i64,)>, pub out2: Vec<(i64,i64,)>,
      pub in3: Vec<(i64,)>, pub out3: Vec<(i64,)>,
      pub in4: Vec<(i64,i64,i64,)>, pub out4: Vec<(i64,i64,i64,)>,
      pub in5: Vec<(i64,i64,)>, pub out5: Vec<(i64,i64,)>,
   }
   pub fn make(_pool: Option<usize>) -> Box<dyn Driver> { Box::new(Inst::default()) }
   impl Inst {
      fn go(&mut self) {
         let in0 = self.in0.clone();
         let in1 = self.in1.clone();
         let in2 = self.in2.clone();
         let in3 = self.in3.clone();
         let in4 = self.in4.clone();
         let in5 = self.in5.clone();
         let res = ascent_run_par! {
            struct Prog;
            relation r0(i64, i64) = in0.into_iter().collect();
            relation r1(i64, i64) = in1.into_iter().collect();
            relation r2(i64, i64) = in2.into_iter().collect();
            relation r3(i64) = in3.into_iter().collect();
            relation r4(i64, i64, i64) = in4.into_iter().collect();
            relation r5(i64, i64) = in5.into_iter().collect();
            r5(v0, v8) <-- if let Some(v9) = Some(3), r1(v0, v1), r2(v1, v9) let v8 = ((*v0) + 1);
            r3(1) <-- r1(v0, 3) if ((*v0) != 2), r0(v0, v1) if ((*v1) <= 4), r0(v2, ((*v1) + 0));
            r5(v3, v3) <-- r5(v0, v1) if ((*v1) < 6) let v2 = ((*v0) + 1), r3(v3) if (v2 <= 4);
         };
         self.out0 = res.r0.iter().cloned().collect();
         self.out1 = res.r1.iter().cloned().collect();
         self.out2 = res.r2.iter().cloned().collect();
         self.out3 = res.r3.iter().cloned().collect();
         self.out4 = res.r4.iter().cloned().collect();
         self.out5 = res.r5.iter().cloned().collect();
      }
   }

   impl Driver for Inst {
      fn load(&mut self, rel: usize, rows: &[Sexp], append: bool) -> Option<()> {
         match rel {
            0 => { let v: Vec<(i64,i64,)> = parse_rows(rows)?; if append { self.in0.extend(v) } else { self.in0 = v } },
            1 => { let v: Vec<(i64,i64,)> = parse_rows(rows)?; if append { self.in1.extend(v) } else { self.in1 = v } },
            2 => { let v: Vec<(i64,i64,)> = parse_rows(rows)?; if append { self.in2.extend(v) } else { self.in2 = v } },
            3 => { let v: Vec<(i64,)> = parse_rows(rows)?; if append { self.in3.extend(v) } else { self.in3 = v } },
            4 => { let v: Vec<(i64,i64,i64,)> = parse_rows(rows)?; if append { self.in4.extend(v) } else { self.in4 = v } },
            5 => { let v: Vec<(i64,i64,)> = parse_rows(rows)?; if append { self.in5.extend(v) } else { self.in5 = v } },
            _ => return None,
         }
         Some(())
      }
      fn run(&mut self) { self.go() }
      fn run_here(&mut self) { self.go() }
      fn run_timeout(&mut self, _k: usize) -> Option<bool> { None }
      fn dump(&self) -> String { vec![dump_rel(0, self.out0.iter().map(Row::render).collect()), dump_rel(1, self.out1.iter().map(Row::render).collect()), dump_rel(2, self.out2.iter().map(Row::render).collect()), dump_rel(3, self.out3.iter().map(Row::render).collect()), dump_rel(4, self.out4.iter().map(Row::render).collect()), dump_rel(5, self.out5.iter().map(Row::render).collect())].join(" | ") }
      fn iters(&self) -> String { "iters".into() }
   }
}

#[allow(unused, non_snake_case, clippy::all)]
pub mod k3_incmiddle {
   use ascent::*;
   use ascent::aggregators::*;
   use ascent::lattice::{Dual, set::Set};
   use crate::common::*;
   ascent_source! { k3_incmiddle_src:
      r5(v0, v8) <-- if let Some(v9) = Some(3), r1(v0, v1), r2(v1, v9) let v8 = ((*v0) + 1);
   }
   ascent! {
      pub struct Prog;
      relation r0(i64, i64);
      relation r1(i64, i64);
      relation r2(i64, i64);
      relation r3(i64);
      relation r4(i64, i64, i64);
      relation r5(i64, i64);
      r3(1) <-- r1(v0, 3) if ((*v0) != 2), r0(v0, v1) if ((*v1) <= 4), r0(v2, ((*v1) + 0));
      include_source!(k3_incmiddle_src);
      r5(v3, v3) <-- r5(v0, v1) if ((*v1) < 6) let v2 = ((*v0) + 1), r3(v3) if (v2 <= 4);
   }
   pub struct Inst { p: Prog, pool: Option<ascent::rayon::ThreadPool> }
   pub fn make(pool: Option<usize>) -> Box<dyn Driver> {
      let pool = pool.map(|n| ascent::rayon::ThreadPoolBuilder::new().num_threads(n).build().unwrap());
      let p = match &pool { Some(pl) => pl.install(|| Default::default()), None => Default::default() };
      Box::new(Inst { p, pool })
   }
   impl Driver for Inst {
      fn load(&mut self, rel: usize, rows: &[Sexp], append: bool) -> Option<()> {
         match rel {
         0 => { let v: Vec<(i64,i64,)> = parse_rows(rows)?; if append { self.p.r0.extend(v) } else { self.p.r0 = v } },
         1 => { let v: Vec<(i64,i64,)> = parse_rows(rows)?; if append { self.p.r1.extend(v) } else { self.p.r1 = v } },
         2 => { let v: Vec<(i64,i64,)> = parse_rows(rows)?; if append { self.p.r2.extend(v) } else { self.p.r2 = v } },
         3 => { let v: Vec<(i64,)> = parse_rows(rows)?; if append { self.p.r3.extend(v) } else { self.p.r3 = v } },
         4 => { let v: Vec<(i64,i64,i64,)> = parse_rows(rows)?; if append { self.p.r4.extend(v) } else { self.p.r4 = v } },
         5 => { let v: Vec<(i64,i64,)> = parse_rows(rows)?; if append { self.p.r5.extend(v) } else { self.p.r5 = v } },
            _ => return None,
         }
         Some(())
      }
      fn run(&mut self) { match &self.pool { Some(pl) => { let p = &mut self.p; pl.install(|| p.run()) }, None => self.p.run() } }
      fn run_here(&mut self) { self.p.run() }
      fn run_timeout(&mut self, k: usize) -> Option<bool> { let _ = k; None }
      fn dump(&self) -> String { vec![dump_rel(0, self.p.r0.iter().map(Row::render).collect()), dump_rel(1, self.p.r1.iter().map(Row::render).collect()), dump_rel(2, self.p.r2.iter().map(Row::render).collect()), dump_rel(3, self.p.r3.iter().map(Row::render).collect()), dump_rel(4, self.p.r4.iter().map(Row::render).collect()), dump_rel(5, self.p.r5.iter().map(Row::render).collect())].join(" | ") }
      fn iters(&self) -> String { format!("iters {}", self.p.scc_iters.iter().map(|x| x.to_string()).collect::<Vec<_>>().join(" ")) }
   }
}

#[allow(unused, non_snake_case, clippy::all)]
pub mod k4_both {
   use ascent::*;
   use ascent::aggregators::*;
   use ascent::lattice::{Dual, set::Set};
   use crate::common::*;
   ascent! {
      #![measure_rule_times]
      #![generate_run_timeout]
      pub struct Prog;
      relation r0(i64);
      relation r1(i64, i64);
      relation r2(i64, i64, i64);
      relation r3(i64, i64, i64);
      relation r4(i64);
      relation r5(i64, i64, i64);
      r2(3, 1, 1) <-- r0(0);
      r3(v2, v1, v2) <-- if let Some(v0) = Some(2), r0(v1), if let Some(v2) = Some((*v1)), if (v2 <= 6);
      r4(v0) <-- r2(3, v0, 1), r3(v1, v2, v3);
      r5(v0, v2, v3) <-- r1(v0, v1), r1(v1, v2), r1(v2, v3);
      r3(v0, v2, v3) <-- r1(v0, v1), r1(v1, v2), r1(v2, v3);
      r5(0, ((*v0) + 1), v0) <-- r3(0, 3, v0), if ((*v0) < 6);
   }
   pub struct Inst { p: Prog, pool: Option<ascent::rayon::ThreadPool> }
   pub fn make(pool: Option<usize>) -> Box<dyn Driver> {
      let pool = pool.map(|n| ascent::rayon::ThreadPoolBuilder::new().num_threads(n).build().unwrap());
      let p = match &pool { Some(pl) => pl.install(|| Default::default()), None => Default::default() };
      Box::new(Inst { p, pool })
   }
   impl Driver for Inst {
      fn load(&mut self, rel: usize, rows: &[Sexp], append: bool) -> Option<()> {
         match rel {
         0 => { let v: Vec<(i64,)> = parse_rows(rows)?; if append { self.p.r0.extend(v) } else { self.p.r0 = v } },
         1 => { let v: Vec<(i64,i64,)> = parse_rows(rows)?; if append { self.p.r1.extend(v) } else { self.p.r1 = v } },
         2 => { let v: Vec<(i64,i64,i64,)> = parse_rows(rows)?; if append { self.p.r2.extend(v) } else { self.p.r2 = v } },
         3 => { let v: Vec<(i64,i64,i64,)> = parse_rows(rows)?; if append { self.p.r3.extend(v) } else { self.p.r3 = v } },
         4 => { let v: Vec<(i64,)> = parse_rows(rows)?; if append { self.p.r4.extend(v) } else { self.p.r4 = v } },
         5 => { let v: Vec<(i64,i64,i64,)> = parse_rows(rows)?; if append { self.p.r5.extend(v) } else { self.p.r5 = v } },
            _ => return None,
         }
         Some(())
      }
      fn run(&mut self) { match &self.pool { Some(pl) => { let p = &mut self.p; pl.install(|| p.run()) }, None => self.p.run() } }
      fn run_here(&mut self) { self.p.run() }
      fn run_timeout(&mut self, k: usize) -> Option<bool> { ascent::internal::verif::arm_deadline(k); let r = self.p.run_timeout(std::time::Duration::from_secs(1)); ascent::internal::verif::disarm(); Some(r) }
      fn dump(&self) -> String { vec![dump_rel(0, self.p.r0.iter().map(Row::render).collect()), dump_rel(1, self.p.r1.iter().map(Row::render).collect()), dump_rel(2, self.p.r2.iter().map(Row::render).collect()), dump_rel(3, self.p.r3.iter().map(Row::render).collect()), dump_rel(4, self.p.r4.iter().map(Row::render).collect()), dump_rel(5, self.p.r5.iter().map(Row::render).collect())].join(" | ") }
      fn iters(&self) -> String { format!("iters {}", self.p.scc_iters.iter().map(|x| x.to_string()).collect::<Vec<_>>().join(" ")) }
   }
}

#[allow(unused, non_snake_case, clippy::all)]
pub mod k5 {
   use ascent::*;
   use ascent::aggregators::*;
   use ascent::lattice::{Dual, set::Set};
   use crate::common::*;
   ascent! {
      pub struct Prog;
      relation r0(i64);
      relation r1(i64, i64);
      relation r2(i64);
      r1(v0, v0) <-- r0(v0);
      r1(((*v1) + 1), v1) <-- r1(v0, 1), r1(v1, v0), if ((*v1) < 6);
      r2(v0) <-- if let Some(v9) = Some(0), r1(v0, v1), r1(v1, v9) let v8 = ((*v0) + 1);
      r1(v0, v0) <-- if let Some(v0) = Some(0), if (v0 <= 6);
      r2(v1) <-- r0(v0), for v1 in 0..1;
      r2(0);
      r1(v0, v1) <-- r2(v0), r0(v0), for v1 in [4, 4];
   }
   pub struct Inst { p: Prog, pool: Option<ascent::rayon::ThreadPool> }
   pub fn make(pool: Option<usize>) -> Box<dyn Driver> {
      let pool = pool.map(|n| ascent::rayon::ThreadPoolBuilder::new().num_threads(n).build().unwrap());
      let p = match &pool { Some(pl) => pl.install(|| Default::default()), None => Default::default() };
      Box::new(Inst { p, pool })
   }
   impl Driver for Inst {
      fn load(&mut self, rel: usize, rows: &[Sexp], append: bool) -> Option<()> {
         match rel {
         0 => { let v: Vec<(i64,)> = parse_rows(rows)?; if append { self.p.r0.extend(v) } else { self.p.r0 = v } },
         1 => { let v: Vec<(i64,i64,)> = parse_rows(rows)?; if append { self.p.r1.extend(v) } else { self.p.r1 = v } },
         2 => { let v: Vec<(i64,)> = parse_rows(rows)?; if append { self.p.r2.extend(v) } else { self.p.r2 = v } },
            _ => return None,
         }
         Some(())
      }
      fn run(&mut self) { match &self.pool { Some(pl) => { let p = &mut self.p; pl.install(|| p.run()) }, None => self.p.run() } }
      fn run_here(&mut self) { self.p.run() }
      fn run_timeout(&mut self, k: usize) -> Option<bool> { let _ = k; None }
      fn dump(&self) -> String { vec![dump_rel(0, self.p.r0.iter().map(Row::render).collect()), dump_rel(1, self.p.r1.iter().map(Row::render).collect()), dump_rel(2, self.p.r2.iter().map(Row::render).collect())].join(" | ") }
      fn iters(&self) -> String { format!("iters {}", self.p.scc_iters.iter().map(|x| x.to_string()).collect::<Vec<_>>().join(" ")) }
   }
}

#[allow(unused, non_snake_case, clippy::all)]
pub mod k5_gen {
   use ascent::*;
   use ascent::aggregators::*;
   use ascent::lattice::{Dual, set::Set};
   use crate::common::*;
   ascent! {
      pub struct Prog<T: Clone + Eq + std::hash::Hash>;
      relation zz_generic(T);
      relation r0(i64);
      relation r1(i64, i64);
      relation r2(i64);
      r1(v0, v0) <-- r0(v0);
      r1(((*v1) + 1), v1) <-- r1(v0, 1), r1(v1, v0), if ((*v1) < 6);
      r2(v0) <-- if let Some(v9) = Some(0), r1(v0, v1), r1(v1, v9) let v8 = ((*v0) + 1);
      r1(v0, v0) <-- if let Some(v0) = Some(0), if (v0 <= 6);
      r2(v1) <-- r0(v0), for v1 in 0..1;
      r2(0);
      r1(v0, v1) <-- r2(v0), r0(v0), for v1 in [4, 4];
   }
   pub struct Inst { p: Prog<String>, pool: Option<ascent::rayon::ThreadPool> }
   pub fn make(pool: Option<usize>) -> Box<dyn Driver> {
      let pool = pool.map(|n| ascent::rayon::ThreadPoolBuilder::new().num_threads(n).build().unwrap());
      let p = match &pool { Some(pl) => pl.install(|| Default::default()), None => Default::default() };
      Box::new(Inst { p, pool })
   }
   impl Driver for Inst {
      fn load(&mut self, rel: usize, rows: &[Sexp], append: bool) -> Option<()> {
         match rel {
         0 => { let v: Vec<(i64,)> = parse_rows(rows)?; if append { self.p.r0.extend(v) } else { self.p.r0 = v } },
         1 => { let v: Vec<(i64,i64,)> = parse_rows(rows)?; if append { self.p.r1.extend(v) } else { self.p.r1 = v } },
         2 => { let v: Vec<(i64,)> = parse_rows(rows)?; if append { self.p.r2.extend(v) } else { self.p.r2 = v } },
            _ => return None,
         }
         Some(())
      }
      fn run(&mut self) { match &self.pool { Some(pl) => { let p = &mut self.p; pl.install(|| p.run()) }, None => self.p.run() } }
      fn run_here(&mut self) { self.p.run() }
      fn run_timeout(&mut self, k: usize) -> Option<bool> { let _ = k; None }
      fn dump(&self) -> String { vec![dump_rel(0, self.p.r0.iter().map(Row::render).collect()), dump_rel(1, self.p.r1.iter().map(Row::render).collect()), dump_rel(2, self.p.r2.iter().map(Row::render).collect())].join(" | ") }
      fn iters(&self) -> String { format!("iters {}", self.p.scc_iters.iter().map(|x| x.to_string()).collect::<Vec<_>>().join(" ")) }
   }
}

#[allow(unused, non_snake_case, clippy::all)]
pub mod k6_mrt {
   use ascent::*;
   use ascent::aggregators::*;
   use ascent::lattice::{Dual, set::Set};
   use crate::common::*;
   ascent! {
      #![measure_rule_times]
      pub struct Prog;
      relation r0(i64);
      relation r1(i64, i64);
      relation r2(i64, i64);
      relation r3(i64, i64);
      relation r4(i64, i64);
      relation r5(i64);
      relation r6(i64);
      r1(v0, v1) <-- r2(v0, v1), r1(((*v0) + 1), v2);
      r1(v0, v1) <-- r1(v0, v1), r1(v1, v1);
      r1(v0, v0) <-- r0(v0) if ((*v0) < 5);
      r2(v2, v0) <-- if let Some(v0) = Some(1), r2((v0 + 1), (v0 + 1)) if (v0 <= 5), r1(v1, v2), if (v0 <= 6);
      r3(v0, v21) <-- r0(v0), agg v21 = min(v20) in r1((*v0), v20);
      r4(v0, v21) <-- r2(v0, v1), r0(v0), r0(v32), agg v21 = max(v20) in r3((*v32), v20);
      r5(v1) <-- r1(v0, v1), r1(v1, v0), r0(v1), agg v21 = sum(v20) in r1((*v1), v20);
      r6(v0) <-- r0(v0), r2(v31, v31), agg () = not() in r3((*v31), (*v0));
   }
   pub struct Inst { p: Prog, pool: Option<ascent::rayon::ThreadPool> }
   pub fn make(pool: Option<usize>) -> Box<dyn Driver> {
      let pool = pool.map(|n| ascent::rayon::ThreadPoolBuilder::new().num_threads(n).build().unwrap());
      let p = match &pool { Some(pl) => pl.install(|| Default::default()), None => Default::default() };
      Box::new(Inst { p, pool })
   }
   impl Driver for Inst {
      fn load(&mut self, rel: usize, rows: &[Sexp], append: bool) -> Option<()> {
         match rel {
         0 => { let v: Vec<(i64,)> = parse_rows(rows)?; if append { self.p.r0.extend(v) } else { self.p.r0 = v } },
         1 => { let v: Vec<(i64,i64,)> = parse_rows(rows)?; if append { self.p.r1.extend(v) } else { self.p.r1 = v } },
         2 => { let v: Vec<(i64,i64,)> = parse_rows(rows)?; if append { self.p.r2.extend(v) } else { self.p.r2 = v } },
         3 => { let v: Vec<(i64,i64,)> = parse_rows(rows)?; if append { self.p.r3.extend(v) } else { self.p.r3 = v } },
         4 => { let v: Vec<(i64,i64,)> = parse_rows(rows)?; if append { self.p.r4.extend(v) } else { self.p.r4 = v } },
         5 => { let v: Vec<(i64,)> = parse_rows(rows)?; if append { self.p.r5.extend(v) } else { self.p.r5 = v } },
         6 => { let v: Vec<(i64,)> = parse_rows(rows)?; if append { self.p.r6.extend(v) } else { self.p.r6 = v } },
            _ => return None,
         }
         Some(())
      }
      fn run(&mut self) { match &self.pool { Some(pl) => { let p = &mut self.p; pl.install(|| p.run()) }, None => self.p.run() } }
      fn run_here(&mut self) { self.p.run() }
      fn run_timeout(&mut self, k: usize) -> Option<bool> { let _ = k; None }
      fn dump(&self) -> String { vec![dump_rel(0, self.p.r0.iter().map(Row::render).collect()), dump_rel(1, self.p.r1.iter().map(Row::render).collect()), dump_rel(2, self.p.r2.iter().map(Row::render).collect()), dump_rel(3, self.p.r3.iter().map(Row::render).collect()), dump_rel(4, self.p.r4.iter().map(Row::render).collect()), dump_rel(5, self.p.r5.iter().map(Row::render).collect()), dump_rel(6, self.p.r6.iter().map(Row::render).collect())].join(" | ") }
      fn iters(&self) -> String { format!("iters {}", self.p.scc_iters.iter().map(|x| x.to_string()).collect::<Vec<_>>().join(" ")) }
   }
}

#[allow(unused, non_snake_case, clippy::all)]
pub mod k6_inclast {
   use ascent::*;
   use ascent::aggregators::*;
   use ascent::lattice::{Dual, set::Set};
   use crate::common::*;
   ascent_source! { k6_inclast_src:
      r1(v0, v1) <-- r2(v0, v1), r1(((*v0) + 1), v2);
      r1(v0, v1) <-- r1(v0, v1), r1(v1, v1);
      r1(v0, v0) <-- r0(v0) if ((*v0) < 5);
      r2(v2, v0) <-- if let Some(v0) = Some(1), r2((v0 + 1), (v0 + 1)) if (v0 <= 5), r1(v1, v2), if (v0 <= 6);
   }
   ascent! {
      pub struct Prog;
      relation r0(i64);
      relation r1(i64, i64);
      relation r2(i64, i64);
      relation r3(i64, i64);
      relation r4(i64, i64);
      relation r5(i64);
      relation r6(i64);
      r3(v0, v21) <-- r0(v0), agg v21 = min(v20) in r1((*v0), v20);
      r4(v0, v21) <-- r2(v0, v1), r0(v0), r0(v32), agg v21 = max(v20) in r3((*v32), v20);
      r5(v1) <-- r1(v0, v1), r1(v1, v0), r0(v1), agg v21 = sum(v20) in r1((*v1), v20);
      r6(v0) <-- r0(v0), r2(v31, v31), agg () = not() in r3((*v31), (*v0));
      include_source!(k6_inclast_src);
   }
   pub struct Inst { p: Prog, pool: Option<ascent::rayon::ThreadPool> }
   pub fn make(pool: Option<usize>) -> Box<dyn Driver> {
      let pool = pool.map(|n| ascent::rayon::ThreadPoolBuilder::new().num_threads(n).build().unwrap());
      let p = match &pool { Some(pl) => pl.install(|| Default::default()), None => Default::default() };
      Box::new(Inst { p, pool })
   }
   impl Driver for Inst {
      fn load(&mut self, rel: usize, rows: &[Sexp], append: bool) -> Option<()> {
         match rel {
         0 => { let v: Vec<(i64,)> = parse_rows(rows)?; if append { self.p.r0.extend(v) } else { self.p.r0 = v } },
         1 => { let v: Vec<(i64,i64,)> = parse_rows(rows)?; if append { self.p.r1.extend(v) } else { self.p.r1 = v } },
         2 => { let v: Vec<(i64,i64,)> = parse_rows(rows)?; if append { self.p.r2.extend(v) } else { self.p.r2 = v } },
         3 => { let v: Vec<(i64,i64,)> = parse_rows(rows)?; if append { self.p.r3.extend(v) } else { self.p.r3 = v } },
         4 => { let v: Vec<(i64,i64,)> = parse_rows(rows)?; if append { self.p.r4.extend(v) } else { self.p.r4 = v } },
         5 => { let v: Vec<(i64,)> = parse_rows(rows)?; if append { self.p.r5.extend(v) } else { self.p.r5 = v } },
         6 => { let v: Vec<(i64,)> = parse_rows(rows)?; if append { self.p.r6.extend(v) } else { self.p.r6 = v } },
            _ => return None,
         }
         Some(())
      }
      fn run(&mut self) { match &self.pool { Some(pl) => { let p = &mut self.p; pl.install(|| p.run()) }, None => self.p.run() } }
      fn run_here(&mut self) { self.p.run() }
      fn run_timeout(&mut self, k: usize) -> Option<bool> { let _ = k; None }
      fn dump(&self) -> String { vec![dump_rel(0, self.p.r0.iter().map(Row::render).collect()), dump_rel(1, self.p.r1.iter().map(Row::render).collect()), dump_rel(2, self.p.r2.iter().map(Row::render).collect()), dump_rel(3, self.p.r3.iter().map(Row::render).collect()), dump_rel(4, self.p.r4.iter().map(Row::render).collect()), dump_rel(5, self.p.r5.iter().map(Row::render).collect()), dump_rel(6, self.p.r6.iter().map(Row::render).collect())].join(" | ") }
      fn iters(&self) -> String { format!("iters {}", self.p.scc_iters.iter().map(|x| x.to_string()).collect::<Vec<_>>().join(" ")) }
   }
}

#[allow(unused, non_snake_case, clippy::all)]
pub mod k7_par {
   use ascent::*;
   use ascent::aggregators::*;
   use ascent::lattice::{Dual, set::Set};
   use crate::common::*;
   ascent_par! {
      pub struct Prog;
      relation r0(i64);
      relation r1(i64);
      relation r2(i64);
      relation r3(i64, i64);
      relation r4(i64, i64, i64);
      relation r5(i64);
      relation r6(i64);
      relation r7(i64);
      r3(1, 3) <-- r1(2);
      r3(v0, v1) <-- r3(1, 2), if let Some(v0) = Some(1), r3(v0, v1), if (v0 <= 6);
      r4(v0, v1, v9) <-- let v9 = 1, r3(v0, v1), r3(v1, v9);
      r2(v1) <-- let v0 = 4, r2((v0 + 1)) if (v0 < 3), r2(v1) if (v0 <= 5);
      r2(1) <-- r4(v0, v1, v2), r1(v3);
      r2(v1) <-- if let Some(v0) = Some(1), r0(v1), for v2 in 2..4, r0(v3) if (v0 < 2) let v4 = ((*v3) + 1);
      r3(1, (v1 + 1)) <-- r2(v0) if ((*v0) < 6) let v1 = ((*v0) + 1), if (v1 < 6);
      r5(v0) <-- r3(v0, v1), agg v21 = max(v20) in r3(v20, _);
      r6(v0) <-- r0(v0), agg () = not() in r3((*v0), (*v0));
      r7(v0) <-- r3(v0, v1), agg v21 = min(v20) in r0(v20);
   }
   pub struct Inst { p: Prog, pool: Option<ascent::rayon::ThreadPool> }
   pub fn make(pool: Option<usize>) -> Box<dyn Driver> {
      let pool = pool.map(|n| ascent::rayon::ThreadPoolBuilder::new().num_threads(n).build().unwrap());
      let p = match &pool { Some(pl) => pl.install(|| Default::default()), None => Default::default() };
      Box::new(Inst { p, pool })
   }
   impl Driver for Inst {
      fn load(&mut self, rel: usize, rows: &[Sexp], append: bool) -> Option<()> {
         match rel {
         0 => { let v: Vec<(i64,)> = parse_rows(rows)?; if !append { self.p.r0 = Default::default(); } for x in v { self.p.r0.push(x); } },
         1 => { let v: Vec<(i64,)> = parse_rows(rows)?; if !append { self.p.r1 = Default::default(); } for x in v { self.p.r1.push(x); } },
         2 => { let v: Vec<(i64,)> = parse_rows(rows)?; if !append { self.p.r2 = Default::default(); } for x in v { self.p.r2.push(x); } },
         3 => { let v: Vec<(i64,i64,)> = parse_rows(rows)?; if !append { self.p.r3 = Default::default(); } for x in v { self.p.r3.push(x); } },
         4 => { let v: Vec<(i64,i64,i64,)> = parse_rows(rows)?; if !append { self.p.r4 = Default::default(); } for x in v { self.p.r4.push(x); } },
         5 => { let v: Vec<(i64,)> = parse_rows(rows)?; if !append { self.p.r5 = Default::default(); } for x in v { self.p.r5.push(x); } },
         6 => { let v: Vec<(i64,)> = parse_rows(rows)?; if !append { self.p.r6 = Default::default(); } for x in v { self.p.r6.push(x); } },
         7 => { let v: Vec<(i64,)> = parse_rows(rows)?; if !append { self.p.r7 = Default::default(); } for x in v { self.p.r7.push(x); } },
            _ => return None,
         }
         Some(())
      }
      fn run(&mut self) { match &self.pool { Some(pl) => { let p = &mut self.p; pl.install(|| p.run()) }, None => self.p.run() } }
      fn run_here(&mut self) { self.p.run() }
      fn run_timeout(&mut self, k: usize) -> Option<bool> { let _ = k; None }
      fn dump(&self) -> String { vec![dump_rel(0, self.p.r0.iter().map(|x| x.render()).collect()), dump_rel(1, self.p.r1.iter().map(|x| x.render()).collect()), dump_rel(2, self.p.r2.iter().map(|x| x.render()).collect()), dump_rel(3, self.p.r3.iter().map(|x| x.render()).collect()), dump_rel(4, self.p.r4.iter().map(|x| x.render()).collect()), dump_rel(5, self.p.r5.iter().map(|x| x.render()).collect()), dump_rel(6, self.p.r6.iter().map(|x| x.render()).collect()), dump_rel(7, self.p.r7.iter().map(|x| x.render()).collect())].join(" | ") }
      fn iters(&self) -> String { format!("iters {}", self.p.scc_iters.iter().map(|x| x.to_string()).collect::<Vec<_>>().join(" ")) }
   }
}

fn main() {
   common::main_loop(&[("k0_run", k0_run::make as common::Factory), ("k0_incfirst", k0_incfirst::make as common::Factory), ("k1_grt", k1_grt::make as common::Factory), ("k1_init", k1_init::make as common::Factory), ("k2_redecl", k2_redecl::make as common::Factory), ("k3_runpar", k3_runpar::make as common::Factory), ("k3_incmiddle", k3_incmiddle::make as common::Factory), ("k4_both", k4_both::make as common::Factory), ("k5", k5::make as common::Factory), ("k5_gen", k5_gen::make as common::Factory), ("k6_mrt", k6_mrt::make as common::Factory), ("k6_inclast", k6_inclast::make as common::Factory), ("k7_par", k7_par::make as common::Factory)]);
}
