#[path = "common.rs"]
mod common;
#[allow(unused, non_snake_case, clippy::all)]
pub mod g0x {
   use ascent::*;
   use ascent::aggregators::*;
   use ascent::lattice::{Dual, set::Set};
   use crate::common::*;
   ascent! {
      pub struct Prog;
      relation r0(i64, i64);
      relation r1(i64, Option<i64>);
      relation r2(i64);
      relation r3(i64, i64, i64);
      relation r4(i64);
      relation r5(i64);
      relation r6(i64, i64);
      r4((v0.clone() + 1)) <-- r3(v1, v2, v0), if (v0.clone() < 5);
      r4((v0.clone() + 1)) <-- r3(v100, v0, v101) if (v101.clone() == v0.clone()), if (v0.clone() < 5);
      r5(v1) <-- r0(v0, v1), agg () = not() in r3(v1.clone(), v1.clone(), std::cmp::min(v1.clone(), 2)), r1(v2, v102) if let Some(v3) = v102.clone();
      r6(v3, v3) <-- r1(v0, v1), r5(v103) if (v103.clone() == v0.clone()) if (v0.clone() <= 1) let v2 = std::cmp::min(std::cmp::min(v0.clone(), 4), 6), let v3 = std::cmp::min(std::cmp::max(v0.clone(), 1), 6);
      r6(v3, v3) <-- r1(v0, v1), r2(v104) if (v104.clone() == std::cmp::max(v0.clone(), 3)), let v3 = std::cmp::min(std::cmp::max(v0.clone(), 1), 6);
      r5(v1) <-- r1(v0, v105) if let Some(v1) = v105.clone();
      r6(v0, v0) <-- r1(v0, v105) if let Some(v1) = v105.clone();
      r6(3, 3) <-- r1(v1, v0) if (v1.clone() != 1);
      r6(3, 3) <-- r1(v2, v0);
      r6(3, 3) <-- r1(v3, v0);
      r5(v1) <-- r4(v0), r2(v106) if (v106.clone() == v0.clone()), r0(v107, v1) if (v107.clone() == v0.clone()), r4(v2) if (v0.clone() == v1.clone());
      r5(v1) <-- r4(v0), r2(v108) if (v108.clone() == v0.clone()), r1(v1, v109) if let Some(v3) = v109.clone(), if let Some(v4) = Some(v3.clone());
      r5(v1) <-- r4(v0), r2(v110) if (v110.clone() == v0.clone()), r5(v1), r2(v111) if (v111.clone() == v1.clone());
      r5(v0) <-- r4(v112) if (v112.clone() == 0), r5(v0), agg () = not() in r4(v0.clone());
      r4(3);
   }
   pub struct Inst { p: Prog, pool: Option<ascent::rayon::ThreadPool> }
   pub fn make(pool: Option<usize>) -> Box<dyn Driver> {
      let pool = pool.map(|n| ascent::rayon::ThreadPoolBuilder::new().num_threads(n).build().unwrap());
      let p = match &pool { Some(pl) => pl.install(|| Default::default()), None => Default::default() };
      Box::new(Inst { p, pool })
   }
   impl Driver for Inst {
      fn load(&mut self, rel: usize, rows: &[Sexp], append: bool) -> Option<()> {
         match rel {
         0 => { let v: Vec<(i64,i64,)> = parse_rows(rows)?; if append { self.p.r0.extend(v) } else { self.p.r0 = v } },
         1 => { let v: Vec<(i64,Option<i64>,)> = parse_rows(rows)?; if append { self.p.r1.extend(v) } else { self.p.r1 = v } },
         2 => { let v: Vec<(i64,)> = parse_rows(rows)?; if append { self.p.r2.extend(v) } else { self.p.r2 = v } },
         3 => { let v: Vec<(i64,i64,i64,)> = parse_rows(rows)?; if append { self.p.r3.extend(v) } else { self.p.r3 = v } },
         4 => { let v: Vec<(i64,)> = parse_rows(rows)?; if append { self.p.r4.extend(v) } else { self.p.r4 = v } },
         5 => { let v: Vec<(i64,)> = parse_rows(rows)?; if append { self.p.r5.extend(v) } else { self.p.r5 = v } },
         6 => { let v: Vec<(i64,i64,)> = parse_rows(rows)?; if append { self.p.r6.extend(v) } else { self.p.r6 = v } },
            _ => return None,
         }
         Some(())
      }
      fn run(&mut self) { match &self.pool { Some(pl) => { let p = &mut self.p; pl.install(|| p.run()) }, None => self.p.run() } }
      fn run_here(&mut self) { self.p.run() }
      fn run_timeout(&mut self, k: usize) -> Option<bool> { let _ = k; None }
      fn dump(&self) -> String { vec![dump_rel(0, self.p.r0.iter().map(Row::render).collect()), dump_rel(1, self.p.r1.iter().map(Row::render).collect()), dump_rel(2, self.p.r2.iter().map(Row::render).collect()), dump_rel(3, self.p.r3.iter().map(Row::render).collect()), dump_rel(4, self.p.r4.iter().map(Row::render).collect()), dump_rel(5, self.p.r5.iter().map(Row::render).collect()), dump_rel(6, self.p.r6.iter().map(Row::render).collect())].join(" | ") }
      fn iters(&self) -> String { format!("iters {}", self.p.scc_iters.iter().map(|x| x.to_string()).collect::<Vec<_>>().join(" ")) }
   }
}

#[allow(unused, non_snake_case, clippy::all)]
pub mod g4x {
   use ascent::*;
   use ascent::aggregators::*;
   use ascent::lattice::{Dual, set::Set};
   use crate::common::*;
   ascent! {
      pub struct Prog;
      relation r0(i64, i64);
      relation r1(i64, Option<i64>);
      relation r2(i64);
      relation r3(i64, i64, i64);
      relation r4(i64, i64);
      relation r5(i64, i64, i64);
      relation r6(i64, i64, i64);
      relation r7(i64, i64);
      r4((v1.clone() + 1), v0) <-- r3(v0, v1, v100) if (v100.clone() == 0), if (v1.clone() < v1.clone()), r2(v2), if (v1.clone() < 5);
      r5(v0, v0, (v0.clone() + 1)) <-- r2(v0), r6(v4, v101, v102) if (v101.clone() == v4.clone()) if (v102.clone() == std::cmp::min(v4.clone(), 3)), r4(v5, v6), r6(v103, v104, v105) if (v103.clone() == std::cmp::max(v0.clone(), 2)) if (v105.clone() == 2) if (v0.clone() <= 5), if (v0.clone() < 5);
      r5(v0, v0, (v0.clone() + 1)) <-- r2(v0), r4(v106, v7) if (v106.clone() == std::cmp::max(v0.clone(), 0)) if (v7.clone() == 4) let v8 = std::cmp::min(std::cmp::min(v7.clone(), 4), 6), r6(v107, v108, v109) if (v107.clone() == std::cmp::max(v0.clone(), 2)) if (v109.clone() == 2) if (v0.clone() <= 5), if (v0.clone() < 5);
      r5(v0, v0, (v0.clone() + 1)) <-- r2(v0), r6(v110, v9, v10), r2(v11), r6(v111, v112, v113) if (v111.clone() == std::cmp::max(v0.clone(), 2)) if (v113.clone() == 2) if (v0.clone() <= 5), if (v0.clone() < 5);
      r5(v0, v0, (v0.clone() + 1)) <-- r5(v1, v0, v2), r6(v4, v114, v115) if (v114.clone() == v4.clone()) if (v115.clone() == std::cmp::min(v4.clone(), 3)), r4(v5, v6), r6(v116, v117, v118) if (v116.clone() == std::cmp::max(v0.clone(), 2)) if (v118.clone() == 2) if (v0.clone() <= 5), if (v0.clone() < 5);
      r5(v0, v0, (v0.clone() + 1)) <-- r5(v1, v0, v2), r4(v119, v7) if (v119.clone() == std::cmp::max(v0.clone(), 0)) if (v7.clone() == 4) let v8 = std::cmp::min(std::cmp::min(v7.clone(), 4), 6), r6(v120, v121, v122) if (v120.clone() == std::cmp::max(v0.clone(), 2)) if (v122.clone() == 2) if (v0.clone() <= 5), if (v0.clone() < 5);
      r5(v0, v0, (v0.clone() + 1)) <-- r5(v1, v0, v2), r6(v123, v9, v10), r2(v11), r6(v124, v125, v126) if (v124.clone() == std::cmp::max(v0.clone(), 2)) if (v126.clone() == 2) if (v0.clone() <= 5), if (v0.clone() < 5);
      r5(v0, v0, (v0.clone() + 1)) <-- r0(v0, v3), r6(v4, v127, v128) if (v127.clone() == v4.clone()) if (v128.clone() == std::cmp::min(v4.clone(), 3)), r4(v5, v6), r6(v129, v130, v131) if (v129.clone() == std::cmp::max(v0.clone(), 2)) if (v131.clone() == 2) if (v0.clone() <= 5), if (v0.clone() < 5);
      r5(v0, v0, (v0.clone() + 1)) <-- r0(v0, v3), r4(v132, v7) if (v132.clone() == std::cmp::max(v0.clone(), 0)) if (v7.clone() == 4) let v8 = std::cmp::min(std::cmp::min(v7.clone(), 4), 6), r6(v133, v134, v135) if (v133.clone() == std::cmp::max(v0.clone(), 2)) if (v135.clone() == 2) if (v0.clone() <= 5), if (v0.clone() < 5);
      r5(v0, v0, (v0.clone() + 1)) <-- r0(v0, v3), r6(v136, v9, v10), r2(v11), r6(v137, v138, v139) if (v137.clone() == std::cmp::max(v0.clone(), 2)) if (v139.clone() == 2) if (v0.clone() <= 5), if (v0.clone() < 5);
      r6(0, (v1.clone() + 1), 1) <-- agg () = not() in r2(3), r2(v140), r6(v141, v0, v1), if (v1.clone() < 5);
      r7(1, v0) <-- r2(v0);
      r7(v0, 0) <-- r6(v0, v142, v143) if (v142.clone() == 2) if (v143.clone() == v0.clone()), r2(v144) if (v144.clone() == std::cmp::max(v0.clone(), 3)) if (v0.clone() < 5), r7(v1, v145) if (v145.clone() == v1.clone());
      r6(v0, (v1.clone() + 1), v1) <-- r1(v0, v146) if let Some(v1) = v146.clone(), for v2 in [3, 2, 4], if (v1.clone() < 5);
   }
   pub struct Inst { p: Prog, pool: Option<ascent::rayon::ThreadPool> }
   pub fn make(pool: Option<usize>) -> Box<dyn Driver> {
      let pool = pool.map(|n| ascent::rayon::ThreadPoolBuilder::new().num_threads(n).build().unwrap());
      let p = match &pool { Some(pl) => pl.install(|| Default::default()), None => Default::default() };
      Box::new(Inst { p, pool })
   }
   impl Driver for Inst {
      fn load(&mut self, rel: usize, rows: &[Sexp], append: bool) -> Option<()> {
         match rel {
         0 => { let v: Vec<(i64,i64,)> = parse_rows(rows)?; if append { self.p.r0.extend(v) } else { self.p.r0 = v } },
         1 => { let v: Vec<(i64,Option<i64>,)> = parse_rows(rows)?; if append { self.p.r1.extend(v) } else { self.p.r1 = v } },
         2 => { let v: Vec<(i64,)> = parse_rows(rows)?; if append { self.p.r2.extend(v) } else { self.p.r2 = v } },
         3 => { let v: Vec<(i64,i64,i64,)> = parse_rows(rows)?; if append { self.p.r3.extend(v) } else { self.p.r3 = v } },
         4 => { let v: Vec<(i64,i64,)> = parse_rows(rows)?; if append { self.p.r4.extend(v) } else { self.p.r4 = v } },
         5 => { let v: Vec<(i64,i64,i64,)> = parse_rows(rows)?; if append { self.p.r5.extend(v) } else { self.p.r5 = v } },
         6 => { let v: Vec<(i64,i64,i64,)> = parse_rows(rows)?; if append { self.p.r6.extend(v) } else { self.p.r6 = v } },
         7 => { let v: Vec<(i64,i64,)> = parse_rows(rows)?; if append { self.p.r7.extend(v) } else { self.p.r7 = v } },
            _ => return None,
         }
         Some(())
      }
      fn run(&mut self) { match &self.pool { Some(pl) => { let p = &mut self.p; pl.install(|| p.run()) }, None => self.p.run() } }
      fn run_here(&mut self) { self.p.run() }
      fn run_timeout(&mut self, k: usize) -> Option<bool> { let _ = k; None }
      fn dump(&self) -> String { vec![dump_rel(0, self.p.r0.iter().map(Row::render).collect()), dump_rel(1, self.p.r1.iter().map(Row::render).collect()), dump_rel(2, self.p.r2.iter().map(Row::render).collect()), dump_rel(3, self.p.r3.iter().map(Row::render).collect()), dump_rel(4, self.p.r4.iter().map(Row::render).collect()), dump_rel(5, self.p.r5.iter().map(Row::render).collect()), dump_rel(6, self.p.r6.iter().map(Row::render).collect()), dump_rel(7, self.p.r7.iter().map(Row::render).collect())].join(" | ") }
      fn iters(&self) -> String { format!("iters {}", self.p.scc_iters.iter().map(|x| x.to_string()).collect::<Vec<_>>().join(" ")) }
   }
}

#[allow(unused, non_snake_case, clippy::all)]
pub mod g8x {
   use ascent::*;
   use ascent::aggregators::*;
   use ascent::lattice::{Dual, set::Set};
   use crate::common::*;
   ascent! {
      pub struct Prog;
      relation r0(i64, i64);
      relation r1(i64, Option<i64>);
      relation r2(i64);
      relation r3(i64, i64, i64);
      relation r4(i64, i64);
      relation r5(i64);
      relation r6(i64, i64, i64);
      relation r7(i64, Option<i64>);
      relation r8(i64, i64);
      r5(3) <-- agg () = not() in r0(3, _), r3(v100, v0, v1) if (v100.clone() == 0) if (v1.clone() == v1.clone()), r1(v3, v2) if (v3.clone() == 5), r4(v101, v4) if (v101.clone() == v3.clone());
      r5(3) <-- agg () = not() in r0(3, _), r3(v102, v0, v1) if (v102.clone() == 0) if (v1.clone() == v1.clone()), r1(v3, v2), r2(v5);
      r5(3) <-- agg () = not() in r0(3, _), r3(v103, v0, v1) if (v103.clone() == 0) if (v1.clone() == v1.clone()), r1(v3, v2);
      r5(3) <-- agg () = not() in r0(3, _), r3(v104, v0, v1) if (v104.clone() == 0) if (v1.clone() == v1.clone()), r1(v105, v2) if (v105.clone() == 2), r4(v7, v6), r2(v106) if (v106.clone() == v6.clone());
      r5(3) <-- agg () = not() in r0(3, _), r3(v107, v0, v1) if (v107.clone() == 0) if (v1.clone() == v1.clone()), r1(v108, v2) if (v108.clone() == 2), r0(v6, v109) if (v109.clone() == v6.clone()), r3(v110, v111, v112) if (v111.clone() == v6.clone());
      r5(3) <-- agg () = not() in r4(0, 2), r1(v3, v2) if (v3.clone() == 5), r4(v113, v4) if (v113.clone() == v3.clone());
      r5(3) <-- agg () = not() in r4(0, 2), r1(v3, v2), r2(v5);
      r5(3) <-- agg () = not() in r4(0, 2), r1(v3, v2);
      r5(3) <-- agg () = not() in r4(0, 2), r1(v114, v2) if (v114.clone() == 2), r4(v7, v6), r2(v115) if (v115.clone() == v6.clone());
      r5(3) <-- agg () = not() in r4(0, 2), r1(v116, v2) if (v116.clone() == 2), r0(v6, v117) if (v117.clone() == v6.clone()), r3(v118, v119, v120) if (v119.clone() == v6.clone());
      r6(v0, 1, v0) <-- r4(v0, v1), agg () = not() in r0(v0.clone(), (v1.clone() + 1));
      r6(v0, 1, v0) <-- r3(v1, v0, v121) if (v121.clone() == 2), r1(v122, v123) if let Some(v2) = v123.clone() if (v1.clone() <= 1) let v3 = std::cmp::min((v0.clone() + v2.clone()), 6);
      r6(v0, 1, v0) <-- r0(v0, v4);
      r7(v10, None::<i64>) <-- r2(v124), agg () = not() in r4(_, 2), r2(v10);
      r7(v10, None::<i64>) <-- r2(v125), r8(v1, v0) if (v0.clone() < 3) let v2 = std::cmp::min(std::cmp::min(v0.clone(), 3), 6), r1(v5, v4) if (v5.clone() <= v0.clone()), r2(v10);
      r7(v10, None::<i64>) <-- r2(v126), r8(v1, v0) if (v0.clone() < 3) let v2 = std::cmp::min(std::cmp::min(v0.clone(), 3), 6), r1(v127, v4) if (v127.clone() == 3), r2(v10);
      r7(v10, None::<i64>) <-- r2(v128), r0(v0, v1), r3(v129, v130, v3) if (v129.clone() == 3) if (v130.clone() == (v1.clone() + 1)), r1(v5, v4) if (v5.clone() <= v0.clone()), r2(v10);
      r7(v10, None::<i64>) <-- r2(v131), r0(v0, v1), r3(v132, v133, v3) if (v132.clone() == 3) if (v133.clone() == (v1.clone() + 1)), r1(v134, v4) if (v134.clone() == 3), r2(v10);
      r7(v10, None::<i64>) <-- r2(v135), r6(v6, v136, v7) if (v136.clone() == (v6.clone() + 2)), r3(v8, v9, v137) if (v137.clone() == v7.clone()), r2(v10);
      r8(v1, v2) <-- r4(v138, v0) if (v138.clone() == 0) if (v0.clone() != 4) let v1 = std::cmp::min(std::cmp::max(v0.clone(), 3), 6), let v2 = std::cmp::min(std::cmp::min(v0.clone(), 2), 6);
      r6(3, v0, 2) <-- if let Some(v0) = None::<i64>;
      r6(v0, 0, v0) <-- agg () = not() in r1(2, _), agg () = not() in r2(1), r3(v0, v139, v140) if (v139.clone() == v0.clone()) if (v140.clone() == v0.clone());
      r7((v1.clone() + 1), Some(v1.clone())) <-- r3(v0, v1, v141) if (v141.clone() == std::cmp::min(v0.clone(), 3)), agg () = not() in r2(v1.clone()), if (v1.clone() < 5);
      r6(0, 2, 0);
   }
   pub struct Inst { p: Prog, pool: Option<ascent::rayon::ThreadPool> }
   pub fn make(pool: Option<usize>) -> Box<dyn Driver> {
      let pool = pool.map(|n| ascent::rayon::ThreadPoolBuilder::new().num_threads(n).build().unwrap());
      let p = match &pool { Some(pl) => pl.install(|| Default::default()), None => Default::default() };
      Box::new(Inst { p, pool })
   }
   impl Driver for Inst {
      fn load(&mut self, rel: usize, rows: &[Sexp], append: bool) -> Option<()> {
         match rel {
         0 => { let v: Vec<(i64,i64,)> = parse_rows(rows)?; if append { self.p.r0.extend(v) } else { self.p.r0 = v } },
         1 => { let v: Vec<(i64,Option<i64>,)> = parse_rows(rows)?; if append { self.p.r1.extend(v) } else { self.p.r1 = v } },
         2 => { let v: Vec<(i64,)> = parse_rows(rows)?; if append { self.p.r2.extend(v) } else { self.p.r2 = v } },
         3 => { let v: Vec<(i64,i64,i64,)> = parse_rows(rows)?; if append { self.p.r3.extend(v) } else { self.p.r3 = v } },
         4 => { let v: Vec<(i64,i64,)> = parse_rows(rows)?; if append { self.p.r4.extend(v) } else { self.p.r4 = v } },
         5 => { let v: Vec<(i64,)> = parse_rows(rows)?; if append { self.p.r5.extend(v) } else { self.p.r5 = v } },
         6 => { let v: Vec<(i64,i64,i64,)> = parse_rows(rows)?; if append { self.p.r6.extend(v) } else { self.p.r6 = v } },
         7 => { let v: Vec<(i64,Option<i64>,)> = parse_rows(rows)?; if append { self.p.r7.extend(v) } else { self.p.r7 = v } },
         8 => { let v: Vec<(i64,i64,)> = parse_rows(rows)?; if append { self.p.r8.extend(v) } else { self.p.r8 = v } },
            _ => return None,
         }
         Some(())
      }
      fn run(&mut self) { match &self.pool { Some(pl) => { let p = &mut self.p; pl.install(|| p.run()) }, None => self.p.run() } }
      fn run_here(&mut self) { self.p.run() }
      fn run_timeout(&mut self, k: usize) -> Option<bool> { let _ = k; None }
      fn dump(&self) -> String { vec![dump_rel(0, self.p.r0.iter().map(Row::render).collect()), dump_rel(1, self.p.r1.iter().map(Row::render).collect()), dump_rel(2, self.p.r2.iter().map(Row::render).collect()), dump_rel(3, self.p.r3.iter().map(Row::render).collect()), dump_rel(4, self.p.r4.iter().map(Row::render).collect()), dump_rel(5, self.p.r5.iter().map(Row::render).collect()), dump_rel(6, self.p.r6.iter().map(Row::render).collect()), dump_rel(7, self.p.r7.iter().map(Row::render).collect()), dump_rel(8, self.p.r8.iter().map(Row::render).collect())].join(" | ") }
      fn iters(&self) -> String { format!("iters {}", self.p.scc_iters.iter().map(|x| x.to_string()).collect::<Vec<_>>().join(" ")) }
   }
}

#[allow(unused, non_snake_case, clippy::all)]
pub mod g12x {
   use ascent::*;
   use ascent::aggregators::*;
   use ascent::lattice::{Dual, set::Set};
   use crate::common::*;
   ascent! {
      pub struct Prog;
      relation r0(i64, i64);
      relation r1(i64, Option<i64>);
      relation r2(i64);
      relation r3(i64, i64, i64);
      relation r4(i64, i64);
      relation r5(i64, i64, i64);
      relation r6(i64, i64);
      relation r7(i64, Option<i64>);
      r4(v0, v0) <-- r0(v0, v100), if let Some(v1) = Some(v0.clone());
      r4(v0, v0) <-- r3(v101, v102, v0) if (v101.clone() == 2) if (v102.clone() == 0) if (v0.clone() == 3), r0(v2, v103) if (v103.clone() == (v2.clone() + 2));
      r4(v0, v0) <-- r1(v0, v104) if (v104.clone() == Some(v0.clone())) if (v0.clone() < 0);
      r5(v0, v0, v0) <-- r5(v105, v0, v106) if (v105.clone() == 1) if (v106.clone() == 2);
      r6(v4, v4) <-- r1(v0, v1), r7(v2, v107), r5(v108, v109, v3) if (v108.clone() == v0.clone()) if (v109.clone() == v0.clone()) if (v0.clone() <= v0.clone()), r3(v4, v5, v110) if (v110.clone() == 3), r2(v6);
      r6(v4, v4) <-- r1(v0, v1), r7(v2, v111), r5(v112, v113, v3) if (v112.clone() == v0.clone()) if (v113.clone() == v0.clone()) if (v0.clone() <= v0.clone()), r5(v5, v114, v4) if (v114.clone() == v3.clone()) if (v3.clone() < 0) let v7 = std::cmp::min((v5.clone() + 0), 6), r7(v8, v9);
      r6(v4, v4) <-- r5(v0, v115, v116) if (v115.clone() == 1), r5(v117, v118, v3) if (v117.clone() == v0.clone()) if (v118.clone() == v0.clone()) if (v0.clone() <= v0.clone()), r3(v4, v5, v119) if (v119.clone() == 3), r2(v6);
      r6(v4, v4) <-- r5(v0, v120, v121) if (v120.clone() == 1), r5(v122, v123, v3) if (v122.clone() == v0.clone()) if (v123.clone() == v0.clone()) if (v0.clone() <= v0.clone()), r5(v5, v124, v4) if (v124.clone() == v3.clone()) if (v3.clone() < 0) let v7 = std::cmp::min((v5.clone() + 0), 6), r7(v8, v9);
      r6(v4, v4) <-- r5(v0, v125, v126) if (v126.clone() == v0.clone()), r2(v127) if (v127.clone() == std::cmp::max(v0.clone(), 0)), r5(v128, v129, v3) if (v128.clone() == v0.clone()) if (v129.clone() == v0.clone()) if (v0.clone() <= v0.clone()), r3(v4, v5, v130) if (v130.clone() == 3), r2(v6);
      r6(v4, v4) <-- r5(v0, v131, v132) if (v132.clone() == v0.clone()), r2(v133) if (v133.clone() == std::cmp::max(v0.clone(), 0)), r5(v134, v135, v3) if (v134.clone() == v0.clone()) if (v135.clone() == v0.clone()) if (v0.clone() <= v0.clone()), r5(v5, v136, v4) if (v136.clone() == v3.clone()) if (v3.clone() < 0) let v7 = std::cmp::min((v5.clone() + 0), 6), r7(v8, v9);
      r7(v1, Some(v1.clone())) <-- r7(v0, v137) if let Some(v1) = v137.clone();
      r7(v0, Some(v0.clone())) <-- if let Some(v0) = Some(0), r0(v138, v139) if (v138.clone() == v0.clone()), r5(v1, v140, v141) if (v140.clone() == v0.clone()) if (v141.clone() == (v1.clone() + 1));
      r5(v0, v0, v0) <-- if let Some(v0) = Some(0), r0(v138, v139) if (v138.clone() == v0.clone()), r5(v1, v140, v141) if (v140.clone() == v0.clone()) if (v141.clone() == (v1.clone() + 1));
      r7(v0, Some(v0.clone())) <-- if let Some(v0) = Some(0), r0(v142, v143) if (v142.clone() == v0.clone()), r2(v2), for v3 in 2..2;
      r5(v0, v0, v0) <-- if let Some(v0) = Some(0), r0(v142, v143) if (v142.clone() == v0.clone()), r2(v2), for v3 in 2..2;
      r5(v1, (v1.clone() + 1), 0) <-- r0(v0, v144) if (v144.clone() == v0.clone()), agg () = not() in r0(_, 0), r6(v2, v1), r5(v145, v3, v146) if (v145.clone() == v0.clone()) if (v146.clone() == 3), if (v1.clone() < 5);
      r5(v1, (v1.clone() + 1), 0) <-- r0(v0, v147) if (v147.clone() == v0.clone()), agg () = not() in r0(_, 0), r5(v1, v148, v149) if (v148.clone() == v0.clone()) if (v149.clone() == v1.clone()) if (v1.clone() <= 4), r3(v150, v151, v152) if (v150.clone() == v0.clone()) if (v151.clone() == v1.clone()) if (v152.clone() == 0), if (v1.clone() < 5);
      r5(v1, (v1.clone() + 1), 0) <-- r0(v0, v153) if (v153.clone() == v0.clone()), agg () = not() in r0(_, 0), r7(v1, v154) if (v154.clone() == None::<i64>), if (v1.clone() < 5);
      r6(v1, v0) <-- r6(v0, v155) if (v155.clone() == 1), r4(v156, v157) if (v156.clone() == std::cmp::min(v0.clone(), 1)) if (v157.clone() == 3), r7(v158, v159) if (v158.clone() == (v0.clone() + 1)) if let Some(v1) = v159.clone();
      r4(0, 1);
      r6(0, 1);
   }
   pub struct Inst { p: Prog, pool: Option<ascent::rayon::ThreadPool> }
   pub fn make(pool: Option<usize>) -> Box<dyn Driver> {
      let pool = pool.map(|n| ascent::rayon::ThreadPoolBuilder::new().num_threads(n).build().unwrap());
      let p = match &pool { Some(pl) => pl.install(|| Default::default()), None => Default::default() };
      Box::new(Inst { p, pool })
   }
   impl Driver for Inst {
      fn load(&mut self, rel: usize, rows: &[Sexp], append: bool) -> Option<()> {
         match rel {
         0 => { let v: Vec<(i64,i64,)> = parse_rows(rows)?; if append { self.p.r0.extend(v) } else { self.p.r0 = v } },
         1 => { let v: Vec<(i64,Option<i64>,)> = parse_rows(rows)?; if append { self.p.r1.extend(v) } else { self.p.r1 = v } },
         2 => { let v: Vec<(i64,)> = parse_rows(rows)?; if append { self.p.r2.extend(v) } else { self.p.r2 = v } },
         3 => { let v: Vec<(i64,i64,i64,)> = parse_rows(rows)?; if append { self.p.r3.extend(v) } else { self.p.r3 = v } },
         4 => { let v: Vec<(i64,i64,)> = parse_rows(rows)?; if append { self.p.r4.extend(v) } else { self.p.r4 = v } },
         5 => { let v: Vec<(i64,i64,i64,)> = parse_rows(rows)?; if append { self.p.r5.extend(v) } else { self.p.r5 = v } },
         6 => { let v: Vec<(i64,i64,)> = parse_rows(rows)?; if append { self.p.r6.extend(v) } else { self.p.r6 = v } },
         7 => { let v: Vec<(i64,Option<i64>,)> = parse_rows(rows)?; if append { self.p.r7.extend(v) } else { self.p.r7 = v } },
            _ => return None,
         }
         Some(())
      }
      fn run(&mut self) { match &self.pool { Some(pl) => { let p = &mut self.p; pl.install(|| p.run()) }, None => self.p.run() } }
      fn run_here(&mut self) { self.p.run() }
      fn run_timeout(&mut self, k: usize) -> Option<bool> { let _ = k; None }
      fn dump(&self) -> String { vec![dump_rel(0, self.p.r0.iter().map(Row::render).collect()), dump_rel(1, self.p.r1.iter().map(Row::render).collect()), dump_rel(2, self.p.r2.iter().map(Row::render).collect()), dump_rel(3, self.p.r3.iter().map(Row::render).collect()), dump_rel(4, self.p.r4.iter().map(Row::render).collect()), dump_rel(5, self.p.r5.iter().map(Row::render).collect()), dump_rel(6, self.p.r6.iter().map(Row::render).collect()), dump_rel(7, self.p.r7.iter().map(Row::render).collect())].join(" | ") }
      fn iters(&self) -> String { format!("iters {}", self.p.scc_iters.iter().map(|x| x.to_string()).collect::<Vec<_>>().join(" ")) }
   }
}

#[allow(unused, non_snake_case, clippy::all)]
pub mod n2x {
   use ascent::*;
   use ascent::aggregators::*;
   use ascent::lattice::{Dual, set::Set};
   use crate::common::*;
   ascent! {
      pub struct Prog;
      relation r0(i64, i64);
      relation r1(i64);
      lattice r2(i64, i64);
      relation r3(i64);
      relation r4(i64);
      relation r5(i64, i64);
      r2(v0, v1) <-- r0(v0, v1);
      r2(v0, (v1.clone() + 1)) <-- r2(v0, v1), r1(v100) if (v100.clone() == v1.clone()), if (v1.clone() < 5);
      r3(v0) <-- r0(v0, v1), r2(v101, v102) if (v101.clone() == v0.clone()) if (v102.clone() == v1.clone());
      r4(v0) <-- r1(v0), r2(v103, v104) if (v103.clone() == v0.clone()) if (v104.clone() == v0.clone());
   }
   pub struct Inst { p: Prog, pool: Option<ascent::rayon::ThreadPool> }
   pub fn make(pool: Option<usize>) -> Box<dyn Driver> {
      let pool = pool.map(|n| ascent::rayon::ThreadPoolBuilder::new().num_threads(n).build().unwrap());
      let p = match &pool { Some(pl) => pl.install(|| Default::default()), None => Default::default() };
      Box::new(Inst { p, pool })
   }
   impl Driver for Inst {
      fn load(&mut self, rel: usize, rows: &[Sexp], append: bool) -> Option<()> {
         match rel {
         0 => { let v: Vec<(i64,i64,)> = parse_rows(rows)?; if append { self.p.r0.extend(v) } else { self.p.r0 = v } },
         1 => { let v: Vec<(i64,)> = parse_rows(rows)?; if append { self.p.r1.extend(v) } else { self.p.r1 = v } },
         2 => { let v: Vec<(i64,i64,)> = parse_rows(rows)?; if append { self.p.r2.extend(v) } else { self.p.r2 = v } },
         3 => { let v: Vec<(i64,)> = parse_rows(rows)?; if append { self.p.r3.extend(v) } else { self.p.r3 = v } },
         4 => { let v: Vec<(i64,)> = parse_rows(rows)?; if append { self.p.r4.extend(v) } else { self.p.r4 = v } },
         5 => { let v: Vec<(i64,i64,)> = parse_rows(rows)?; if append { self.p.r5.extend(v) } else { self.p.r5 = v } },
            _ => return None,
         }
         Some(())
      }
      fn run(&mut self) { match &self.pool { Some(pl) => { let p = &mut self.p; pl.install(|| p.run()) }, None => self.p.run() } }
      fn run_here(&mut self) { self.p.run() }
      fn run_timeout(&mut self, k: usize) -> Option<bool> { let _ = k; None }
      fn dump(&self) -> String { vec![dump_rel(0, self.p.r0.iter().map(Row::render).collect()), dump_rel(1, self.p.r1.iter().map(Row::render).collect()), dump_rel(2, self.p.r2.iter().map(Row::render).collect()), dump_rel(3, self.p.r3.iter().map(Row::render).collect()), dump_rel(4, self.p.r4.iter().map(Row::render).collect()), dump_rel(5, self.p.r5.iter().map(Row::render).collect())].join(" | ") }
      fn iters(&self) -> String { format!("iters {}", self.p.scc_iters.iter().map(|x| x.to_string()).collect::<Vec<_>>().join(" ")) }
   }
}

#[allow(unused, non_snake_case, clippy::all)]
pub mod c2x {
   use ascent::*;
   use ascent::aggregators::*;
   use ascent::lattice::{Dual, set::Set};
   use crate::common::*;
   ascent! {
      pub struct Prog;
      relation r0(i64, i64);
      relation r1(i64);
      relation r2(i64, i64);
      relation r3(i64, i64);
      r2(w2, w2_) <-- r0(w2, v1), r1(w2_);
      r3(w2, v1) <-- r2(w2, v1), r0(v1001, v1002) if (v1001.clone() == v1.clone());
   }
   pub struct Inst { p: Prog, pool: Option<ascent::rayon::ThreadPool> }
   pub fn make(pool: Option<usize>) -> Box<dyn Driver> {
      let pool = pool.map(|n| ascent::rayon::ThreadPoolBuilder::new().num_threads(n).build().unwrap());
      let p = match &pool { Some(pl) => pl.install(|| Default::default()), None => Default::default() };
      Box::new(Inst { p, pool })
   }
   impl Driver for Inst {
      fn load(&mut self, rel: usize, rows: &[Sexp], append: bool) -> Option<()> {
         match rel {
         0 => { let v: Vec<(i64,i64,)> = parse_rows(rows)?; if append { self.p.r0.extend(v) } else { self.p.r0 = v } },
         1 => { let v: Vec<(i64,)> = parse_rows(rows)?; if append { self.p.r1.extend(v) } else { self.p.r1 = v } },
         2 => { let v: Vec<(i64,i64,)> = parse_rows(rows)?; if append { self.p.r2.extend(v) } else { self.p.r2 = v } },
         3 => { let v: Vec<(i64,i64,)> = parse_rows(rows)?; if append { self.p.r3.extend(v) } else { self.p.r3 = v } },
            _ => return None,
         }
         Some(())
      }
      fn run(&mut self) { match &self.pool { Some(pl) => { let p = &mut self.p; pl.install(|| p.run()) }, None => self.p.run() } }
      fn run_here(&mut self) { self.p.run() }
      fn run_timeout(&mut self, k: usize) -> Option<bool> { let _ = k; None }
      fn dump(&self) -> String { vec![dump_rel(0, self.p.r0.iter().map(Row::render).collect()), dump_rel(1, self.p.r1.iter().map(Row::render).collect()), dump_rel(2, self.p.r2.iter().map(Row::render).collect()), dump_rel(3, self.p.r3.iter().map(Row::render).collect())].join(" | ") }
      fn iters(&self) -> String { format!("iters {}", self.p.scc_iters.iter().map(|x| x.to_string()).collect::<Vec<_>>().join(" ")) }
   }
}

fn main() {
   common::main_loop(&[("g0x", g0x::make as common::Factory), ("g4x", g4x::make as common::Factory), ("g8x", g8x::make as common::Factory), ("g12x", g12x::make as common::Factory), ("n2x", n2x::make as common::Factory), ("c2x", c2x::make as common::Factory)]);
}
