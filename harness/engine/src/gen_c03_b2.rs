#[path = "common.rs"]
mod common;
#[allow(unused, non_snake_case, clippy::all)]
pub mod l2 {
   use ascent::*;
   use ascent::aggregators::*;
   use ascent::lattice::{Dual, set::Set};
   use crate::common::*;
   ascent! {
      pub struct Prog;
      relation r0(i64, i64, i64);
      relation r1(i64, i64, i64);
      relation r2(i64);
      relation r3(i64, i64);
      lattice r4(Dual<i64>);
      lattice r5(i64, Set<i64>);
      r4(Dual(3)) <-- r0(v0, v1, v2);
      r5(v0, Set::singleton((*v1))) <-- r3(v0, v1);
      r5(v1, v2) <-- r5(v0, v2), r3(v0, v1);
      r5(v0, Set::singleton((*v1))) <-- r3(v0, v1) if ((*v0) < 5);
      r5(v0, v1) <-- r5(v0, v1), r3(v2, v0);
      r5(v0, Set::singleton((*v0))) <-- r2(v0), r4(v1);
   }
   pub struct Inst { p: Prog, pool: Option<ascent::rayon::ThreadPool> }
   pub fn make(pool: Option<usize>) -> Box<dyn Driver> {
      let pool = pool.map(|n| ascent::rayon::ThreadPoolBuilder::new().num_threads(n).build().unwrap());
      let p = match &pool { Some(pl) => pl.install(|| Default::default()), None => Default::default() };
      Box::new(Inst { p, pool })
   }
   impl Driver for Inst {
      fn load(&mut self, rel: usize, rows: &[Sexp], append: bool) -> Option<()> {
         match rel {
         0 => { let v: Vec<(i64,i64,i64,)> = parse_rows(rows)?; if append { self.p.r0.extend(v) } else { self.p.r0 = v } },
         1 => { let v: Vec<(i64,i64,i64,)> = parse_rows(rows)?; if append { self.p.r1.extend(v) } else { self.p.r1 = v } },
         2 => { let v: Vec<(i64,)> = parse_rows(rows)?; if append { self.p.r2.extend(v) } else { self.p.r2 = v } },
         3 => { let v: Vec<(i64,i64,)> = parse_rows(rows)?; if append { self.p.r3.extend(v) } else { self.p.r3 = v } },
         4 => { let v: Vec<(Dual<i64>,)> = parse_rows(rows)?; if append { self.p.r4.extend(v) } else { self.p.r4 = v } },
         5 => { let v: Vec<(i64,Set<i64>,)> = parse_rows(rows)?; if append { self.p.r5.extend(v) } else { self.p.r5 = v } },
            _ => return None,
         }
         Some(())
      }
      fn run(&mut self) { match &self.pool { Some(pl) => { let p = &mut self.p; pl.install(|| p.run()) }, None => self.p.run() } }
      fn run_here(&mut self) { self.p.run() }
      fn run_timeout(&mut self, k: usize) -> Option<bool> { let _ = k; None }
      fn dump(&self) -> String { vec![dump_rel(0, self.p.r0.iter().map(Row::render).collect()), dump_rel(1, self.p.r1.iter().map(Row::render).collect()), dump_rel(2, self.p.r2.iter().map(Row::render).collect()), dump_rel(3, self.p.r3.iter().map(Row::render).collect()), dump_rel(4, self.p.r4.iter().map(Row::render).collect()), dump_rel(5, self.p.r5.iter().map(Row::render).collect())].join(" | ") }
      fn iters(&self) -> String { format!("iters {}", self.p.scc_iters.iter().map(|x| x.to_string()).collect::<Vec<_>>().join(" ")) }
   }
}

#[allow(unused, non_snake_case, clippy::all)]
pub mod l10 {
   use ascent::*;
   use ascent::aggregators::*;
   use ascent::lattice::{Dual, set::Set};
   use crate::common::*;
   ascent! {
      pub struct Prog;
      relation r0(i64, i64, i64);
      relation r1(i64, i64);
      relation r2(i64);
      relation r3(i64);
      lattice r4(i64, i64, i64);
      r4(v0, 2, 2) <-- r1(v0, 3);
      r4(((*v4) + 1), v1, std::cmp::min(((*v2) + 0), 6)) <-- r4(v0, v1, v2), r1(v3, v4), if ((*v4) < 6);
      r1(v2, v2) <-- r0(v0, v0, v0) if ((*v0) < 2), r0(v1, v2, v1);
   }
   pub struct Inst { p: Prog, pool: Option<ascent::rayon::ThreadPool> }
   pub fn make(pool: Option<usize>) -> Box<dyn Driver> {
      let pool = pool.map(|n| ascent::rayon::ThreadPoolBuilder::new().num_threads(n).build().unwrap());
      let p = match &pool { Some(pl) => pl.install(|| Default::default()), None => Default::default() };
      Box::new(Inst { p, pool })
   }
   impl Driver for Inst {
      fn load(&mut self, rel: usize, rows: &[Sexp], append: bool) -> Option<()> {
         match rel {
         0 => { let v: Vec<(i64,i64,i64,)> = parse_rows(rows)?; if append { self.p.r0.extend(v) } else { self.p.r0 = v } },
         1 => { let v: Vec<(i64,i64,)> = parse_rows(rows)?; if append { self.p.r1.extend(v) } else { self.p.r1 = v } },
         2 => { let v: Vec<(i64,)> = parse_rows(rows)?; if append { self.p.r2.extend(v) } else { self.p.r2 = v } },
         3 => { let v: Vec<(i64,)> = parse_rows(rows)?; if append { self.p.r3.extend(v) } else { self.p.r3 = v } },
         4 => { let v: Vec<(i64,i64,i64,)> = parse_rows(rows)?; if append { self.p.r4.extend(v) } else { self.p.r4 = v } },
            _ => return None,
         }
         Some(())
      }
      fn run(&mut self) { match &self.pool { Some(pl) => { let p = &mut self.p; pl.install(|| p.run()) }, None => self.p.run() } }
      fn run_here(&mut self) { self.p.run() }
      fn run_timeout(&mut self, k: usize) -> Option<bool> { let _ = k; None }
      fn dump(&self) -> String { vec![dump_rel(0, self.p.r0.iter().map(Row::render).collect()), dump_rel(1, self.p.r1.iter().map(Row::render).collect()), dump_rel(2, self.p.r2.iter().map(Row::render).collect()), dump_rel(3, self.p.r3.iter().map(Row::render).collect()), dump_rel(4, self.p.r4.iter().map(Row::render).collect())].join(" | ") }
      fn iters(&self) -> String { format!("iters {}", self.p.scc_iters.iter().map(|x| x.to_string()).collect::<Vec<_>>().join(" ")) }
   }
}

#[allow(unused, non_snake_case, clippy::all)]
pub mod l18 {
   use ascent::*;
   use ascent::aggregators::*;
   use ascent::lattice::{Dual, set::Set};
   use crate::common::*;
   ascent! {
      pub struct Prog;
      relation r0(i64);
      relation r1(i64);
      relation r2(i64);
      lattice r3(i64, Set<i64>);
      r3(v0, Set::singleton((*v0))) <-- r2(v0);
      r3(v0, Set::singleton(4)) <-- r3(v0, v1), r2(v2);
      r3(v0, v3) <-- r3(v0, v1), r3(v2, v3);
      r2(v0) <-- r3(v0, v1) if ((*v0) < 5), r1(v0);
      r2(v0) <-- r1(v0), r0(v0);
   }
   pub struct Inst { p: Prog, pool: Option<ascent::rayon::ThreadPool> }
   pub fn make(pool: Option<usize>) -> Box<dyn Driver> {
      let pool = pool.map(|n| ascent::rayon::ThreadPoolBuilder::new().num_threads(n).build().unwrap());
      let p = match &pool { Some(pl) => pl.install(|| Default::default()), None => Default::default() };
      Box::new(Inst { p, pool })
   }
   impl Driver for Inst {
      fn load(&mut self, rel: usize, rows: &[Sexp], append: bool) -> Option<()> {
         match rel {
         0 => { let v: Vec<(i64,)> = parse_rows(rows)?; if append { self.p.r0.extend(v) } else { self.p.r0 = v } },
         1 => { let v: Vec<(i64,)> = parse_rows(rows)?; if append { self.p.r1.extend(v) } else { self.p.r1 = v } },
         2 => { let v: Vec<(i64,)> = parse_rows(rows)?; if append { self.p.r2.extend(v) } else { self.p.r2 = v } },
         3 => { let v: Vec<(i64,Set<i64>,)> = parse_rows(rows)?; if append { self.p.r3.extend(v) } else { self.p.r3 = v } },
            _ => return None,
         }
         Some(())
      }
      fn run(&mut self) { match &self.pool { Some(pl) => { let p = &mut self.p; pl.install(|| p.run()) }, None => self.p.run() } }
      fn run_here(&mut self) { self.p.run() }
      fn run_timeout(&mut self, k: usize) -> Option<bool> { let _ = k; None }
      fn dump(&self) -> String { vec![dump_rel(0, self.p.r0.iter().map(Row::render).collect()), dump_rel(1, self.p.r1.iter().map(Row::render).collect()), dump_rel(2, self.p.r2.iter().map(Row::render).collect()), dump_rel(3, self.p.r3.iter().map(Row::render).collect())].join(" | ") }
      fn iters(&self) -> String { format!("iters {}", self.p.scc_iters.iter().map(|x| x.to_string()).collect::<Vec<_>>().join(" ")) }
   }
}

#[allow(unused, non_snake_case, clippy::all)]
pub mod l26 {
   use ascent::*;
   use ascent::aggregators::*;
   use ascent::lattice::{Dual, set::Set};
   use crate::common::*;
   ascent! {
      pub struct Prog;
      relation r0(i64, i64);
      relation r1(i64);
      relation r2(i64, i64);
      relation r3(i64, i64, i64);
      lattice r4(i64, Set<i64>);
      r4(v0, Set::singleton((*v1))) <-- r0(v0, v1);
      r4(v1, v2) <-- r4(v0, v2), r0(v0, v1);
      r4(v0, Set::singleton((*v0))) <-- r1(v0);
      r4(v0, v1) <-- r4(v0, v1), r0(v2, v3) if ((*v0) < 4);
      r4(3, v2) <-- r4(v0, v1), r4(v0, v2) if ((*v0) < 6);
      r2(v0, v0) <-- r1(v0) if ((*v0) < 4);
      r1(v1) <-- r0(v0, v1);
      r1(1) <-- r3(v0, v0, v1);
   }
   pub struct Inst { p: Prog, pool: Option<ascent::rayon::ThreadPool> }
   pub fn make(pool: Option<usize>) -> Box<dyn Driver> {
      let pool = pool.map(|n| ascent::rayon::ThreadPoolBuilder::new().num_threads(n).build().unwrap());
      let p = match &pool { Some(pl) => pl.install(|| Default::default()), None => Default::default() };
      Box::new(Inst { p, pool })
   }
   impl Driver for Inst {
      fn load(&mut self, rel: usize, rows: &[Sexp], append: bool) -> Option<()> {
         match rel {
         0 => { let v: Vec<(i64,i64,)> = parse_rows(rows)?; if append { self.p.r0.extend(v) } else { self.p.r0 = v } },
         1 => { let v: Vec<(i64,)> = parse_rows(rows)?; if append { self.p.r1.extend(v) } else { self.p.r1 = v } },
         2 => { let v: Vec<(i64,i64,)> = parse_rows(rows)?; if append { self.p.r2.extend(v) } else { self.p.r2 = v } },
         3 => { let v: Vec<(i64,i64,i64,)> = parse_rows(rows)?; if append { self.p.r3.extend(v) } else { self.p.r3 = v } },
         4 => { let v: Vec<(i64,Set<i64>,)> = parse_rows(rows)?; if append { self.p.r4.extend(v) } else { self.p.r4 = v } },
            _ => return None,
         }
         Some(())
      }
      fn run(&mut self) { match &self.pool { Some(pl) => { let p = &mut self.p; pl.install(|| p.run()) }, None => self.p.run() } }
      fn run_here(&mut self) { self.p.run() }
      fn run_timeout(&mut self, k: usize) -> Option<bool> { let _ = k; None }
      fn dump(&self) -> String { vec![dump_rel(0, self.p.r0.iter().map(Row::render).collect()), dump_rel(1, self.p.r1.iter().map(Row::render).collect()), dump_rel(2, self.p.r2.iter().map(Row::render).collect()), dump_rel(3, self.p.r3.iter().map(Row::render).collect()), dump_rel(4, self.p.r4.iter().map(Row::render).collect())].join(" | ") }
      fn iters(&self) -> String { format!("iters {}", self.p.scc_iters.iter().map(|x| x.to_string()).collect::<Vec<_>>().join(" ")) }
   }
}

#[allow(unused, non_snake_case, clippy::all)]
pub mod l34 {
   use ascent::*;
   use ascent::aggregators::*;
   use ascent::lattice::{Dual, set::Set};
   use crate::common::*;
   ascent! {
      pub struct Prog;
      relation r0(i64);
      relation r1(i64, i64);
      relation r2(i64, i64);
      lattice r3(i64, Set<i64>);
      r3(v0, Set::singleton((*v1))) <-- r2(v0, v1);
      r3(v1, v2) <-- r3(v0, v2), r2(v0, v1);
      r3(v0, Set::singleton((*v0))) <-- r1(v0, 1) if ((*v0) < 6);
      r2(v0, v0) <-- r2(v0, 3);
   }
   pub struct Inst { p: Prog, pool: Option<ascent::rayon::ThreadPool> }
   pub fn make(pool: Option<usize>) -> Box<dyn Driver> {
      let pool = pool.map(|n| ascent::rayon::ThreadPoolBuilder::new().num_threads(n).build().unwrap());
      let p = match &pool { Some(pl) => pl.install(|| Default::default()), None => Default::default() };
      Box::new(Inst { p, pool })
   }
   impl Driver for Inst {
      fn load(&mut self, rel: usize, rows: &[Sexp], append: bool) -> Option<()> {
         match rel {
         0 => { let v: Vec<(i64,)> = parse_rows(rows)?; if append { self.p.r0.extend(v) } else { self.p.r0 = v } },
         1 => { let v: Vec<(i64,i64,)> = parse_rows(rows)?; if append { self.p.r1.extend(v) } else { self.p.r1 = v } },
         2 => { let v: Vec<(i64,i64,)> = parse_rows(rows)?; if append { self.p.r2.extend(v) } else { self.p.r2 = v } },
         3 => { let v: Vec<(i64,Set<i64>,)> = parse_rows(rows)?; if append { self.p.r3.extend(v) } else { self.p.r3 = v } },
            _ => return None,
         }
         Some(())
      }
      fn run(&mut self) { match &self.pool { Some(pl) => { let p = &mut self.p; pl.install(|| p.run()) }, None => self.p.run() } }
      fn run_here(&mut self) { self.p.run() }
      fn run_timeout(&mut self, k: usize) -> Option<bool> { let _ = k; None }
      fn dump(&self) -> String { vec![dump_rel(0, self.p.r0.iter().map(Row::render).collect()), dump_rel(1, self.p.r1.iter().map(Row::render).collect()), dump_rel(2, self.p.r2.iter().map(Row::render).collect()), dump_rel(3, self.p.r3.iter().map(Row::render).collect())].join(" | ") }
      fn iters(&self) -> String { format!("iters {}", self.p.scc_iters.iter().map(|x| x.to_string()).collect::<Vec<_>>().join(" ")) }
   }
}

#[allow(unused, non_snake_case, clippy::all)]
pub mod l42 {
   use ascent::*;
   use ascent::aggregators::*;
   use ascent::lattice::{Dual, set::Set};
   use crate::common::*;
   ascent! {
      pub struct Prog;
      relation r0(i64);
      relation r1(i64);
      relation r2(i64, i64);
      relation r3(i64);
      lattice r4(i64, i64, Set<i64>);
      lattice r5(i64, Option<i64>);
      r4(v0, v0, Set::singleton(1)) <-- r1(v0);
      r4(v0, v0, Set::singleton(2)) <-- r4(v0, v1, v2) if ((*v1) < 4), r2(v3, v3);
      r5(v0, Some(4)) <-- r1(v0);
      r5(v1, v0) <-- r5(0, v0), r1(v1);
      r4(v0, v0, v2) <-- r1(v0), r4(2, v1, v2);
      r2(v1, v0) <-- r4(v0, v1, v2) if ((*v0) < 2);
      r5(v1, Some((*v0))) <-- r4(v0, v1, v2) if ((*v1) < 2);
   }
   pub struct Inst { p: Prog, pool: Option<ascent::rayon::ThreadPool> }
   pub fn make(pool: Option<usize>) -> Box<dyn Driver> {
      let pool = pool.map(|n| ascent::rayon::ThreadPoolBuilder::new().num_threads(n).build().unwrap());
      let p = match &pool { Some(pl) => pl.install(|| Default::default()), None => Default::default() };
      Box::new(Inst { p, pool })
   }
   impl Driver for Inst {
      fn load(&mut self, rel: usize, rows: &[Sexp], append: bool) -> Option<()> {
         match rel {
         0 => { let v: Vec<(i64,)> = parse_rows(rows)?; if append { self.p.r0.extend(v) } else { self.p.r0 = v } },
         1 => { let v: Vec<(i64,)> = parse_rows(rows)?; if append { self.p.r1.extend(v) } else { self.p.r1 = v } },
         2 => { let v: Vec<(i64,i64,)> = parse_rows(rows)?; if append { self.p.r2.extend(v) } else { self.p.r2 = v } },
         3 => { let v: Vec<(i64,)> = parse_rows(rows)?; if append { self.p.r3.extend(v) } else { self.p.r3 = v } },
         4 => { let v: Vec<(i64,i64,Set<i64>,)> = parse_rows(rows)?; if append { self.p.r4.extend(v) } else { self.p.r4 = v } },
         5 => { let v: Vec<(i64,Option<i64>,)> = parse_rows(rows)?; if append { self.p.r5.extend(v) } else { self.p.r5 = v } },
            _ => return None,
         }
         Some(())
      }
      fn run(&mut self) { match &self.pool { Some(pl) => { let p = &mut self.p; pl.install(|| p.run()) }, None => self.p.run() } }
      fn run_here(&mut self) { self.p.run() }
      fn run_timeout(&mut self, k: usize) -> Option<bool> { let _ = k; None }
      fn dump(&self) -> String { vec![dump_rel(0, self.p.r0.iter().map(Row::render).collect()), dump_rel(1, self.p.r1.iter().map(Row::render).collect()), dump_rel(2, self.p.r2.iter().map(Row::render).collect()), dump_rel(3, self.p.r3.iter().map(Row::render).collect()), dump_rel(4, self.p.r4.iter().map(Row::render).collect()), dump_rel(5, self.p.r5.iter().map(Row::render).collect())].join(" | ") }
      fn iters(&self) -> String { format!("iters {}", self.p.scc_iters.iter().map(|x| x.to_string()).collect::<Vec<_>>().join(" ")) }
   }
}

#[allow(unused, non_snake_case, clippy::all)]
pub mod l50 {
   use ascent::*;
   use ascent::aggregators::*;
   use ascent::lattice::{Dual, set::Set};
   use crate::common::*;
   ascent! {
      pub struct Prog;
      relation r0(i64, i64, i64);
      relation r1(i64, i64, i64);
      relation r2(i64, i64, i64);
      relation r3(i64, i64, i64);
      lattice r4(i64, i64, Option<i64>);
      r4(v2, v1, None) <-- r0(v0, v1, v2) if ((*v1) < 6);
      r2(v1, v0, 2) <-- r4(v0, v1, v2), r3(v1, v0, 1);
   }
   pub struct Inst { p: Prog, pool: Option<ascent::rayon::ThreadPool> }
   pub fn make(pool: Option<usize>) -> Box<dyn Driver> {
      let pool = pool.map(|n| ascent::rayon::ThreadPoolBuilder::new().num_threads(n).build().unwrap());
      let p = match &pool { Some(pl) => pl.install(|| Default::default()), None => Default::default() };
      Box::new(Inst { p, pool })
   }
   impl Driver for Inst {
      fn load(&mut self, rel: usize, rows: &[Sexp], append: bool) -> Option<()> {
         match rel {
         0 => { let v: Vec<(i64,i64,i64,)> = parse_rows(rows)?; if append { self.p.r0.extend(v) } else { self.p.r0 = v } },
         1 => { let v: Vec<(i64,i64,i64,)> = parse_rows(rows)?; if append { self.p.r1.extend(v) } else { self.p.r1 = v } },
         2 => { let v: Vec<(i64,i64,i64,)> = parse_rows(rows)?; if append { self.p.r2.extend(v) } else { self.p.r2 = v } },
         3 => { let v: Vec<(i64,i64,i64,)> = parse_rows(rows)?; if append { self.p.r3.extend(v) } else { self.p.r3 = v } },
         4 => { let v: Vec<(i64,i64,Option<i64>,)> = parse_rows(rows)?; if append { self.p.r4.extend(v) } else { self.p.r4 = v } },
            _ => return None,
         }
         Some(())
      }
      fn run(&mut self) { match &self.pool { Some(pl) => { let p = &mut self.p; pl.install(|| p.run()) }, None => self.p.run() } }
      fn run_here(&mut self) { self.p.run() }
      fn run_timeout(&mut self, k: usize) -> Option<bool> { let _ = k; None }
      fn dump(&self) -> String { vec![dump_rel(0, self.p.r0.iter().map(Row::render).collect()), dump_rel(1, self.p.r1.iter().map(Row::render).collect()), dump_rel(2, self.p.r2.iter().map(Row::render).collect()), dump_rel(3, self.p.r3.iter().map(Row::render).collect()), dump_rel(4, self.p.r4.iter().map(Row::render).collect())].join(" | ") }
      fn iters(&self) -> String { format!("iters {}", self.p.scc_iters.iter().map(|x| x.to_string()).collect::<Vec<_>>().join(" ")) }
   }
}

#[allow(unused, non_snake_case, clippy::all)]
pub mod l58 {
   use ascent::*;
   use ascent::aggregators::*;
   use ascent::lattice::{Dual, set::Set};
   use crate::common::*;
   ascent! {
      pub struct Prog;
      relation r0(i64);
      relation r1(i64);
      relation r2(i64, i64);
      relation r3(i64, i64);
      lattice r4(i64, Option<i64>);
      lattice r5(i64, Option<i64>);
      r4(v0, None) <-- r1(v0);
      r4(v0, None) <-- r4(v0, v1), r0(v2);
      r4(v0, Some((*v0))) <-- r4(v0, v1), r4(v0, v2) if ((*v0) < 3);
      r5(v0, Some((*v0))) <-- r0(v0);
      r5(((*v0) + 1), Some((*v0))) <-- r5(v0, v1) if ((*v0) < 4), r1(v0), if ((*v0) < 6);
      r3(v0, v0) <-- r5(v0, v1);
      r1(((*v0) + 1)) <-- r5(v0, v1), r0(v2), if ((*v0) < 6);
      r5(2, v1) <-- r4(v0, v1);
   }
   pub struct Inst { p: Prog, pool: Option<ascent::rayon::ThreadPool> }
   pub fn make(pool: Option<usize>) -> Box<dyn Driver> {
      let pool = pool.map(|n| ascent::rayon::ThreadPoolBuilder::new().num_threads(n).build().unwrap());
      let p = match &pool { Some(pl) => pl.install(|| Default::default()), None => Default::default() };
      Box::new(Inst { p, pool })
   }
   impl Driver for Inst {
      fn load(&mut self, rel: usize, rows: &[Sexp], append: bool) -> Option<()> {
         match rel {
         0 => { let v: Vec<(i64,)> = parse_rows(rows)?; if append { self.p.r0.extend(v) } else { self.p.r0 = v } },
         1 => { let v: Vec<(i64,)> = parse_rows(rows)?; if append { self.p.r1.extend(v) } else { self.p.r1 = v } },
         2 => { let v: Vec<(i64,i64,)> = parse_rows(rows)?; if append { self.p.r2.extend(v) } else { self.p.r2 = v } },
         3 => { let v: Vec<(i64,i64,)> = parse_rows(rows)?; if append { self.p.r3.extend(v) } else { self.p.r3 = v } },
         4 => { let v: Vec<(i64,Option<i64>,)> = parse_rows(rows)?; if append { self.p.r4.extend(v) } else { self.p.r4 = v } },
         5 => { let v: Vec<(i64,Option<i64>,)> = parse_rows(rows)?; if append { self.p.r5.extend(v) } else { self.p.r5 = v } },
            _ => return None,
         }
         Some(())
      }
      fn run(&mut self) { match &self.pool { Some(pl) => { let p = &mut self.p; pl.install(|| p.run()) }, None => self.p.run() } }
      fn run_here(&mut self) { self.p.run() }
      fn run_timeout(&mut self, k: usize) -> Option<bool> { let _ = k; None }
      fn dump(&self) -> String { vec![dump_rel(0, self.p.r0.iter().map(Row::render).collect()), dump_rel(1, self.p.r1.iter().map(Row::render).collect()), dump_rel(2, self.p.r2.iter().map(Row::render).collect()), dump_rel(3, self.p.r3.iter().map(Row::render).collect()), dump_rel(4, self.p.r4.iter().map(Row::render).collect()), dump_rel(5, self.p.r5.iter().map(Row::render).collect())].join(" | ") }
      fn iters(&self) -> String { format!("iters {}", self.p.scc_iters.iter().map(|x| x.to_string()).collect::<Vec<_>>().join(" ")) }
   }
}

#[allow(unused, non_snake_case, clippy::all)]
pub mod l66 {
   use ascent::*;
   use ascent::aggregators::*;
   use ascent::lattice::{Dual, set::Set};
   use crate::common::*;
   ascent! {
      pub struct Prog;
      relation r0(i64, i64);
      relation r1(i64, i64);
      relation r2(i64, i64);
      lattice r3(i64, i64, Set<i64>);
      r3(v0, v0, Set::singleton(2)) <-- r1(v0, v0);
      r3(v0, v0, Set::singleton((*v0))) <-- r3(v0, v1, v2), r1(v0, v1);
      r0(v2, v0) <-- r1(v0, v1) if ((*v0) < 5), r0(v2, v0);
   }
   pub struct Inst { p: Prog, pool: Option<ascent::rayon::ThreadPool> }
   pub fn make(pool: Option<usize>) -> Box<dyn Driver> {
      let pool = pool.map(|n| ascent::rayon::ThreadPoolBuilder::new().num_threads(n).build().unwrap());
      let p = match &pool { Some(pl) => pl.install(|| Default::default()), None => Default::default() };
      Box::new(Inst { p, pool })
   }
   impl Driver for Inst {
      fn load(&mut self, rel: usize, rows: &[Sexp], append: bool) -> Option<()> {
         match rel {
         0 => { let v: Vec<(i64,i64,)> = parse_rows(rows)?; if append { self.p.r0.extend(v) } else { self.p.r0 = v } },
         1 => { let v: Vec<(i64,i64,)> = parse_rows(rows)?; if append { self.p.r1.extend(v) } else { self.p.r1 = v } },
         2 => { let v: Vec<(i64,i64,)> = parse_rows(rows)?; if append { self.p.r2.extend(v) } else { self.p.r2 = v } },
         3 => { let v: Vec<(i64,i64,Set<i64>,)> = parse_rows(rows)?; if append { self.p.r3.extend(v) } else { self.p.r3 = v } },
            _ => return None,
         }
         Some(())
      }
      fn run(&mut self) { match &self.pool { Some(pl) => { let p = &mut self.p; pl.install(|| p.run()) }, None => self.p.run() } }
      fn run_here(&mut self) { self.p.run() }
      fn run_timeout(&mut self, k: usize) -> Option<bool> { let _ = k; None }
      fn dump(&self) -> String { vec![dump_rel(0, self.p.r0.iter().map(Row::render).collect()), dump_rel(1, self.p.r1.iter().map(Row::render).collect()), dump_rel(2, self.p.r2.iter().map(Row::render).collect()), dump_rel(3, self.p.r3.iter().map(Row::render).collect())].join(" | ") }
      fn iters(&self) -> String { format!("iters {}", self.p.scc_iters.iter().map(|x| x.to_string()).collect::<Vec<_>>().join(" ")) }
   }
}

#[allow(unused, non_snake_case, clippy::all)]
pub mod l74 {
   use ascent::*;
   use ascent::aggregators::*;
   use ascent::lattice::{Dual, set::Set};
   use crate::common::*;
   ascent! {
      pub struct Prog;
      relation r0(i64, i64);
      relation r1(i64);
      relation r2(i64);
      lattice r3(Dual<i64>);
      r3(Dual(2)) <-- r1(1);
      r3(Dual(((v0.0) + 0))) <-- r3(v0), r1(v1);
      r0(v0, v0) <-- r2(v0), r0(v1, v2);
      r3(Dual((*v1))) <-- r3(v0), r2(v1);
   }
   pub struct Inst { p: Prog, pool: Option<ascent::rayon::ThreadPool> }
   pub fn make(pool: Option<usize>) -> Box<dyn Driver> {
      let pool = pool.map(|n| ascent::rayon::ThreadPoolBuilder::new().num_threads(n).build().unwrap());
      let p = match &pool { Some(pl) => pl.install(|| Default::default()), None => Default::default() };
      Box::new(Inst { p, pool })
   }
   impl Driver for Inst {
      fn load(&mut self, rel: usize, rows: &[Sexp], append: bool) -> Option<()> {
         match rel {
         0 => { let v: Vec<(i64,i64,)> = parse_rows(rows)?; if append { self.p.r0.extend(v) } else { self.p.r0 = v } },
         1 => { let v: Vec<(i64,)> = parse_rows(rows)?; if append { self.p.r1.extend(v) } else { self.p.r1 = v } },
         2 => { let v: Vec<(i64,)> = parse_rows(rows)?; if append { self.p.r2.extend(v) } else { self.p.r2 = v } },
         3 => { let v: Vec<(Dual<i64>,)> = parse_rows(rows)?; if append { self.p.r3.extend(v) } else { self.p.r3 = v } },
            _ => return None,
         }
         Some(())
      }
      fn run(&mut self) { match &self.pool { Some(pl) => { let p = &mut self.p; pl.install(|| p.run()) }, None => self.p.run() } }
      fn run_here(&mut self) { self.p.run() }
      fn run_timeout(&mut self, k: usize) -> Option<bool> { let _ = k; None }
      fn dump(&self) -> String { vec![dump_rel(0, self.p.r0.iter().map(Row::render).collect()), dump_rel(1, self.p.r1.iter().map(Row::render).collect()), dump_rel(2, self.p.r2.iter().map(Row::render).collect()), dump_rel(3, self.p.r3.iter().map(Row::render).collect())].join(" | ") }
      fn iters(&self) -> String { format!("iters {}", self.p.scc_iters.iter().map(|x| x.to_string()).collect::<Vec<_>>().join(" ")) }
   }
}

fn main() {
   common::main_loop(&[("l2", l2::make as common::Factory), ("l10", l10::make as common::Factory), ("l18", l18::make as common::Factory), ("l26", l26::make as common::Factory), ("l34", l34::make as common::Factory), ("l42", l42::make as common::Factory), ("l50", l50::make as common::Factory), ("l58", l58::make as common::Factory), ("l66", l66::make as common::Factory), ("l74", l74::make as common::Factory)]);
}
